(* Generic theorem behind the second clause of C09: an accepted response without literals ends exactly at
   the first CRLF.  For a CRLF-disciplined grammar (Thm_Crlf: no class, tag or char admits CR; only `literal`
   and the terminating CRLF tag of a top rule read one) an inner parser never reads past the first CR of the
   buffer -- unless the line ends in "}" right before CRLF, the one place where a literal can continue it --
   and a top rule accepts only by reading that CR and the LF behind it.  Parametric in actions/natives. *)
From TI Require Import Bytes Grammar Nom Interp InterpFacts Thm_Sfx Thm_Crlf.
From Coq Require Import Lia.

Definition ends_brace (a : list byte) : bool := match rev a with c :: _ => c =? 125 | [] => false end.
Definition starts_lf (b : list byte) : Prop := exists b', b = 10 :: b'.

(* the buffer is a ++ CR :: b where a holds no CR; either a does not end in "}" or no LF follows the CR (so
   that a literal header cannot be completed here) *)
Definition line (a b : list byte) : Prop := nocr a /\ (ends_brace a = false \/ ~ starts_lf b).

Lemma ends_brace_suffix w a : a <> [] -> ends_brace (w ++ a) = ends_brace a.
Proof.
  intro Hne. unfold ends_brace. rewrite rev_app_distr. destruct (rev a) as [|c t] eqn:E; [|reflexivity].
  apply (f_equal (@rev byte)) in E. rewrite rev_involutive in E. contradiction.
Qed.

Lemma line_suffix w a b : line (w ++ a) b -> line a b.
Proof.
  intros [Hn Hb]. split.
  - unfold nocr in *. rewrite Forall_app in Hn. tauto.
  - destruct Hb as [Hb | Hb]; [|right; exact Hb]. left. destruct a as [|x a']; [reflexivity|].
    rewrite ends_brace_suffix in Hb by discriminate. exact Hb.
Qed.

(* a CR-free consumed part of a ++ CR :: b lies inside a *)
Lemma nocr_prefix : forall t r a b, t ++ r = a ++ 13 :: b -> nocr t -> exists a', a = t ++ a' /\ r = a' ++ 13 :: b.
Proof.
  induction t as [|x t IH]; intros r a b H Ht.
  - exists a. split; [reflexivity | exact H].
  - inversion Ht as [|? ? Hx Ht']; subst. destruct a as [|y a].
    + cbn in H. injection H as H1 _. contradiction.
    + cbn in H. injection H as -> H. destruct (IH r a b H Ht') as (a' & -> & ->). exists a'. split; reflexivity.
Qed.

(* two CR-free prefixes up to a CR are the same prefix *)
Lemma nocr_same : forall x y r1 r2, x ++ 13 :: r1 = y ++ 13 :: r2 -> nocr x -> nocr y -> x = y /\ r1 = r2.
Proof.
  induction x as [|a x IH]; intros y r1 r2 H Hx Hy.
  - destruct y as [|b y]; cbn in H.
    + injection H as ->. split; reflexivity.
    + injection H as <- _. inversion Hy as [|? ? Hb _]. contradiction.
  - inversion Hx as [|? ? Ha Hx']; subst. destruct y as [|b y]; cbn in H.
    + injection H as -> _. contradiction.
    + injection H as -> H. inversion Hy as [|? ? _ Hy']; subst. destruct (IH y r1 r2 H Hx' Hy') as [-> ->]. split; reflexivity.
Qed.

Definition within (p : list byte -> res) : Prop :=
  forall a b r v u, line a b -> p (a ++ 13 :: b) = ROk r v u -> exists a', line a' b /\ r = a' ++ 13 :: b.

Lemma consumed_within t r a b : line a b -> t ++ r = a ++ 13 :: b -> nocr t -> exists a', line a' b /\ r = a' ++ 13 :: b.
Proof.
  intros Hl H Ht. destruct (nocr_prefix t r a b H Ht) as (a' & -> & ->). exists a'. split; [|reflexivity].
  exact (line_suffix t a' b Hl).
Qed.

(* ---------------------------------------------------------------- leaves *)
Lemma tag_within eq s : cr_faithful eq -> nocr s -> within (fun i => of_scan (tag_scan eq s i)).
Proof.
  intros Hcf Hs a b r v u Hl H. cbv beta in H. unfold of_scan in H.
  destruct (tag_scan eq s (a ++ 13 :: b)) as [t r0| |] eqn:E; try discriminate. injection H as <- _ _.
  apply (consumed_within t r0 a b Hl); [symmetry; exact (tag_scan_app _ _ _ _ _ E) | exact (tag_scan_ok_nocr eq s Hcf Hs _ _ _ E)].
Qed.

Lemma span_within p (k : list byte -> list byte -> res) : p 13 = false ->
  (forall x r r' v u, k x r = ROk r' v u -> r' = r) ->
  within (fun i => match span p i with None => RInc | Some (x, r) => k x r end).
Proof.
  intros Hp Hr a b r v u Hl H. cbv beta in H. destruct (span p (a ++ 13 :: b)) as [[x r0]|] eqn:E; [|discriminate].
  rewrite (Hr _ _ _ _ _ H). apply (consumed_within x r0 a b Hl); [symmetry; exact (span_app _ _ _ _ E)|].
  eapply all_p_nocr; [exact Hp | exact (span_some_all _ _ _ _ E)].
Qed.

Lemma esc_within n c e : n 13 = false -> c <> 13 -> existsb (N.eqb 13) e = false -> within (fun i => of_scan (esc_scan n c e i)).
Proof.
  intros Hn Hc He a b r v u Hl H. cbv beta in H. unfold of_scan in H.
  destruct (esc_scan n c e (a ++ 13 :: b)) as [t r0| |] eqn:E; try discriminate. injection H as <- _ _.
  apply (consumed_within t r0 a b Hl); [symmetry; exact (esc_scan_app _ _ _ _ _ _ E)|].
  exact (proj2 (esc_scan_nocr n c e Hn Hc He (a ++ 13 :: b)) _ _ E).
Qed.

Lemma number_within bits : within (number_p bits).
Proof.
  unfold number_p.
  apply (span_within nom_is_digit (fun ds r => match ds with [] => RErr | _ => if dec ds <? 2 ^ bits then ROk r (VNum (dec ds)) (nlen ds) else RErr end)).
  - reflexivity.
  - intros x r r' v u H. destruct x; [discriminate|]. destruct (_ <? _); [|discriminate]. now injection H as <- _ _.
Qed.

(* a literal is accepted only at "{digits}" CR LF: the header is the whole of a, which then ends in "}" and is
   followed by LF -- excluded by `line` *)
Lemma literal_within : within literal_p.
Proof.
  intros a b r v u [Hn Hb] H. exfalso. unfold literal_p in H.
  destruct (tag_scan eq_case [123] (a ++ 13 :: b)) as [t1 r1| |] eqn:E1; try discriminate.
  destruct (tag1_ok _ _ _ _ E1) as [Hi1 _].
  unfold number_p in H. destruct (span nom_is_digit r1) as [[ds r2]|] eqn:E2; [|discriminate].
  pose proof (span_app _ _ _ _ E2) as Hr1. pose proof (span_some_all _ _ _ _ E2) as Hds.
  destruct ds as [|d ds]; [discriminate|]. destruct (dec (d :: ds) <? 2 ^ 32); [|discriminate].
  destruct (tag_scan eq_case [125] r2) as [t3 r3| |] eqn:E3; try discriminate.
  destruct (tag1_ok _ _ _ _ E3) as [Hr2 _].
  destruct (tag_scan eq_case [13; 10] r3) as [t4 r4| |] eqn:E4; try discriminate.
  assert (Hr3 : r3 = 13 :: 10 :: r4).
  { cbn [tag_scan] in E4. destruct r3 as [|x r3']; [discriminate|]. unfold eq_case in E4.
    destruct (N.eqb_spec 13 x) as [<-|]; [|discriminate]. destruct r3' as [|y r3'']; [discriminate|].
    destruct (N.eqb_spec 10 y) as [<-|]; [|discriminate]. now injection E4 as _ <-. }
  assert (HLn : nocr (123 :: (d :: ds) ++ [125])).
  { constructor; [discriminate|]. apply nocr_app; [apply digits_nocr; exact Hds|repeat constructor; discriminate]. }
  assert (Hall : (123 :: (d :: ds) ++ [125]) ++ 13 :: 10 :: r4 = a ++ 13 :: b).
  { rewrite Hi1, Hr1, Hr2, Hr3. cbn. rewrite <- app_assoc. reflexivity. }
  destruct (nocr_same _ _ _ _ Hall HLn Hn) as [Ha Hb']. destruct Hb as [Hb | Hb].
  - rewrite <- Ha in Hb. unfold ends_brace in Hb. cbn [rev] in Hb. rewrite rev_app_distr in Hb. cbn in Hb. discriminate.
  - apply Hb. exists r4. symmetry. exact Hb'.
Qed.

Lemma leaf_within l : leaf_inner l = true -> within (leaf_run l).
Proof.
  destruct l as [s|s|c|c|n c e|bits| |w]; cbn [leaf_inner]; intros H.
  - apply (tag_within eq_case s eq_case_crf). now apply nocrb_ok.
  - apply (tag_within eq_nocase1 s eq_nocase1_crf). now apply nocrb_ok.
  - apply (span_within c (fun x r => ROk r (VBytes x) (nlen x))).
    + now destruct (c 13).
    + intros x r r' v u E. now injection E as <- _ _.
  - apply (span_within c (fun x r => match x with [] => RErr | _ => ROk r (VBytes x) (nlen x) end)).
    + now destruct (c 13).
    + intros x r r' v u E. destruct x; [discriminate|]. now injection E as <- _ _.
  - apply andb_true_iff in H. destruct H as [H H3]. apply andb_true_iff in H. destruct H as [H1 H2].
    apply esc_within.
    + now destruct (n 13).
    + apply N.eqb_neq. now destruct (c =? 13).
    + now destruct (existsb (N.eqb 13) e).
  - apply number_within.
  - apply literal_within.
  - intros a b r v u _ E. cbn [leaf_run] in E. discriminate.
Qed.

(* ---------------------------------------------------------------- combinators *)
Lemma seq_within (self : G -> P) gs d : Forall (fun g => within (self g d)) gs ->
  forall a b acc u0 r v u, line a b -> seq_run self gs d (a ++ 13 :: b) acc u0 = ROk r v u -> exists a', line a' b /\ r = a' ++ 13 :: b.
Proof.
  induction 1 as [|g gs Hg Hgs IH]; intros a b acc u0 r v u Hl H; cbn [seq_run] in H.
  - injection H as <- _ _. exists a. split; [exact Hl | reflexivity].
  - destruct (self g d (a ++ 13 :: b)) as [r1 v1 u1| | | | |] eqn:E; try discriminate.
    destruct (Hg a b r1 v1 u1 Hl E) as (a1 & Hl1 & ->). exact (IH a1 b _ _ r v u Hl1 H).
Qed.

Lemma alt_within (self : G -> P) gs d : Forall (fun g => within (self g d)) gs -> within (alt_run self gs d).
Proof.
  induction 1 as [|g gs Hg Hgs IH]; intros a b r v u Hl H; cbn [alt_run] in H; [discriminate|].
  destruct (self g d (a ++ 13 :: b)) as [r1 v1 u1| | | | |] eqn:E; try discriminate.
  - injection H as <- _ _. exact (Hg a b r1 v1 u1 Hl E).
  - exact (IH a b r v u Hl H).
Qed.

Lemma many_within p : within p -> forall n a b acc u0 r v u, line a b ->
  many_loop p n (a ++ 13 :: b) acc u0 = ROk r v u -> exists a', line a' b /\ r = a' ++ 13 :: b.
Proof.
  intros Hp n. induction n as [|n IHn]; intros a b acc u0 r v u Hl H; cbn [many_loop] in H; [discriminate|].
  destruct (p (a ++ 13 :: b)) as [r1 v1 u1| | | | |] eqn:E; try discriminate.
  - destruct (u1 =? 0); [discriminate|]. destruct (Hp a b r1 v1 u1 Hl E) as (a1 & Hl1 & ->). exact (IHn a1 b _ _ r v u Hl1 H).
  - injection H as <- _ _. exists a. split; [exact Hl | reflexivity].
Qed.

Lemma sep_within s p : within s -> within p -> forall n a b acc u0 r v u, line a b ->
  sep_loop s p n (a ++ 13 :: b) acc u0 = ROk r v u -> exists a', line a' b /\ r = a' ++ 13 :: b.
Proof.
  intros Hs Hp n. induction n as [|n IHn]; intros a b acc u0 r v u Hl H; cbn [sep_loop] in H; [discriminate|].
  destruct (s (a ++ 13 :: b)) as [r1 v1 u1| | | | |] eqn:E; try discriminate.
  - destruct (u1 =? 0); [discriminate|]. destruct (Hs a b r1 v1 u1 Hl E) as (a1 & Hl1 & ->).
    destruct (p (a1 ++ 13 :: b)) as [r2 v2 u2| | | | |] eqn:E2; try discriminate.
    + destruct (Hp a1 b r2 v2 u2 Hl1 E2) as (a2 & Hl2 & ->). exact (IHn a2 b _ _ r v u Hl2 H).
    + injection H as <- _ _. exists a. split; [exact Hl | reflexivity].
  - injection H as <- _ _. exists a. split; [exact Hl | reflexivity].
Qed.

Section RunLine.
Variable natf : string -> list val -> ares.
Variable env : N -> option G.
Variable bound : nat.
Variable is_tail_def : N -> bool.

Notation node_inner := (node_inner is_tail_def).

(* strict tail form: the parser ends by reading the terminating CRLF, on every accepting path *)
Fixpoint stail (g : G) : bool :=
  match g with
  | Leaf _ => is_crlf_tag g
  | Ref f _ => is_tail_def f
  | Seq gs => (fix sq (l : list G) : bool :=
                 match l with
                 | [] => false
                 | [x] => stail x
                 | x :: l' => all_nodes node_inner x && sq l'
                 end) gs
  | Alt gs => (fix al (l : list G) : bool := match l with [] => true | x :: l' => stail x && al l' end) gs
  | Map _ g' | MapRes _ g' | Guard _ g' => stail g'
  | _ => false
  end.

Hypothesis env_ok : forall f g, env f = Some g ->
  if is_tail_def f then stail g = true else all_nodes node_inner g = true.

Theorem run_within fuel : forall g dp, all_nodes node_inner g = true -> within (run natf env bound fuel g dp).
Proof.
  induction fuel as [|f IHf]; intros g dp Hg.
  { intros a b r v u _ H. rewrite run_0 in H. discriminate. }
  revert dp Hg. induction g using G_ind'; intros dp Hg; rewrite run_S; cbn [step];
    apply all_nodes_inv in Hg; destruct Hg as [Hhere Hsub].
  - apply leaf_within. exact Hhere.
  - cbn [Thm_Crlf.node_inner] in Hhere. destruct (env f0) as [g'|] eqn:E; [|intros a b r v u _ H; discriminate].
    apply IHf. pose proof (env_ok _ _ E) as Hk. destruct (is_tail_def f0); [discriminate|exact Hk].
  - intros a b r v u Hl H. destruct (Nat.leb m dp); [discriminate|]. exact (IHg dp Hsub a b r v u Hl H).
  - intros a b r v u Hl HR. eapply seq_within; [|exact Hl|exact HR]. rewrite Forall_forall in *. intros g Hin. apply H; auto.
  - apply alt_within. rewrite Forall_forall in *. intros g Hin. apply H; auto.
  - intros a b r v u Hl H.
    destruct (run natf env bound (S f) g dp (a ++ 13 :: b)) as [r1 v1 u1| | | | |] eqn:E; try discriminate.
    + injection H as <- _ _. exact (IHg dp Hsub a b r1 v1 u1 Hl E).
    + injection H as <- _ _. exists a. split; [exact Hl | reflexivity].
  - intros a b r v u Hl H.
    destruct (run natf env bound (S f) g dp (a ++ 13 :: b)) as [r1 v1 u1| | | | |] eqn:E; try discriminate.
    + injection H as <- _ _. exact (IHg dp Hsub a b r1 v1 u1 Hl E).
    + injection H as <- _ _. exists a. split; [exact Hl | reflexivity].
  - intros a b r v u Hl H. eapply many_within; [|exact Hl|exact H]. apply IHg; assumption.
  - intros a b r v u Hl H.
    destruct (run natf env bound (S f) g dp (a ++ 13 :: b)) as [r1 v1 u1| | | | |] eqn:E; try discriminate.
    destruct (IHg dp Hsub a b r1 v1 u1 Hl E) as (a1 & Hl1 & ->).
    eapply many_within; [|exact Hl1|exact H]. apply IHg; assumption.
  - destruct Hsub as [Hs1 Hs2]. intros a b r v u Hl H.
    destruct (run natf env bound (S f) g2 dp (a ++ 13 :: b)) as [r1 v1 u1| | | | |] eqn:E; try discriminate.
    + destruct (IHg2 dp Hs2 a b r1 v1 u1 Hl E) as (a1 & Hl1 & ->).
      eapply sep_within; [| |exact Hl1|exact H]; [apply IHg1 | apply IHg2]; assumption.
    + injection H as <- _ _. exists a. split; [exact Hl | reflexivity].
  - destruct Hsub as [Hs1 Hs2]. intros a b r v u Hl H.
    destruct (run natf env bound (S f) g2 dp (a ++ 13 :: b)) as [r1 v1 u1| | | | |] eqn:E; try discriminate.
    destruct (IHg2 dp Hs2 a b r1 v1 u1 Hl E) as (a1 & Hl1 & ->).
    eapply sep_within; [| |exact Hl1|exact H]; [apply IHg1 | apply IHg2]; assumption.
  - intros a b r v u Hl H.
    destruct (run natf env bound (S f) g dp (a ++ 13 :: b)) as [r1 v1 u1| | | | |] eqn:E; try discriminate.
    injection H as <- _ _. exact (IHg dp Hsub a b r1 v1 u1 Hl E).
  - intros a0 b r v u Hl H.
    destruct (run natf env bound (S f) g dp (a0 ++ 13 :: b)) as [r1 v1 u1| | | | |] eqn:E; try discriminate.
    destruct (act natf a v1) as [w| |]; try discriminate. injection H as <- _ _. exact (IHg dp Hsub a0 b r1 v1 u1 Hl E).
  - intros a0 b r v u Hl H.
    destruct (run natf env bound (S f) g dp (a0 ++ 13 :: b)) as [r1 v1 u1| | | | |] eqn:E; try discriminate.
    destruct (act natf a v1) as [w| |]; try discriminate. injection H as <- _ _. exact (IHg dp Hsub a0 b r1 v1 u1 Hl E).
  - intros a b r v u _ H. discriminate.
Qed.

(* ---- top rules: accepted only by reading the CR and the LF behind it ---- *)
Definition tail_exact (p : list byte -> res) : Prop :=
  forall a b r v u, line a b -> p (a ++ 13 :: b) = ROk r v u -> b = 10 :: r.

Lemma crlf_tag_exact : tail_exact (fun i => of_scan (tag_scan eq_case [13; 10] i)).
Proof.
  intros a b r v u [Hn _] H. cbv beta in H. unfold of_scan in H. destruct a as [|x a'].
  - cbn [app tag_scan] in H. unfold eq_case in H. rewrite N.eqb_refl in H. destruct b as [|y b']; [discriminate|].
    destruct (N.eqb_spec 10 y) as [<-|]; [|discriminate]. injection H as <- _ _. reflexivity.
  - inversion Hn as [|? ? Hx _]; subst. cbn [app tag_scan] in H. unfold eq_case in H.
    destruct (N.eqb_spec 13 x) as [<-|]; [contradiction | discriminate].
Qed.

Fixpoint sq_stail (l : list G) : bool :=
  match l with
  | [] => false
  | [x] => stail x
  | x :: l' => all_nodes node_inner x && sq_stail l'
  end.

Lemma stail_seq gs : stail (Seq gs) = sq_stail gs. Proof. reflexivity. Qed.
Lemma stail_alt gs : stail (Alt gs) = forallb stail gs. Proof. reflexivity. Qed.

Lemma seq_exact (self : G -> P) dp : (forall g, all_nodes node_inner g = true -> within (self g dp)) ->
  forall gs, Forall (fun g => stail g = true -> tail_exact (self g dp)) gs -> sq_stail gs = true ->
  forall a b acc u0 r v u, line a b -> seq_run self gs dp (a ++ 13 :: b) acc u0 = ROk r v u -> b = 10 :: r.
Proof.
  intros Hinner gs. induction gs as [|x gs IHgs]; intros HF Hsq a b acc u0 r v u Hl H; [discriminate|].
  inversion HF as [|? ? Hx Hgs]; subst. destruct gs as [|y gs].
  - cbn [sq_stail] in Hsq. cbn [seq_run] in H.
    destruct (self x dp (a ++ 13 :: b)) as [r1 v1 u1| | | | |] eqn:E; try discriminate. injection H as <- _ _.
    exact (Hx Hsq a b r1 v1 u1 Hl E).
  - cbn [sq_stail] in Hsq. apply andb_true_iff in Hsq. destruct Hsq as [Hxi Hrest].
    cbn [seq_run] in H. destruct (self x dp (a ++ 13 :: b)) as [r1 v1 u1| | | | |] eqn:E; try discriminate.
    destruct (Hinner x Hxi a b r1 v1 u1 Hl E) as (a1 & Hl1 & ->). exact (IHgs Hgs Hrest a1 b _ _ r v u Hl1 H).
Qed.

Lemma alt_exact (self : G -> P) dp : forall gs, Forall (fun g => stail g = true -> tail_exact (self g dp)) gs ->
  forallb stail gs = true -> tail_exact (alt_run self gs dp).
Proof.
  induction gs as [|x gs IHgs]; intros HF Hall a b r v u Hl H; cbn [alt_run] in H; [discriminate|].
  inversion HF as [|? ? Hx Hgs]; subst. cbn [forallb] in Hall. apply andb_true_iff in Hall. destruct Hall as [Hxt Hrest].
  destruct (self x dp (a ++ 13 :: b)) as [r1 v1 u1| | | | |] eqn:E; try discriminate.
  - injection H as <- _ _. exact (Hx Hxt a b r1 v1 u1 Hl E).
  - exact (IHgs Hgs Hrest a b r v u Hl H).
Qed.

Theorem run_tail_exact fuel : forall g dp, stail g = true -> tail_exact (run natf env bound fuel g dp).
Proof.
  induction fuel as [|f IHf]; intros g dp Hg.
  { intros a b r v u _ H. rewrite run_0 in H. discriminate. }
  revert dp Hg. induction g using G_ind'; intros dp Hg; try discriminate Hg.
  - (* Leaf *)
    rewrite run_S; cbn [step]. cbn [stail] in Hg. unfold is_crlf_tag in Hg. destruct l as [s| | | | | | |]; try discriminate.
    apply list_eqb_N_eq in Hg. subst s. exact crlf_tag_exact.
  - (* Ref *)
    rewrite run_S; cbn [step]. cbn [stail] in Hg. destruct (env f0) as [g'|] eqn:E; [|intros a b r v u _ H; discriminate].
    apply IHf. pose proof (env_ok _ _ E) as Hk. rewrite Hg in Hk. exact Hk.
  - (* Guard *)
    cbn [stail] in Hg. rewrite run_S; cbn [step]. intros a b r v u Hl H. destruct (Nat.leb m dp); [discriminate|].
    exact (IHg dp Hg a b r v u Hl H).
  - (* Seq *)
    rewrite stail_seq in Hg. rewrite run_S; cbn [step]. intros a b r v u Hl HR.
    eapply (seq_exact _ dp); [| |exact Hg|exact Hl|exact HR].
    + intros g Hgi. apply run_within. exact Hgi.
    + rewrite Forall_forall in *. intros g Hin Ht. apply H; auto.
  - (* Alt *)
    rewrite stail_alt in Hg. rewrite run_S; cbn [step]. apply alt_exact; auto.
    rewrite Forall_forall in *. intros g Hin Ht. apply H; auto.
  - (* Map *)
    cbn [stail] in Hg. rewrite run_S; cbn [step]. intros a0 b r v u Hl H.
    destruct (run natf env bound (S f) g dp (a0 ++ 13 :: b)) as [r1 v1 u1| | | | |] eqn:E; try discriminate.
    destruct (act natf a v1); try discriminate. injection H as <- _ _. exact (IHg dp Hg a0 b r1 v1 u1 Hl E).
  - (* MapRes *)
    cbn [stail] in Hg. rewrite run_S; cbn [step]. intros a0 b r v u Hl H.
    destruct (run natf env bound (S f) g dp (a0 ++ 13 :: b)) as [r1 v1 u1| | | | |] eqn:E; try discriminate.
    destruct (act natf a v1); try discriminate. injection H as <- _ _. exact (IHg dp Hg a0 b r1 v1 u1 Hl E).
Qed.

(* ---- every accepted response, with or without literals, ends with CR LF ---- *)
Definition ends_crlf (p : list byte -> res) : Prop :=
  forall i r v u, p i = ROk r v u -> exists w0, i = w0 ++ 13 :: 10 :: r.

Lemma crlf_tag_ends : ends_crlf (fun i => of_scan (tag_scan eq_case [13; 10] i)).
Proof.
  intros i r v u H. cbv beta in H. unfold of_scan in H. destruct (tag_scan eq_case [13; 10] i) as [t r0| |] eqn:E; try discriminate.
  injection H as <- _ _. cbn [tag_scan] in E. destruct i as [|x i']; [discriminate|]. unfold eq_case in E.
  destruct (N.eqb_spec 13 x) as [<-|]; [|discriminate]. destruct i' as [|y i'']; [discriminate|].
  destruct (N.eqb_spec 10 y) as [<-|]; [|discriminate]. injection E as _ <-. exists []. reflexivity.
Qed.

Lemma seq_ends (self : G -> P) dp : (forall g, sfx (self g dp)) ->
  forall gs, Forall (fun g => stail g = true -> ends_crlf (self g dp)) gs -> sq_stail gs = true ->
  forall i acc u0 r v u, seq_run self gs dp i acc u0 = ROk r v u -> exists w0, i = w0 ++ 13 :: 10 :: r.
Proof.
  intros Hsfx gs. induction gs as [|x gs IHgs]; intros HF Hsq i acc u0 r v u H; [discriminate|].
  inversion HF as [|? ? Hx Hgs]; subst. destruct gs as [|y gs].
  - cbn [sq_stail] in Hsq. cbn [seq_run] in H.
    destruct (self x dp i) as [r1 v1 u1| | | | |] eqn:E; try discriminate. injection H as <- _ _. exact (Hx Hsq i r1 v1 u1 E).
  - cbn [sq_stail] in Hsq. apply andb_true_iff in Hsq. destruct Hsq as [_ Hrest].
    cbn [seq_run] in H. destruct (self x dp i) as [r1 v1 u1| | | | |] eqn:E; try discriminate.
    destruct (Hsfx x i r1 v1 u1 E) as (c & -> & _). destruct (IHgs Hgs Hrest r1 _ _ r v u H) as (w0 & ->).
    exists (c ++ w0). rewrite <- app_assoc. reflexivity.
Qed.

Lemma alt_ends (self : G -> P) dp : forall gs, Forall (fun g => stail g = true -> ends_crlf (self g dp)) gs ->
  forallb stail gs = true -> ends_crlf (alt_run self gs dp).
Proof.
  induction gs as [|x gs IHgs]; intros HF Hall i r v u H; cbn [alt_run] in H; [discriminate|].
  inversion HF as [|? ? Hx Hgs]; subst. cbn [forallb] in Hall. apply andb_true_iff in Hall. destruct Hall as [Hxt Hrest].
  destruct (self x dp i) as [r1 v1 u1| | | | |] eqn:E; try discriminate.
  - injection H as <- _ _. exact (Hx Hxt i r1 v1 u1 E).
  - exact (IHgs Hgs Hrest i r v u H).
Qed.

Theorem run_ends_crlf fuel : forall g dp, stail g = true -> ends_crlf (run natf env bound fuel g dp).
Proof.
  induction fuel as [|f IHf]; intros g dp Hg.
  { intros i r v u H. rewrite run_0 in H. discriminate. }
  revert dp Hg. induction g using G_ind'; intros dp Hg; try discriminate Hg.
  - rewrite run_S; cbn [step]. cbn [stail] in Hg. unfold is_crlf_tag in Hg. destruct l as [s| | | | | | |]; try discriminate.
    apply list_eqb_N_eq in Hg. subst s. exact crlf_tag_ends.
  - rewrite run_S; cbn [step]. cbn [stail] in Hg. destruct (env f0) as [g'|] eqn:E; [|intros i r v u H; discriminate].
    apply IHf. pose proof (env_ok _ _ E) as Hk. rewrite Hg in Hk. exact Hk.
  - cbn [stail] in Hg. rewrite run_S; cbn [step]. intros i r v u H. destruct (Nat.leb m dp); [discriminate|]. exact (IHg dp Hg i r v u H).
  - rewrite stail_seq in Hg. rewrite run_S; cbn [step]. intros i r v u HR.
    eapply (seq_ends _ dp); [| |exact Hg|exact HR].
    + intro g. apply run_sfx.
    + rewrite Forall_forall in *. intros g Hin Ht. apply H; auto.
  - rewrite stail_alt in Hg. rewrite run_S; cbn [step]. apply alt_ends; auto.
    rewrite Forall_forall in *. intros g Hin Ht. apply H; auto.
  - cbn [stail] in Hg. rewrite run_S; cbn [step]. intros i r v u H.
    destruct (run natf env bound (S f) g dp i) as [r1 v1 u1| | | | |] eqn:E; try discriminate.
    destruct (act natf a v1); try discriminate. injection H as <- _ _. exact (IHg dp Hg i r1 v1 u1 E).
  - cbn [stail] in Hg. rewrite run_S; cbn [step]. intros i r v u H.
    destruct (run natf env bound (S f) g dp i) as [r1 v1 u1| | | | |] eqn:E; try discriminate.
    destruct (act natf a v1); try discriminate. injection H as <- _ _. exact (IHg dp Hg i r1 v1 u1 E).
Qed.

(* ---- the statement in the framer's terms: split_crlf finds the first CRLF ---- *)
Lemma split_crlf_shape : forall i a after, split_crlf i = Some (a, after) ->
  i = a ++ 13 :: 10 :: after /\
  (nocr a \/ exists a1 b1, i = a1 ++ 13 :: b1 /\ nocr a1 /\ ~ starts_lf b1).
Proof.
  induction i as [|x i IH]; intros a after H; [discriminate|]. cbn [split_crlf] in H.
  destruct i as [|y i']; [discriminate|].
  destruct ((x =? 13) && (y =? 10)) eqn:E.
  - injection H as <- <-. apply andb_true_iff in E. destruct E as [E1 E2]. apply N.eqb_eq in E1, E2. subst.
    split; [reflexivity|]. left. constructor.
  - destruct (split_crlf (y :: i')) as [[l r]|] eqn:E2; [|discriminate]. injection H as <- <-.
    destruct (IH l r eq_refl) as [Hi Hc]. split; [cbn; rewrite Hi; reflexivity|].
    destruct (N.eqb_spec x 13) as [->|Hx].
    + right. exists [], (y :: i'). split; [reflexivity|]. split; [constructor|].
      intros (b' & Hb). injection Hb as -> _. cbn in E. discriminate.
    + destruct Hc as [Hc | (a1 & b1 & Hi1 & Hn1 & Hb1)].
      * left. constructor; assumption.
      * right. exists (x :: a1), b1. split; [cbn; rewrite Hi1; reflexivity|]. split; [constructor; assumption | exact Hb1].
Qed.

Theorem accepted_line_ends_at_first_crlf fuel g dp : stail g = true ->
  forall i a after r v u, split_crlf i = Some (a, after) -> ends_brace a = false ->
    run natf env bound fuel g dp i = ROk r v u -> r = after /\ u = nlen a + 2.
Proof.
  intros Hg i a after r v u Hs Hb H. destruct (split_crlf_shape i a after Hs) as [Hi Hc].
  assert (Hr : r = after).
  { destruct Hc as [Hn | (a1 & b1 & Hi1 & Hn1 & Hb1)].
    - rewrite Hi in H. pose proof (run_tail_exact fuel g dp Hg a (10 :: after) r v u (conj Hn (or_introl Hb)) H) as E.
      injection E as ->. reflexivity.
    - exfalso. rewrite Hi1 in H. pose proof (run_tail_exact fuel g dp Hg a1 b1 r v u (conj Hn1 (or_intror Hb1)) H) as E.
      apply Hb1. exists r. exact E. }
  split; [exact Hr|]. subst r.
  destruct (run_sfx natf env bound fuel g dp i after v u H) as (c & Hc' & ->).
  rewrite Hi in Hc'. assert (Ec : c = a ++ [13; 10]).
  { apply (app_inv_tail after). rewrite <- Hc', <- app_assoc. reflexivity. }
  subst c. rewrite nlen_app. reflexivity.
Qed.
End RunLine.
