From TI Require Import Bytes Builders.
From Coq Require Import Lia ZifyBool ZifyN ZifyNat ZArith.

(* ---------- escape ---------- *)
Lemma escape_app a b : escape (a ++ b) = escape a ++ escape b.
Proof. unfold escape. apply flat_map_app. Qed.

Lemma escape_cons_special b s : is_qspecial b = true -> escape (b :: s) = 92 :: b :: escape s.
Proof. intros H. unfold escape. cbn [flat_map]. rewrite H. reflexivity. Qed.

Lemma escape_cons_plain b s : is_qspecial b = false -> escape (b :: s) = b :: escape s.
Proof. intros H. unfold escape. cbn [flat_map]. rewrite H. reflexivity. Qed.

Lemma slice_done (done rest : list byte) start :
  (start <= length done)%nat -> slice (done ++ rest) start (length done) = skipn start done.
Proof.
  intros H. unfold slice. rewrite skipn_app.
  replace (start - length done)%nat with 0%nat by lia. cbn [skipn].
  rewrite firstn_app, skipn_length. replace (length done - start - (length done - start))%nat with 0%nat by lia.
  cbn [firstn]. rewrite app_nil_r. apply firstn_all2. rewrite skipn_length. lia.
Qed.

Lemma skipn_snoc (done : list byte) b start :
  (start <= length done)%nat -> skipn start (done ++ [b]) = skipn start done ++ [b].
Proof. intros H. rewrite skipn_app. replace (start - length done)%nat with 0%nat by lia. reflexivity. Qed.

(* ---------- the loop ---------- *)
Lemma qs_loop_crlf : forall rest bytes i start new,
  existsb is_crlf rest = true -> qs_loop bytes rest i start new = None.
Proof.
  induction rest as [|b rest IH]; intros bytes i start new H; [discriminate|].
  cbn [existsb] in H. cbn [qs_loop]. destruct (is_crlf b); [reflexivity|]. cbn [orb] in H.
  destruct (is_qspecial b); apply IH; exact H.
Qed.

Lemma qs_loop_ok : forall rest done start new,
  (start <= length done)%nat -> new ++ skipn start done = escape done ->
  existsb is_crlf rest = false ->
  exists start' new', qs_loop (done ++ rest) rest (length done) start new = Some (start', new')
     /\ (start' <= length (done ++ rest))%nat
     /\ new' ++ skipn start' (done ++ rest) = escape (done ++ rest)
     /\ (start' = 0%nat -> start = 0%nat /\ new' = new).
Proof.
  induction rest as [|b rest IH]; intros done start new Hs Hinv Hcr.
  - exists start, new. rewrite app_nil_r. cbn [qs_loop]. repeat split; auto.
  - cbn [existsb] in Hcr. apply orb_false_iff in Hcr. destruct Hcr as [Hb Hcr].
    cbn [qs_loop]. rewrite Hb.
    replace (done ++ b :: rest) with ((done ++ [b]) ++ rest) by (rewrite <- app_assoc; reflexivity).
    assert (Hlen : S (length done) = length (done ++ [b])) by (rewrite app_length; cbn; lia).
    destruct (is_qspecial b) eqn:Hq.
    + rewrite Hlen.
      assert (Hnew1 : (if Nat.ltb start (length done) then new ++ slice ((done ++ [b]) ++ rest) start (length done) else new) = escape done).
      { destruct (Nat.ltb_spec start (length done)) as [Hlt|Hge].
        - rewrite <- app_assoc. rewrite slice_done by lia. exact Hinv.
        - rewrite <- Hinv. rewrite skipn_all2 by lia. now rewrite app_nil_r. }
      rewrite Hnew1.
      destruct (IH (done ++ [b]) (length (done ++ [b])) (escape done ++ [92; b])) as [s' [n' [E [H1 [H2 H3]]]]].
      * lia.
      * rewrite skipn_all2 by lia. rewrite app_nil_r, escape_app. f_equal.
        rewrite escape_cons_special by exact Hq. reflexivity.
      * exact Hcr.
      * exists s', n'. split; [exact E|]. split; [exact H1|]. split; [exact H2|].
        intros Hz. destruct (H3 Hz) as [Hl _]. rewrite app_length in Hl. cbn in Hl. lia.
    + rewrite Hlen.
      destruct (IH (done ++ [b]) start new) as [s' [n' [E [H1 [H2 H3]]]]].
      * rewrite app_length. cbn. lia.
      * rewrite skipn_snoc by exact Hs. rewrite app_assoc, Hinv, escape_app. f_equal.
        rewrite escape_cons_plain by exact Hq. reflexivity.
      * exact Hcr.
      * exists s', n'. repeat split; auto; apply H3; auto.
Qed.

Lemma existsb_crlf_in s : existsb is_crlf s = true <-> In 13 s \/ In 10 s.
Proof.
  rewrite existsb_exists. unfold is_crlf. split.
  - intros [x [Hin Hx]]. apply orb_true_iff in Hx. destruct Hx as [Hx|Hx]; apply N.eqb_eq in Hx; subst; auto.
  - intros [H|H]; [exists 13|exists 10]; split; auto.
Qed.

(* ---------- UTF-8 is preserved by escaping ---------- *)
Lemma utf8_step_bad_sticky l : utf8_run UBad l = UBad.
Proof. induction l as [|c l IH]; [reflexivity|]. cbn. exact IH. Qed.

Lemma special_ascii b : is_qspecial b = true -> b = 92 \/ b = 34.
Proof. unfold is_qspecial. lia. Qed.

Lemma utf8_step_ascii_special q b : is_qspecial b = true ->
  utf8_step (utf8_step q 92) b = utf8_step q b.
Proof.
  intros H. destruct (special_ascii b H) as [-> | ->]; destruct q; reflexivity.
Qed.

Lemma utf8_run_escape : forall s q, utf8_run q (escape s) = utf8_run q s.
Proof.
  induction s as [|b s IH]; intros q; [reflexivity|].
  destruct (is_qspecial b) eqn:Hq.
  - rewrite escape_cons_special by exact Hq. unfold utf8_run in *. cbn [fold_left].
    rewrite utf8_step_ascii_special by exact Hq. apply IH.
  - rewrite escape_cons_plain by exact Hq. unfold utf8_run in *. cbn [fold_left]. apply IH.
Qed.

Theorem utf8_escape_lemma s : utf8_valid (escape s) = utf8_valid s.
Proof. unfold utf8_valid. rewrite utf8_run_escape. reflexivity. Qed.

Lemma escape_length_ge : forall t : list byte, (length t <= length (escape t))%nat.
Proof.
  induction t as [|c t IHt]; [cbn; lia|]. destruct (is_qspecial c) eqn:Hc;
  [rewrite escape_cons_special by exact Hc | rewrite escape_cons_plain by exact Hc]; cbn [length]; lia.
Qed.

Lemma escape_fix_nospecial : forall s, escape s = s -> existsb is_qspecial s = false.
Proof.
  induction s as [|b s IH]; intros H2; [reflexivity|]. cbn [existsb].
  destruct (is_qspecial b) eqn:Hq.
  - rewrite escape_cons_special in H2 by exact Hq. exfalso.
    apply (f_equal (@length byte)) in H2. cbn [length] in H2. pose proof (escape_length_ge s). lia.
  - rewrite escape_cons_plain in H2 by exact Hq. injection H2 as H2. cbn [orb]. apply IH. exact H2.
Qed.

Lemma qs_loop_nospecial : forall rest bytes i new st nw, existsb is_qspecial rest = false ->
  qs_loop bytes rest i 0%nat new = Some (st, nw) -> st = 0%nat.
Proof.
  induction rest as [|b rest IH]; intros bytes i new st nw Hn Hq.
  - cbn in Hq. now injection Hq as <- _.
  - cbn [existsb] in Hn. apply orb_false_iff in Hn. destruct Hn as [Hb Hn].
    cbn [qs_loop] in Hq. destruct (is_crlf b); [discriminate|]. rewrite Hb in Hq. eapply IH; eauto.
Qed.

(* ---------- quoted_string refines escape ---------- *)
Theorem quoted_string_char : forall s,
  quoted_string s =
    if existsb is_crlf s then QRefused
    else if existsb is_qspecial s then (if utf8_valid s then QOk (escape s) else QPanic)
    else QOk (escape s).
Proof.
  intros s. unfold quoted_string. destruct (existsb is_crlf s) eqn:Hcr.
  - rewrite qs_loop_crlf by exact Hcr. reflexivity.
  - destruct (qs_loop_ok s [] 0%nat [] (le_n _) eq_refl Hcr) as [s' [n' [E [H1 [H2 H3]]]]].
    cbn [app length] in E. rewrite E. cbn [app] in H1, H2.
    assert (Hnew : (if Nat.ltb s' (length s) then n' ++ skipn s' s else n') = escape s).
    { destruct (Nat.ltb_spec s' (length s)); [exact H2|]. rewrite <- H2. rewrite skipn_all2 by lia. now rewrite app_nil_r. }
    rewrite Hnew.
    assert (Hsp : s' = 0%nat <-> existsb is_qspecial s = false).
    { split.
      - intros Hz. destruct (H3 Hz) as [_ Hn]. subst. cbn in H2. apply escape_fix_nospecial. symmetry. exact H2.
      - intros Hns. eapply qs_loop_nospecial; [exact Hns|exact E]. }
    destruct (Nat.eqb_spec s' 0) as [Hz|Hnz].
    + assert (Hf : existsb is_qspecial s = false) by (apply Hsp; exact Hz). rewrite Hf.
      destruct (H3 Hz) as [_ Hn]. subst. cbn in H2. rewrite <- H2. reflexivity.
    + destruct (existsb is_qspecial s) eqn:Hf; [|exfalso; apply Hnz; apply Hsp; reflexivity].
      rewrite utf8_escape_lemma. reflexivity.
Qed.

Theorem quoted_string_refused_lemma : forall s, quoted_string s = QRefused <-> (In 13 s \/ In 10 s).
Proof.
  intros s. rewrite quoted_string_char, <- existsb_crlf_in.
  destruct (existsb is_crlf s); [tauto|]. split; [|discriminate].
  destruct (existsb is_qspecial s); [destruct (utf8_valid s)|]; discriminate.
Qed.

Theorem quoted_string_ok_lemma : forall s, utf8_valid s = true -> ~ In 13 s -> ~ In 10 s ->
  quoted_string s = QOk (escape s).
Proof.
  intros s Hu H13 H10. rewrite quoted_string_char.
  destruct (existsb is_crlf s) eqn:E; [apply existsb_crlf_in in E; tauto|].
  rewrite Hu. destruct (existsb is_qspecial s); reflexivity.
Qed.

Theorem quoted_string_sound_lemma : forall s q, quoted_string s = QOk q -> q = escape s /\ ~ In 13 s /\ ~ In 10 s.
Proof.
  intros s q H. rewrite quoted_string_char in H.
  destruct (existsb is_crlf s) eqn:E; [discriminate|].
  assert (Hn : ~ (In 13 s \/ In 10 s)) by (rewrite <- existsb_crlf_in, E; discriminate).
  split; [|tauto].
  destruct (existsb is_qspecial s); [destruct (utf8_valid s); [|discriminate]|]; now injection H as <-.
Qed.

(* ---------- single line ---------- *)
Lemma escape_in c s : In c (escape s) -> c = 92 \/ In c s.
Proof.
  unfold escape. intros H. apply in_flat_map in H. destruct H as [b [Hb Hc]].
  destruct (is_qspecial b); cbn in Hc; intuition (subst; auto).
Qed.

Theorem single_line_lemma : forall s q, quoted_string s = QOk q -> ~ In 13 q /\ ~ In 10 q.
Proof.
  intros s q H. apply quoted_string_sound_lemma in H. destruct H as [-> [H13 H10]].
  split; intros Hin; apply escape_in in Hin; destruct Hin as [Hc|Hc]; try discriminate; tauto.
Qed.

(* ---------- the independent lexer undoes it ---------- *)
Lemma lex_q_body_escape : forall s rest, existsb is_crlf s = false ->
  lex_q_body (escape s ++ 34 :: rest) = Some (s, rest).
Proof.
  induction s as [|b s IH]; intros rest Hcr.
  - cbn. reflexivity.
  - cbn [existsb] in Hcr. apply orb_false_iff in Hcr. destruct Hcr as [Hb Hcr].
    destruct (is_qspecial b) eqn:Hq.
    + rewrite escape_cons_special by exact Hq. cbn [app lex_q_body].
      replace (92 =? 34) with false by reflexivity. replace (is_crlf 92) with false by reflexivity.
      replace (92 =? 92) with true by reflexivity. rewrite Hq, IH by exact Hcr. reflexivity.
    + rewrite escape_cons_plain by exact Hq. cbn [app lex_q_body]. rewrite Hb.
      unfold is_qspecial in Hq. apply orb_false_iff in Hq. destruct Hq as [H92 H34].
      rewrite H34, H92, IH by exact Hcr. reflexivity.
Qed.

Theorem lex_quoted_inverse_lemma : forall s q rest, quoted_string s = QOk q ->
  lex_quoted (dq q ++ rest) = Some (s, rest).
Proof.
  intros s q rest H. apply quoted_string_sound_lemma in H. destruct H as [-> [H13 H10]].
  unfold dq, lex_quoted. cbn [app]. replace (34 =? 34) with true by reflexivity.
  rewrite <- app_assoc. cbn [app]. apply lex_q_body_escape.
  destruct (existsb is_crlf s) eqn:E; [apply existsb_crlf_in in E; tauto|reflexivity].
Qed.

(* ---------- whole commands ---------- *)
Lemma lex_verb_upper : forall v rest, forallb is_upper v = true ->
  match rest with c :: _ => is_upper c = false | [] => True end ->
  lex_verb (v ++ rest) = (v, rest).
Proof.
  induction v as [|c v IH]; intros rest Hv Hr.
  - cbn [app]. destruct rest as [|c r]; [reflexivity|]. cbn [lex_verb]. rewrite Hr. reflexivity.
  - cbn [forallb] in Hv. apply andb_true_iff in Hv. destruct Hv as [Hc Hv].
    cbn [app lex_verb]. rewrite Hc, (IH rest Hv Hr). reflexivity.
Qed.

Lemma with_q_ok s k r : with_q s k = BOk r -> exists q, quoted_string s = QOk q /\ k q = BOk r.
Proof. unfold with_q. destruct (quoted_string s) as [q| |]; try discriminate. intros H. exists q. auto. Qed.

Lemma BOk_inj x y : BOk x = BOk y -> x = y.
Proof. congruence. Qed.

Lemma lex_args_cons n q rest s : lex_quoted (dq q ++ rest) = Some (s, rest) ->
  lex_args (S n) (32 :: dq q ++ rest) = match lex_args n rest with Some args => Some (s :: args) | None => None end.
Proof. intros H. cbn [lex_args]. replace (32 =? 32) with true by reflexivity. rewrite H. reflexivity. Qed.

Theorem build2_lexes_lemma : forall verb a b cmd, forallb is_upper verb = true ->
  build2 verb a b = BOk cmd -> lex_command 2 cmd = Some (verb, [a; b]).
Proof.
  intros verb a b cmd Hv H. unfold build2 in H.
  apply with_q_ok in H. destruct H as [qa [Ha H]]. apply with_q_ok in H. destruct H as [qb [Hb H]].
  apply BOk_inj in H. subst cmd. unfold lex_command. rewrite lex_verb_upper; [|exact Hv|reflexivity]. cbv beta iota.
  rewrite (lex_args_cons 1 qa _ a (lex_quoted_inverse_lemma a qa _ Ha)).
  rewrite <- (app_nil_r (dq qb)).
  rewrite (lex_args_cons 0 qb [] b (lex_quoted_inverse_lemma b qb [] Hb)). reflexivity.
Qed.

Theorem build1_lexes_lemma : forall verb a cmd, forallb is_upper verb = true ->
  build1 verb a = BOk cmd -> lex_command 1 cmd = Some (verb, [a]).
Proof.
  intros verb a cmd Hv H. unfold build1 in H.
  apply with_q_ok in H. destruct H as [qa [Ha H]]. apply BOk_inj in H. subst cmd.
  unfold lex_command. rewrite lex_verb_upper; [|exact Hv|reflexivity]. cbv beta iota.
  rewrite <- (app_nil_r (dq qa)).
  rewrite (lex_args_cons 0 qa [] a (lex_quoted_inverse_lemma a qa [] Ha)). reflexivity.
Qed.

Theorem build2_refused_lemma : forall verb a b,
  build2 verb a b = BRefused <->
  (quoted_string a = QRefused \/ ((exists qa, quoted_string a = QOk qa) /\ quoted_string b = QRefused)).
Proof.
  intros verb a b. unfold build2, with_q.
  destruct (quoted_string a) as [qa| |] eqn:Ea.
  - destruct (quoted_string b) as [qb| |] eqn:Eb; split; intros H; try discriminate.
    + destruct H as [H|[_ H]]; discriminate.
    + right. split; [exists qa; reflexivity|reflexivity].
    + reflexivity.
    + destruct H as [H|[_ H]]; discriminate.
  - split; intros _; [left|]; reflexivity.
  - split; intros H; [discriminate|]. destruct H as [H|[[qa H] _]]; discriminate.
Qed.

(* a builder output is never produced from text containing CR or LF *)
Theorem build2_ok_args_clean_lemma : forall verb a b cmd, build2 verb a b = BOk cmd ->
  ~ In 13 a /\ ~ In 10 a /\ ~ In 13 b /\ ~ In 10 b.
Proof.
  intros verb a b cmd H. unfold build2 in H.
  apply with_q_ok in H. destruct H as [qa [Ha H]]. apply with_q_ok in H. destruct H as [qb [Hb _]].
  apply quoted_string_sound_lemma in Ha, Hb. tauto.
Qed.

Lemma notin_app {A} (x : A) l1 l2 : ~ In x l1 -> ~ In x l2 -> ~ In x (l1 ++ l2).
Proof. intros H1 H2 H. apply in_app_or in H. tauto. Qed.
Lemma notin_cons {A} (x y : A) l : y <> x -> ~ In x l -> ~ In x (y :: l).
Proof. intros H1 H2 [H|H]; tauto. Qed.
Lemma notin_nil {A} (x : A) : ~ In x [].
Proof. intros []. Qed.
Ltac solve_notin := repeat first [ assumption | apply notin_nil | apply notin_app | apply notin_cons; [discriminate|] ].

Theorem build2_single_line_lemma : forall verb a b cmd, ~ In 13 verb -> ~ In 10 verb ->
  build2 verb a b = BOk cmd -> ~ In 13 cmd /\ ~ In 10 cmd.
Proof.
  intros verb a b cmd Hv13 Hv10 H. unfold build2 in H.
  apply with_q_ok in H. destruct H as [qa [Ha H]]. apply with_q_ok in H. destruct H as [qb [Hb H]].
  apply BOk_inj in H. subst cmd.
  destruct (single_line_lemma _ _ Ha) as [A13 A10]. destruct (single_line_lemma _ _ Hb) as [B13 B10].
  unfold dq. split; solve_notin.
Qed.

Theorem build1_single_line_lemma : forall verb a cmd, ~ In 13 verb -> ~ In 10 verb ->
  build1 verb a = BOk cmd -> ~ In 13 cmd /\ ~ In 10 cmd.
Proof.
  intros verb a cmd Hv13 Hv10 H. unfold build1 in H.
  apply with_q_ok in H. destruct H as [qa [Ha H]]. apply BOk_inj in H. subst cmd.
  destruct (single_line_lemma _ _ Ha) as [A13 A10].
  unfold dq. split; solve_notin.
Qed.

(* the encoded request is one line: the only CR and LF are the final CRLF *)
Theorem encode_one_line_lemma : forall tag args, ~ In 13 tag -> ~ In 10 tag -> ~ In 13 args -> ~ In 10 args ->
  exists body, encode_request tag args = body ++ [13; 10] /\ ~ In 13 body /\ ~ In 10 body.
Proof.
  intros tag args T13 T10 A13 A10. exists (tag ++ 32 :: args). split.
  - unfold encode_request. rewrite <- app_assoc. reflexivity.
  - split; solve_notin.
Qed.

Example login_example :
  login (bs "a""b") (bs "p\w") = BOk (bs "LOGIN ""a\""b"" ""p\\w""")
  /\ login (bs "x") [97; 13; 10; 65] = BRefused.
Proof. split; vm_compute; reflexivity. Qed.

Theorem build2_injective_lemma : forall verb a b a' b' cmd, forallb is_upper verb = true ->
  build2 verb a b = BOk cmd -> build2 verb a' b' = BOk cmd -> a = a' /\ b = b'.
Proof.
  intros verb a b a' b' cmd Hv H1 H2.
  apply (build2_lexes_lemma _ _ _ _ Hv) in H1. apply (build2_lexes_lemma _ _ _ _ Hv) in H2.
  rewrite H1 in H2. injection H2 as -> ->. auto.
Qed.

Theorem build1_injective_lemma : forall verb a a' cmd, forallb is_upper verb = true ->
  build1 verb a = BOk cmd -> build1 verb a' = BOk cmd -> a = a'.
Proof.
  intros verb a a' cmd Hv H1 H2.
  apply (build1_lexes_lemma _ _ _ Hv) in H1. apply (build1_lexes_lemma _ _ _ Hv) in H2.
  rewrite H1 in H2. now injection H2 as ->.
Qed.

Theorem no_panic_lemma : forall s, utf8_valid s = true -> quoted_string s <> QPanic.
Proof.
  intros s Hu. rewrite quoted_string_char, Hu.
  destruct (existsb is_crlf s); [discriminate|]. destruct (existsb is_qspecial s); discriminate.
Qed.

Theorem build2_total_lemma : forall verb a b, utf8_valid a = true -> utf8_valid b = true ->
  (exists cmd, build2 verb a b = BOk cmd) \/ build2 verb a b = BRefused.
Proof.
  intros verb a b Ha Hb. unfold build2, with_q.
  pose proof (no_panic_lemma a Ha) as Pa. pose proof (no_panic_lemma b Hb) as Pb.
  destruct (quoted_string a); [|right; reflexivity|contradiction].
  destruct (quoted_string b); [left; eexists; reflexivity|right; reflexivity|contradiction].
Qed.
