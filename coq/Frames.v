(* M10: storage model for delivered frames (C07): the receive buffer (bytes::BytesMut) and the frames split off
   it (bytes::Bytes) as windows over shared allocations.  Definitions only.
   What is modelled of the `bytes` crate: split_to shares the allocation; the BytesMut only ever writes at or after
   the end of its own window; it may move its window to the front of its allocation only when no frame shares
   that allocation, otherwise growing means a fresh allocation.  Which of these happens when is left to the
   events (any capacity policy), so the theorems hold for every policy. *)
From TI Require Import Bytes Grammar Interp Natives.
Local Open Scope nat_scope.

Record view := mk_view { v_alloc : nat; v_off : nat; v_len : nat }.

Record fstore := mk_fstore {
  heap : list (list byte);                 (* allocations; the length of each is its capacity *)
  rb : option view;                        (* the receive buffer's window (None: the connection was dropped) *)
  live : list (nat * view);                (* frames held by the application: (frame number, window) *)
  next_id : nat
}.

Definition read (h : list (list byte)) (v : view) : list byte :=
  firstn (v_len v) (skipn (v_off v) (nth (v_alloc v) h [])).

Definition write_at (data : list byte) (pos : nat) (chunk : list byte) : list byte :=
  firstn pos data ++ chunk ++ skipn (pos + List.length chunk) data.

Fixpoint set_nth {A} (l : list A) (k : nat) (x : A) : list A :=
  match l, k with
  | [], _ => []
  | _ :: l', O => x :: l'
  | y :: l', S k' => y :: set_nth l' k' x
  end.

Definition shares (a : nat) (fs : list (nat * view)) : bool :=
  existsb (fun f => Nat.eqb (v_alloc (snd f)) a) fs.

Inductive event :=
| EWrite (chunk : list byte) (slack : nat)   (* bytes arrive: appended in place when the capacity allows, else the window
                                                moves to a fresh allocation with `slack` spare bytes *)
| EFront                                      (* reserve() reclaiming the front of the allocation (only when unshared) *)
| ENew (slack : nat)                          (* reserve() moving to a fresh allocation *)
| EDecode                                     (* ImapCodec::decode: parse the window, split_to(rsp_len).freeze() *)
| EDrop (id : nat)                            (* the application drops a frame *)
| EDropConn.                                  (* the client / connection is dropped *)

Definition fresh (s : fstore) (w : view) (extra : list byte) (slack : nat) : fstore :=
  let data := read (heap s) w ++ extra ++ repeat 0%N slack in
  mk_fstore (heap s ++ [data]) (Some (mk_view (List.length (heap s)) 0 (v_len w + List.length extra))) (live s) (next_id s).

Definition fstep (s : fstore) (e : event) : fstore :=
  match e with
  | EDrop id => mk_fstore (heap s) (rb s) (filter (fun f => negb (Nat.eqb (fst f) id)) (live s)) (next_id s)
  | EDropConn => mk_fstore (heap s) None (live s) (next_id s)
  | _ =>
    match rb s with
    | None => s
    | Some w =>
      let data := nth (v_alloc w) (heap s) [] in
      match e with
      | EWrite chunk slack =>
        if Nat.leb (v_off w + v_len w + List.length chunk) (List.length data) then
          mk_fstore (set_nth (heap s) (v_alloc w) (write_at data (v_off w + v_len w) chunk))
                    (Some (mk_view (v_alloc w) (v_off w) (v_len w + List.length chunk))) (live s) (next_id s)
        else fresh s w chunk slack
      | EFront =>
        if shares (v_alloc w) (live s) then s
        else mk_fstore (set_nth (heap s) (v_alloc w) (write_at data 0 (read (heap s) w)))
                       (Some (mk_view (v_alloc w) 0 (v_len w))) (live s) (next_id s)
      | ENew slack => fresh s w [] slack
      | EDecode =>
        match parse (read (heap s) w) with
        | ROk _ _ used =>
          let n := N.to_nat used in
          if Nat.leb n (v_len w) then
            mk_fstore (heap s) (Some (mk_view (v_alloc w) (v_off w + n) (v_len w - n)))
                      (live s ++ [(next_id s, mk_view (v_alloc w) (v_off w) n)]) (S (next_id s))
          else s
        | _ => s
        end
      | _ => s
      end
    end
  end.

Definition fsteps (s : fstore) (es : list event) : fstore := fold_left fstep es s.

Definition finit (cap : nat) : fstore := mk_fstore [repeat 0%N cap] (Some (mk_view 0 0 0)) [] 0.

(* what the application sees through frame `id` *)
Definition frame_bytes (s : fstore) (id : nat) : option (list byte) :=
  match find (fun f => Nat.eqb (fst f) id) (live s) with
  | Some f => Some (read (heap s) (snd f))
  | None => None
  end.

(* every live window lies inside its allocation, and strictly before the receive buffer's window when they share one *)
Definition view_ok (h : list (list byte)) (v : view) : Prop :=
  v_alloc v < List.length h /\ v_off v + v_len v <= List.length (nth (v_alloc v) h []).
Definition store_ok (s : fstore) : Prop :=
  (forall f, In f (live s) -> view_ok (heap s) (snd f) /\ fst f < next_id s /\
             match rb s with Some w => v_alloc (snd f) = v_alloc w -> v_off (snd f) + v_len (snd f) <= v_off w | None => True end) /\
  match rb s with Some w => view_ok (heap s) w | None => True end.

(* ---------------------------------------------------------------- reference facts about codec.rs (compared with gen/CodecTables.v) *)
Local Open Scope string_scope.
(* decode is read in let-normal form (a local used once is replaced by its definition) and the remaining locals are
   renamed by rs2coq in order of first binding (_v1 = the parsed response, _v2 = the consumed length), so that renaming
   a local of decode or naming a sub-expression is not a change *)
Definition ref_decode_ops : list string :=
  ["imap_proto::Response::from_bytes(buf)";
   "unsafe { mem::transmute::<Response<'_>, Response<'static>>(_v1) }";
   "buf.len()";
   "Ok(Some(ResponseData { raw : buf.split_to(_v2).freeze(), response : _v1 }))"].
Definition ref_frame_fields : list (string * string * string) :=
  [("raw", "private", "Bytes"); ("response", "private", "Response<'static>")].

(* API discipline: no public field; derives only Debug; inherent impls only; every method borrows the frame (&self)
   and every lifetime in its result is the lifetime of that borrow (elided, or the one named on &self); no 'static *)
Definition str_in (x : string) (l : list string) : bool := existsb (String.eqb x) l.
Definition contains (needle hay : string) : bool :=
  (fix go (h : string) (fuel : nat) : bool :=
     match fuel with
     | O => false
     | S f => if String.prefix needle h then true else match h with EmptyString => false | String _ r => go r f end
     end) hay (S (String.length hay)).
Definition method_ok (m : string * string * string * string * list string) : bool :=
  let '(name, vis, recv, out, lts) := m in
  let self_lt := if String.eqb recv "&self" then Some "'_" else
                 if String.prefix "&'" recv && negb (contains "mut" recv)
                 then Some (String.substring 1 (String.length recv - 6) recv) else None in
  match self_lt with
  | Some l => negb (contains "'static" out) && forallb (fun x => String.eqb x l || (String.eqb l "'_" && String.eqb x "'_")) lts
  | None => false
  end.
Definition api_ok (fields : list (string * string * string)) (derives : list string)
                  (impls : list (string * string * list (string * string * string * string * list string))) : bool :=
  forallb (fun f => String.eqb (snd (fst f)) "private") fields &&
  forallb (fun d => str_in d ["Debug"]) derives &&
  forallb (fun i => let '(tr, _, ms) := i in String.eqb tr "" && forallb method_ok ms) impls.
