(* M8 proofs: a table of into_owned bodies accepted by the computable check `table_ok` denotes the identity
   on (well-formed) values.  Generic in the table: the instance generated from types.rs is checked by
   reflection in Proofs_C15.v. *)
From TI Require Import Bytes Grammar Interp Owned.
Require Import Lia Bool Arith PeanoNat.

(* ---------------------------------------------------------------- induction on own (nested in list) *)
Section OwnInd.
Variable P : own -> Prop.
Hypothesis HField : forall x, P (OField x).
Hypothesis HCow : forall e, P e -> P (OCow e).
Hypothesis HBox : forall e, P e -> P (OBox e).
Hypothesis HInto : forall t e, P e -> P (OInto t e).
Hypothesis HOpt : forall p b e, P b -> P e -> P (OOptMap p b e).
Hypothesis HIter : forall p b e, P b -> P e -> P (OIterMap p b e).
Hypothesis HCollect : forall e, P e -> P (OCollect e).
Hypothesis HTuple : forall es, Forall P es -> P (OTuple es).
Hypothesis HCall : forall f e, P e -> P (OCall f e).
Hypothesis HUnknown : forall w, P (OUnknown w).

Fixpoint own_ind' (e : own) : P e :=
  match e with
  | OField x => HField x
  | OCow e1 => HCow e1 (own_ind' e1)
  | OBox e1 => HBox e1 (own_ind' e1)
  | OInto t e1 => HInto t e1 (own_ind' e1)
  | OOptMap p b e1 => HOpt p b e1 (own_ind' b) (own_ind' e1)
  | OIterMap p b e1 => HIter p b e1 (own_ind' b) (own_ind' e1)
  | OCollect e1 => HCollect e1 (own_ind' e1)
  | OTuple es => HTuple es ((fix go (l : list own) : Forall P l :=
                               match l with [] => Forall_nil P | x :: l' => Forall_cons x (own_ind' x) (go l') end) es)
  | OCall f e1 => HCall f e1 (own_ind' e1)
  | OUnknown w => HUnknown w
  end.
End OwnInd.

(* ---------------------------------------------------------------- well-formed values *)
Lemma wf_list l : wf_val (VList l) = forallb wf_val l.
Proof. induction l as [|x l IH]; [reflexivity|]. cbn [forallb]. rewrite <- IH. reflexivity. Qed.
Lemma wf_tuple l : wf_val (VTuple l) = forallb wf_val l.
Proof. induction l as [|x l IH]; [reflexivity|]. cbn [forallb]. rewrite <- IH. reflexivity. Qed.
Lemma wf_con n l : wf_val (VCon n l) = forallb wf_val l.
Proof. induction l as [|x l IH]; [reflexivity|]. cbn [forallb]. rewrite <- IH. reflexivity. Qed.
Lemma wf_rec n fs : wf_val (VRec n fs) = str_nodup (map fst fs) && forallb (fun kv => wf_val (snd kv)) fs.
Proof.
  assert (H : forall fs, (fix all (l : list (string * val)) : bool :=
             match l with [] => true | kv :: l' => wf_val (snd kv) && all l' end) fs
             = forallb (fun kv => wf_val (snd kv)) fs).
  { intro l; induction l as [|x l IH]; [reflexivity|]. cbn [forallb]. rewrite <- IH. reflexivity. }
  rewrite <- H. reflexivity.
Qed.

Definition env_wf (env : venv) : bool := forallb (fun kv => wf_val (snd kv)) env.

Lemma lookup_wf env x : env_wf env = true -> wf_val (lookup x env) = true.
Proof.
  induction env as [|[k v] env IH]; intro H; [reflexivity|].
  cbn [env_wf forallb snd] in H. apply andb_true_iff in H. destruct H as [Hv He].
  cbn [lookup]. destruct (String.eqb x k); [exact Hv | exact (IH He)].
Qed.

(* ---------------------------------------------------------------- nodup / lookup facts *)
Lemma str_nodup_cons x l : str_nodup (x :: l) = true -> (forall y, In y l -> String.eqb y x = false) /\ str_nodup l = true.
Proof.
  cbn [str_nodup]. intro H. apply andb_true_iff in H. destruct H as [Hx Hl]. split; [|exact Hl].
  intros y Hy. destruct (String.eqb y x) eqn:E; [|reflexivity].
  apply String.eqb_eq in E. subst y.
  apply negb_true_iff in Hx.
  assert (existsb (String.eqb x) l = true) as Hc.
  { apply existsb_exists. exists x. split; [exact Hy | apply String.eqb_refl]. }
  rewrite Hc in Hx. discriminate.
Qed.

Lemma lookup_in_nodup (fs : venv) k v :
  str_nodup (map fst fs) = true -> In (k, v) fs -> lookup k fs = v.
Proof.
  induction fs as [|[k0 v0] fs IH]; intros Hn Hin; [destruct Hin|].
  cbn [map fst] in Hn. apply str_nodup_cons in Hn. destruct Hn as [Hne Hn].
  cbn [lookup]. destruct Hin as [E | Hin].
  - injection E as -> ->. rewrite String.eqb_refl. reflexivity.
  - rewrite (Hne k). + exact (IH Hn Hin). + apply in_map_iff. exists (k, v). split; [reflexivity | exact Hin].
Qed.

Lemma map_fst_combine {A B} (xs : list A) (vs : list B) : List.length xs = List.length vs -> map fst (combine xs vs) = xs.
Proof.
  revert vs; induction xs as [|x xs IH]; intros [|v vs] H; try reflexivity; try discriminate.
  cbn [combine map fst]. f_equal. apply IH. cbn [List.length] in H. lia.
Qed.
Lemma map_snd_combine {A B} (xs : list A) (vs : list B) : List.length xs = List.length vs -> map snd (combine xs vs) = vs.
Proof.
  revert vs; induction xs as [|x xs IH]; intros [|v vs] H; try reflexivity; try discriminate.
  cbn [combine map snd]. f_equal. apply IH. cbn [List.length] in H. lia.
Qed.

Lemma lookup_all_fields (fs : venv) :
  str_nodup (map fst fs) = true -> map (fun kv => (fst kv, lookup (fst kv) fs)) fs = fs.
Proof.
  intro Hn. transitivity (map (fun kv : string * val => kv) fs); [|apply map_id].
  apply map_ext_in. intros [k v] Hin. cbn [fst].
  rewrite (lookup_in_nodup fs k v Hn Hin). reflexivity.
Qed.

Lemma lookup_all_combine xs (vs : list val) :
  str_nodup xs = true -> List.length xs = List.length vs -> map (fun x => lookup x (combine xs vs)) xs = vs.
Proof.
  intros Hn Hl.
  assert (Hk : map fst (combine xs vs) = xs) by (apply map_fst_combine; exact Hl).
  transitivity (map (fun x => lookup x (combine xs vs)) (map fst (combine xs vs))); [rewrite Hk; reflexivity|].
  rewrite map_map.
  transitivity (map snd (combine xs vs)); [|apply map_snd_combine; exact Hl].
  apply map_ext_in. intros [k v] Hin. cbn [fst snd].
  apply lookup_in_nodup; [rewrite Hk; exact Hn | exact Hin].
Qed.

(* ---------------------------------------------------------------- tuple patterns *)
Fixpoint bind_list (ps : list pat) (vs : list val) (e : venv) : venv :=
  match ps, vs with
  | p :: ps', v :: vs' => bind_list ps' vs' (bind p v e)
  | _, _ => e
  end.
Lemma bind_tuple ps vs e : bind (PTuple ps) (VTuple vs) e = bind_list ps vs e.
Proof.
  cbn [bind]. revert vs e; induction ps as [|p ps IH]; intros [|v vs] e; try reflexivity.
  all: cbn [bind_list]; rewrite <- IH; reflexivity.
Qed.


Definition all_pvar (ps : list pat) : bool := forallb (fun p => match p with PVar _ => true | _ => false end) ps.

Lemma bind_list_wf ps vs e :
  all_pvar ps = true -> forallb wf_val vs = true -> env_wf e = true -> env_wf (bind_list ps vs e) = true.
Proof.
  revert vs e; induction ps as [|p ps IH]; intros [|v vs] e Hp Hv He; try exact He.
  cbn [all_pvar forallb] in Hp. apply andb_true_iff in Hp. destruct Hp as [Hp Hps].
  cbn [forallb] in Hv. apply andb_true_iff in Hv. destruct Hv as [Hv Hvs].
  cbn [bind_list]. apply IH; [exact Hps | exact Hvs |].
  destruct p; try discriminate. cbn [bind env_wf forallb snd]. rewrite Hv. exact He.
Qed.

Lemma bind_list_notin ps vs e y :
  all_pvar ps = true -> (forall z, In z (pat_vars ps) -> String.eqb y z = false) ->
  lookup y (bind_list ps vs e) = lookup y e.
Proof.
  revert vs e; induction ps as [|p ps IH]; intros [|v vs] e Hp Hn; try reflexivity.
  cbn [all_pvar forallb] in Hp. apply andb_true_iff in Hp. destruct Hp as [Hp Hps].
  destruct p as [| x |]; try discriminate.
  cbn [bind_list bind]. rewrite IH; [| exact Hps | intros z Hz; apply Hn; cbn [pat_vars flat_map]; right; exact Hz].
  cbn [lookup]. rewrite (Hn x); [reflexivity | cbn [pat_vars flat_map]; left; reflexivity].
Qed.

(* ---------------------------------------------------------------- the closure check, named *)
Fixpoint tuple_go (hok : string -> bool) (es : list own) (ps : list pat) : bool :=
  match es, ps with
  | [], [] => true
  | e :: es', PVar y :: ps' => idlike hok y e && tuple_go hok es' ps'
  | _, _ => false
  end.
Definition clos (hok : string -> bool) (p : pat) (b : own) : bool :=
  match p with
  | PVar y => idlike hok y b
  | PTuple ps => str_nodup (pat_vars ps) && match b with OTuple es => tuple_go hok es ps | _ => false end
  | PWild => false
  end.

Lemma tuple_go_fix hok es ps :
  (fix go (es : list own) (ps : list pat) {struct es} : bool :=
     match es, ps with
     | [], [] => true
     | e :: es', PVar y :: ps' => idlike hok y e && go es' ps'
     | _, _ => false
     end) es ps = tuple_go hok es ps.
Proof.
  revert ps; induction es as [|e es IH]; intros [|[| y | ps0] ps]; try reflexivity.
  cbn [tuple_go]. rewrite <- IH. reflexivity.
Qed.

Lemma idlike_opt hok x p b e1 : idlike hok x (OOptMap p b e1) = idlike hok x e1 && clos hok p b.
Proof.
  cbn [idlike]. f_equal. destruct p as [| y | ps]; try reflexivity.
  cbn [clos]. f_equal. destruct b; try reflexivity. apply tuple_go_fix.
Qed.
Lemma idlike_iter hok x p b e1 : idlike hok x (OCollect (OIterMap p b e1)) = idlike hok x e1 && clos hok p b.
Proof.
  cbn [idlike]. f_equal. destruct p as [| y | ps]; try reflexivity.
  cbn [clos]. f_equal. destruct b; try reflexivity. apply tuple_go_fix.
Qed.

Lemma tuple_go_shape hok es ps : tuple_go hok es ps = true -> all_pvar ps = true /\ List.length es = List.length ps.
Proof.
  revert ps; induction es as [|e es IH]; intros [|[| y | ps0] ps] H; try discriminate.
  - split; reflexivity.
  - cbn [tuple_go] in H. apply andb_true_iff in H. destruct H as [_ H]. destruct (IH _ H) as [A B].
    split; [exact A | cbn [List.length]; f_equal; exact B].
Qed.

Section Sound.
Variable rec : val -> val.
Variable callf : string -> val -> val.
Variable hok : string -> bool.
Hypothesis Hrec : forall v, wf_val v = true -> rec v = v.
Hypothesis Hcall : forall fn v, hok fn = true -> wf_val v = true -> callf fn v = v.

Lemma oeval_tuple es env : oeval rec callf (OTuple es) env = VTuple (map (fun e => oeval rec callf e env) es).
Proof.
  cbn [oeval]; f_equal; try (induction es as [|e es IH]; [reflexivity|]; cbn [map]; rewrite <- IH; reflexivity).
Qed.

Definition esound (e : own) : Prop :=
  forall x env, env_wf env = true -> idlike hok x e = true -> oeval rec callf e env = lookup x env.

Lemma tuple_sound es : Forall esound es ->
  forall ps vs env E, tuple_go hok es ps = true -> str_nodup (pat_vars ps) = true ->
    List.length ps = List.length vs -> env_wf E = true ->
    (forall y, In y (pat_vars ps) -> lookup y E = lookup y (bind_list ps vs env)) ->
    map (fun e => oeval rec callf e E) es = vs.
Proof.
  induction 1 as [|e es He Hes IH]; intros ps vs env E Hgo Hnd Hlen HE Hlk.
  - destruct ps; [|discriminate]. destruct vs; [reflexivity|discriminate].
  - destruct ps as [|[| y | ps0] ps]; try discriminate. destruct vs as [|v vs]; [discriminate|].
    cbn [tuple_go] in Hgo. apply andb_true_iff in Hgo. destruct Hgo as [Hid Hgo].
    cbn [pat_vars flat_map app] in Hnd. apply str_nodup_cons in Hnd. destruct Hnd as [Hne Hnd].
    destruct (tuple_go_shape _ _ _ Hgo) as [Hpv _].
    cbn [map]. f_equal.
    + rewrite (He y E HE Hid). rewrite Hlk; [|cbn [pat_vars flat_map app]; left; reflexivity].
      cbn [bind_list bind]. rewrite bind_list_notin; [| exact Hpv |].
      * cbn [lookup]. rewrite String.eqb_refl. reflexivity.
      * intros z Hz. specialize (Hne z Hz). rewrite String.eqb_sym. exact Hne.
    + apply (IH ps vs ((y, v) :: env) E Hgo Hnd); [cbn [List.length] in Hlen; lia | exact HE |].
      intros y' Hy'. rewrite Hlk; [reflexivity | cbn [pat_vars flat_map app]; right; exact Hy'].
Qed.

Lemma clos_sound p b : esound b -> (forall es, b = OTuple es -> Forall esound es) ->
  clos hok p b = true -> forall v env, wf_val v = true -> env_wf env = true ->
  (if pat_fits p v then oeval rec callf b (bind p v env) else v) = v.
Proof.
  intros Hb Hes Hc v env Hv He. destruct (pat_fits p v) eqn:Hf; [|reflexivity].
  destruct p as [| y | ps]; [discriminate | |].
  - cbn [clos] in Hc. rewrite (Hb y); [| cbn [bind env_wf forallb snd]; rewrite Hv; exact He | exact Hc].
    cbn [bind lookup]. rewrite String.eqb_refl. reflexivity.
  - cbn [clos] in Hc. apply andb_true_iff in Hc. destruct Hc as [Hnd Hgo].
    destruct b as [| | | | | | | es | |]; try discriminate.
    cbn [pat_fits] in Hf. destruct v as [| | | | | | | vs | |]; try discriminate.
    apply Nat.eqb_eq in Hf. rewrite bind_tuple, oeval_tuple. f_equal.
    destruct (tuple_go_shape _ _ _ Hgo) as [Hpv _]. rewrite wf_tuple in Hv.
    apply (tuple_sound es (Hes es eq_refl) ps vs env); try assumption.
    + apply bind_list_wf; assumption.
    + reflexivity.
Qed.

Definition parts (e : own) : Prop :=
  match e with
  | OTuple es => Forall esound es
  | OIterMap p b e1 => esound b /\ esound e1 /\ (forall es, b = OTuple es -> Forall esound es)
  | _ => True
  end.

Lemma parts_tuple b : parts b -> forall es, b = OTuple es -> Forall esound es.
Proof. intros H es ->. exact H. Qed.

Lemma idlike_sound_parts : forall e, esound e /\ parts e.
Proof.
  induction e as [y | e IH | e IH | t e IH | p b e IHb IHe | p b e IHb IHe | e IH | es IH | f e IH | w] using own_ind';
    (split; [intros x env He Hid | try exact I]).
  - cbn [idlike] in Hid. apply String.eqb_eq in Hid. subst y. reflexivity.
  - cbn [idlike] in Hid. cbn [oeval]. exact (proj1 IH x env He Hid).
  - cbn [idlike] in Hid. cbn [oeval]. exact (proj1 IH x env He Hid).
  - cbn [idlike] in Hid. cbn [oeval]. rewrite (proj1 IH x env He Hid). apply Hrec. apply lookup_wf. exact He.
  - rewrite idlike_opt in Hid. apply andb_true_iff in Hid. destruct Hid as [Hid Hc].
    cbn [oeval]. rewrite (proj1 IHe x env He Hid).
    pose proof (lookup_wf env x He) as Hw.
    destruct (lookup x env) as [| | | | | v | | | |]; try reflexivity.
    f_equal. apply clos_sound; try assumption; [exact (proj1 IHb) | exact (parts_tuple b (proj2 IHb))].
  - cbn [idlike] in Hid. discriminate.
  - cbn [parts]. split; [exact (proj1 IHb) | split; [exact (proj1 IHe) | exact (parts_tuple b (proj2 IHb))]].
  - destruct e as [| | | | | p b e1 | | | |]; try (cbn [idlike] in Hid; discriminate).
    rewrite idlike_iter in Hid. apply andb_true_iff in Hid. destruct Hid as [Hid Hc].
    destruct IH as [_ [Hb [He1 Hes]]].
    cbn [oeval]. rewrite (He1 x env He Hid).
    pose proof (lookup_wf env x He) as Hw.
    destruct (lookup x env) as [| | | | | | l | | |]; try reflexivity.
    f_equal. transitivity (map (fun v : val => v) l); [|apply map_id]. apply map_ext_in. intros v Hv.
    apply clos_sound; try assumption.
    rewrite wf_list in Hw. rewrite forallb_forall in Hw. exact (Hw v Hv).
  - cbn [idlike] in Hid. discriminate.
  - cbn [parts]. apply Forall_impl with (2 := IH). intros a Ha. exact (proj1 Ha).
  - cbn [idlike] in Hid. apply andb_true_iff in Hid. destruct Hid as [Hf Hid].
    cbn [oeval]. rewrite (proj1 IH x env He Hid). apply Hcall; [exact Hf | apply lookup_wf; exact He].
  - cbn [idlike] in Hid. discriminate.
Qed.

Lemma idlike_sound e x env : env_wf env = true -> idlike hok x e = true -> oeval rec callf e env = lookup x env.
Proof. exact (proj1 (idlike_sound_parts e) x env). Qed.

Lemma fn_ok_sound p b v : fn_ok hok (p, b) = true -> wf_val v = true ->
  (if pat_fits p v then oeval rec callf b (bind p v []) else v) = v.
Proof.
  unfold fn_ok. cbn [fst snd]. rewrite idlike_opt. intro H. apply andb_true_iff in H. destruct H as [_ Hc]. intro Hv.
  apply clos_sound; try assumption; try reflexivity.
  - exact (proj1 (idlike_sound_parts b)).
  - exact (parts_tuple b (proj2 (idlike_sound_parts b))).
Qed.
End Sound.

(* ---------------------------------------------------------------- rows and the table *)
Lemma find_row_in con tbl r : find_row con tbl = Some r -> In r tbl /\ r_con r = con.
Proof.
  induction tbl as [|r0 tbl IH]; [discriminate|]. cbn [find_row].
  destruct (String.eqb con (r_con r0)) eqn:E.
  - intro H. injection H as <-. apply String.eqb_eq in E. split; [left; reflexivity | symmetry; exact E].
  - intro H. destruct (IH H) as [A B]. split; [right; exact A | exact B].
Qed.

Lemma assoc_own_in k l e : assoc_own k l = Some e -> In (k, e) l.
Proof.
  induction l as [|[k0 e0] l IH]; [discriminate|]. cbn [assoc_own].
  destruct (String.eqb k k0) eqn:E.
  - intro H. injection H as <-. apply String.eqb_eq in E. subst k0. left; reflexivity.
  - intro H. right. exact (IH H).
Qed.

Lemma own_call_sound rec helpers :
  (forall v, wf_val v = true -> rec v = v) ->
  forall fn v, helper_ok helpers fn = true -> wf_val v = true -> own_call rec helpers fn v = v.
Proof.
  intros Hrec fn v Hok Hv. unfold helper_ok in Hok. unfold own_call.
  destruct (assoc_helper fn helpers) as [[p b]|]; [|discriminate].
  apply (fn_ok_sound rec (fun _ _ => VUnit) (fun _ => false)); try assumption.
  intros ? ? H; discriminate H.
Qed.

Lemma outputs_positional (ev : own -> venv -> val) env :
  forall inputs (outputs : list (string * own)),
  List.length outputs = List.length inputs ->
  (forall x fe, In (x, fe) (combine inputs outputs) -> ev (snd fe) env = lookup x env) ->
  map (fun fe => ev (snd fe) env) outputs = map (fun x => lookup x env) inputs.
Proof.
  induction inputs as [|x inputs IH]; intros [|fe outputs] Hl H; try reflexivity; try discriminate.
  cbn [map]. f_equal.
  - apply (H x fe). left; reflexivity.
  - apply IH; [cbn [List.length] in Hl; lia|]. intros x' fe' Hin. apply (H x' fe'). right; exact Hin.
Qed.

Lemma apply_row_id rec helpers r v :
  (forall v, wf_val v = true -> rec v = v) ->
  row_ok helpers r = true -> wf_val v = true ->
  match v with VCon n _ | VRec n _ => r_con r = n | _ => True end ->
  apply_row rec helpers r v = v.
Proof.
  intros Hrec Hok Hv Hn. unfold row_ok in Hok.
  apply andb_true_iff in Hok. destruct Hok as [Hok Hrest]. apply andb_true_iff in Hok. destruct Hok as [Hcon Hnd].
  apply String.eqb_eq in Hcon.
  assert (Hs : forall e x env, env_wf env = true -> idlike (helper_ok helpers) x e = true ->
                 oeval rec (own_call rec helpers) e env = lookup x env).
  { intros e x env. apply idlike_sound; [exact Hrec | apply own_call_sound; exact Hrec]. }
  destruct v as [| | | | | | | | name args | name fields]; try reflexivity; unfold apply_row.
  - destruct (r_named r); [reflexivity|].
    destruct (Nat.eqb (List.length args) (List.length (r_inputs r))) eqn:El; [|reflexivity].
    apply Nat.eqb_eq in El.
    apply andb_true_iff in Hrest. destruct Hrest as [Hlen Hall]. apply Nat.eqb_eq in Hlen.
    rewrite wf_con in Hv.
    assert (Henv : env_wf (combine (r_inputs r) args) = true).
    { unfold env_wf. apply forallb_forall. intros [k a] Hin. cbn [snd].
      rewrite forallb_forall in Hv. apply Hv. exact (in_combine_r _ _ _ _ Hin). }
    rewrite <- Hcon, Hn. f_equal.
    rewrite (outputs_positional (oeval rec (own_call rec helpers)) (combine (r_inputs r) args) (r_inputs r) (r_outputs r) Hlen).
    + apply lookup_all_combine; [exact Hnd | symmetry; exact El].
    + intros x fe Hin. apply Hs; [exact Henv|]. rewrite forallb_forall in Hall. exact (Hall (x, fe) Hin).
  - destruct (r_named r); [|reflexivity].
    apply andb_true_iff in Hrest. destruct Hrest as [_ Hall].
    rewrite wf_rec in Hv. apply andb_true_iff in Hv. destruct Hv as [Hkeys Hvals].
    rewrite <- Hcon, Hn. f_equal.
    transitivity (map (fun kv : string * val => kv) fields); [|apply map_id].
    apply map_ext_in. intros [k a] Hin. cbn [fst snd]. f_equal.
    destruct (assoc_own k (r_outputs r)) as [e|] eqn:Ea; [|reflexivity].
    apply assoc_own_in in Ea. rewrite forallb_forall in Hall. specialize (Hall (k, e) Ea). cbn [fst snd] in Hall.
    rewrite (Hs e k fields Hvals Hall). apply lookup_in_nodup; assumption.
Qed.

Theorem into_owned_identity tbl helpers :
  table_ok tbl helpers = true ->
  forall fuel v, wf_val v = true -> into_owned_val fuel tbl helpers v = v.
Proof.
  intros Hok. induction fuel as [|f IH]; intros v Hv; [reflexivity|].
  cbn [into_owned_val].
  destruct v as [| | | | | | | | name args | name fields]; try reflexivity.
  - destruct (find_row name tbl) as [r|] eqn:Ef; [|reflexivity].
    destruct (find_row_in _ _ _ Ef) as [Hin Hc].
    apply apply_row_id; [exact IH | | exact Hv | exact Hc].
    unfold table_ok in Hok. rewrite forallb_forall in Hok. exact (Hok r Hin).
  - destruct (find_row name tbl) as [r|] eqn:Ef; [|reflexivity].
    destruct (find_row_in _ _ _ Ef) as [Hin Hc].
    apply apply_row_id; [exact IH | | exact Hv | exact Hc].
    unfold table_ok in Hok. rewrite forallb_forall in Hok. exact (Hok r Hin).
Qed.
