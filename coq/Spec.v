(* M12: the wire encodings of response values, written from the RFCs (3501 section 9, 2087, 2971, 4314, 4315, 4551,
   5161, 5256, 5464, 7162) and independent of the parser: which byte strings spell which value, with every
   spelling freedom the grammar gives (keyword case, NIL case, atom / quoted / literal, leading zeros).
   Values are the universal values of Grammar.v, named after the library's types (what a caller sees).
   Definitions only.  Quoted strings may carry escapes (backslash followed by backslash or double quote); the library
   returns quoted contents as sent, without unescaping, and so does the value here. *)
From TI Require Import Bytes Grammar Nom RoundTrip IdMap EntryNames.
Local Open Scope N_scope.

(* ---------------------------------------------------------------- RFC 3501 character classes *)
Definition rfc_CHAR (b : byte) : bool := (1 <=? b) && (b <=? 127).
Definition rfc_CTL (b : byte) : bool := (b <=? 31) || (b =? 127).
Definition rfc_list_wildcards (b : byte) : bool := (b =? 37) || (b =? 42).
Definition rfc_quoted_specials (b : byte) : bool := (b =? 34) || (b =? 92).
Definition rfc_resp_specials (b : byte) : bool := (b =? 93).
Definition rfc_atom_specials (b : byte) : bool :=
  (b =? 40) || (b =? 41) || (b =? 123) || (b =? 32) || rfc_CTL b || rfc_list_wildcards b || rfc_quoted_specials b || rfc_resp_specials b.
Definition rfc_ATOM_CHAR (b : byte) : bool := rfc_CHAR b && negb (rfc_atom_specials b).
Definition rfc_ASTRING_CHAR (b : byte) : bool := rfc_ATOM_CHAR b || rfc_resp_specials b.
Definition rfc_TEXT_CHAR (b : byte) : bool := rfc_CHAR b && negb (b =? 13) && negb (b =? 10).
Definition rfc_CHAR8 (b : byte) : bool := (1 <=? b) && (b <=? 255).
Definition rfc_DIGIT (b : byte) : bool := (48 <=? b) && (b <=? 57).
Definition rfc_QUOTED_PLAIN (b : byte) : bool := rfc_TEXT_CHAR b && negb (rfc_quoted_specials b).

(* ---------------------------------------------------------------- tokens *)
(* a keyword, in any letter case *)
Definition kw (k : string) (w : list byte) : Prop := same_nocase (bs k) w = true.

Inductive enc_nil : list byte -> Prop :=
| enc_nil_intro w : kw "NIL" w -> enc_nil w.

(* number / number64: 1*DIGIT, value below 2^bits; leading zeros are the same number *)
Inductive enc_number (bits : N) : N -> list byte -> Prop :=
| enc_number_intro ds : ds <> [] -> forallb rfc_DIGIT ds = true -> dec ds < 2 ^ bits -> enc_number bits (dec ds) ds.

(* quoted = DQUOTE *QUOTED-CHAR DQUOTE; QUOTED-CHAR = <any TEXT-CHAR except quoted-specials> / "\" quoted-specials.
   The library hands out the contents as sent, escapes included (it does not unescape) *)
Inductive quoted_body : list byte -> Prop :=
| qb_nil : quoted_body []
| qb_plain c s : rfc_QUOTED_PLAIN c = true -> quoted_body s -> quoted_body (c :: s)
| qb_escaped c s : c = 92 \/ c = 34 -> quoted_body s -> quoted_body (92 :: c :: s).
Inductive enc_quoted : list byte -> list byte -> Prop :=
| enc_quoted_body s : quoted_body s -> enc_quoted s ([34] ++ s ++ [34]).

(* literal = "{" number "}" CRLF *CHAR8: any content without NUL, of exactly the announced length *)
Inductive enc_literal : list byte -> list byte -> Prop :=
| enc_literal_intro s ds : ds <> [] -> forallb rfc_DIGIT ds = true -> dec ds = nlen s -> dec ds < 2 ^ 32 ->
    forallb rfc_CHAR8 s = true -> enc_literal s ([123] ++ ds ++ [125; 13; 10] ++ s).

Inductive enc_string : list byte -> list byte -> Prop :=
| enc_string_q s w : enc_quoted s w -> enc_string s w
| enc_string_l s w : enc_literal s w -> enc_string s w.

Inductive enc_astring : list byte -> list byte -> Prop :=
| enc_astring_a s : s <> [] -> forallb rfc_ASTRING_CHAR s = true -> enc_astring s s
| enc_astring_s s w : enc_string s w -> enc_astring s w.

(* nstring: NIL is None *)
Inductive enc_nstring : val -> list byte -> Prop :=
| enc_nstring_nil w : enc_nil w -> enc_nstring VNone w
| enc_nstring_some s w : enc_string s w -> enc_nstring (VSome (VBytes s)) w.

Definition SPb : list byte := [32].

(* ---------------------------------------------------------------- RFC 3501: address and envelope *)
(* address = "(" addr-name SP addr-adl SP addr-mailbox SP addr-host ")" *)
Inductive enc_address : val -> list byte -> Prop :=
| enc_address_intro n a m h wn wa wm wh :
    enc_nstring n wn -> enc_nstring a wa -> enc_nstring m wm -> enc_nstring h wh ->
    enc_address (VRec "Address" [("name"%string, n); ("adl"%string, a); ("mailbox"%string, m); ("host"%string, h)])
                ([40] ++ wn ++ SPb ++ wa ++ SPb ++ wm ++ SPb ++ wh ++ [41]).

(* env-from etc. = "(" 1*address ")" / nil  (addresses follow each other directly; servers that put a space between
   them are tolerated: that spelling is part of C12) *)
Inductive enc_addr_seq : list val -> list byte -> Prop :=
| enc_addr_one a w : enc_address a w -> enc_addr_seq [a] w
| enc_addr_more a l w ws sp : enc_address a w -> enc_addr_seq l ws -> sp = [] \/ sp = SPb -> enc_addr_seq (a :: l) (w ++ sp ++ ws).
Inductive enc_addr_list : val -> list byte -> Prop :=
| enc_addr_nil w : enc_nil w -> enc_addr_list VNone w
| enc_addr_some l w : enc_addr_seq l w -> enc_addr_list (VSome (VList l)) ([40] ++ w ++ [41]).

(* envelope = "(" env-date SP env-subject SP env-from SP env-sender SP env-reply-to SP env-to SP env-cc SP env-bcc SP
              env-in-reply-to SP env-message-id ")" *)
Inductive enc_envelope : val -> list byte -> Prop :=
| enc_envelope_intro date subject from sender reply_to to cc bcc in_reply_to message_id
                     w1 w2 w3 w4 w5 w6 w7 w8 w9 w10 :
    enc_nstring date w1 -> enc_nstring subject w2 -> enc_addr_list from w3 -> enc_addr_list sender w4 ->
    enc_addr_list reply_to w5 -> enc_addr_list to w6 -> enc_addr_list cc w7 -> enc_addr_list bcc w8 ->
    enc_nstring in_reply_to w9 -> enc_nstring message_id w10 ->
    enc_envelope (VRec "Envelope" [("date"%string, date); ("subject"%string, subject); ("from"%string, from); ("sender"%string, sender);
                                   ("reply_to"%string, reply_to); ("to"%string, to); ("cc"%string, cc); ("bcc"%string, bcc);
                                   ("in_reply_to"%string, in_reply_to); ("message_id"%string, message_id)])
                 ([40] ++ w1 ++ SPb ++ w2 ++ SPb ++ w3 ++ SPb ++ w4 ++ SPb ++ w5 ++ SPb ++ w6 ++ SPb ++ w7 ++ SPb ++ w8 ++ SPb ++ w9 ++ SPb ++ w10 ++ [41]).

(* ---------------------------------------------------------------- flags and dates in FETCH (RFC 3501 section 9: flag, flag-fetch, date-time) *)
(* flag = system flag / flag-keyword / flag-extension: an atom, or "\" followed by an atom; the value is the text as sent *)
Inductive enc_flag : list byte -> list byte -> Prop :=
| flag_keyword a : a <> [] -> forallb rfc_ATOM_CHAR a = true -> enc_flag a a
| flag_backslash a : a <> [] -> forallb rfc_ATOM_CHAR a = true -> enc_flag ([92] ++ a) ([92] ++ a).
Inductive enc_flags_more : list val -> list byte -> Prop :=
| flags_more_nil : enc_flags_more [] []
| flags_more_cons f w l ws : enc_flag f w -> enc_flags_more l ws -> enc_flags_more (VBytes f :: l) (SPb ++ w ++ ws).
Inductive enc_flag_list : val -> list byte -> Prop :=
| flag_list_empty : enc_flag_list (VList []) [40; 41]
| flag_list_some f w l ws : enc_flag f w -> enc_flags_more l ws -> enc_flag_list (VList (VBytes f :: l)) ([40] ++ w ++ ws ++ [41]).

(* ---------------------------------------------------------------- RFC 3501 7.4.2: FETCH data items
   msg-att-static / msg-att-dynamic as far as the round-trip theorems reach today (BODY, BODYSTRUCTURE, BODY[...]
   and X-GM-LABELS are covered by the differential checks only) *)
(* ---------------------------------------------------------------- body structures (RFC 3501 9 `body`) *)
Inductive enc_nstring_utf8 : val -> list byte -> Prop :=
| nsu_nil w : enc_nil w -> enc_nstring_utf8 VNone w
| nsu_some s w : enc_string s w -> utf8_valid s = true -> enc_nstring_utf8 (VSome (VBytes s)) w.

(* body-fld-param = "(" string SP string *(SP string SP string) ")" / nil *)
Inductive enc_param_pair : val -> list byte -> Prop :=
| param_pair k wk v wv : enc_string k wk -> utf8_valid k = true -> enc_string v wv -> utf8_valid v = true ->
    enc_param_pair (VTuple [VBytes k; VBytes v]) (wk ++ SPb ++ wv).
Inductive enc_param_more : list val -> list byte -> Prop :=
| param_more_nil : enc_param_more [] []
| param_more_cons p w l ws : enc_param_pair p w -> enc_param_more l ws -> enc_param_more (p :: l) (SPb ++ w ++ ws).
Inductive enc_body_param : val -> list byte -> Prop :=
| bp_nil w : enc_nil w -> enc_body_param VNone w
| bp_some p w l ws : enc_param_pair p w -> enc_param_more l ws -> enc_body_param (VSome (VList (p :: l))) ([40] ++ w ++ ws ++ [41]).

(* body-fld-enc = (DQUOTE ("7BIT" / "8BIT" / "BINARY" / "BASE64" / "QUOTED-PRINTABLE") DQUOTE) / string.  Any other
   string is reported verbatim, also one that merely starts with one of the five names *)
Definition known_encodings : list (string * string) :=
  [("7BIT", "ContentEncoding::SevenBit"); ("8BIT", "ContentEncoding::EightBit"); ("BINARY", "ContentEncoding::Binary");
   ("BASE64", "ContentEncoding::Base64"); ("QUOTED-PRINTABLE", "ContentEncoding::QuotedPrintable")]%string.
Inductive enc_body_enc : val -> list byte -> Prop :=
| be_known K n k : In (K, n) known_encodings -> kw K k -> enc_body_enc (VCon n []) ([34] ++ k ++ [34])
| be_other_quoted s : forallb rfc_QUOTED_PLAIN s = true -> utf8_valid s = true ->
    forallb (fun Kn : string * string => nocase_mismatch (bs (fst Kn)) (s ++ [34])) known_encodings = true ->
    enc_body_enc (VCon "ContentEncoding::Other" [VBytes s]) ([34] ++ s ++ [34])
| be_other_quoted_longer K n k t : In (K, n) known_encodings -> kw K k -> t <> [] -> quoted_body t -> utf8_valid (k ++ t) = true ->
    enc_body_enc (VCon "ContentEncoding::Other" [VBytes (k ++ t)]) ([34] ++ (k ++ t) ++ [34])   (* a longer name that starts with a known one *)
| be_other_literal s w : enc_literal s w -> utf8_valid s = true -> enc_body_enc (VCon "ContentEncoding::Other" [VBytes s]) w.

(* body-fields = body-fld-param SP body-fld-id SP body-fld-desc SP body-fld-enc SP body-fld-octets *)
Inductive enc_body_fields : val -> val -> val -> val -> N -> list byte -> Prop :=
| bf_intro p wp id wi de wd e we n wn : enc_body_param p wp -> enc_nstring_utf8 id wi -> enc_nstring_utf8 de wd ->
    enc_body_enc e we -> enc_number 32 n wn ->
    enc_body_fields p id de e n (wp ++ SPb ++ wi ++ SPb ++ wd ++ SPb ++ we ++ SPb ++ wn).

(* body-fld-dsp = "(" string SP body-fld-param ")" / nil *)
Inductive enc_body_dsp : val -> list byte -> Prop :=
| dsp_nil w : enc_nil w -> enc_body_dsp VNone w
| dsp_some ty wty p wp : enc_string ty wty -> utf8_valid ty = true -> enc_body_param p wp ->
    enc_body_dsp (VSome (VRec "ContentDisposition" [("ty"%string, VBytes ty); ("params"%string, p)])) ([40] ++ wty ++ SPb ++ wp ++ [41]).
(* body-fld-lang = nstring / "(" string *(SP string) ")" *)
Inductive enc_lang_more : list val -> list byte -> Prop :=
| lang_more_nil : enc_lang_more [] []
| lang_more_cons s w l ws : enc_string s w -> utf8_valid s = true -> enc_lang_more l ws -> enc_lang_more (VBytes s :: l) (SPb ++ w ++ ws).
Inductive enc_body_lang : val -> list byte -> Prop :=
| lang_nil w : enc_nil w -> enc_body_lang VNone w
| lang_one s w : enc_string s w -> utf8_valid s = true -> enc_body_lang (VSome (VList [VBytes s])) w
| lang_list s w l ws : enc_string s w -> utf8_valid s = true -> enc_lang_more l ws ->
    enc_body_lang (VSome (VList (VBytes s :: l))) ([40] ++ w ++ ws ++ [41]).
(* body-extension = nstring / number / "(" body-extension *(SP body-extension) ")"; nesting below 32 levels (the
   parser refuses deeper ones) *)
Inductive enc_body_ext : nat -> val -> list byte -> Prop :=
| bx_num d n w : (d < 32)%nat -> enc_number 32 n w -> enc_body_ext d (VCon "BodyExtension::Num" [VNum n]) w
| bx_str d v w : (d < 32)%nat -> enc_nstring_utf8 v w -> enc_body_ext d (VCon "BodyExtension::Str" [v]) w
| bx_list d x w l ws : (d < 32)%nat -> enc_body_ext (S d) x w -> enc_body_exts (S d) l ws ->
    enc_body_ext d (VCon "BodyExtension::List" [VList (x :: l)]) ([40] ++ w ++ ws ++ [41])
with enc_body_exts : nat -> list val -> list byte -> Prop :=
| bxs_nil d : enc_body_exts d [] []
| bxs_cons d x w l ws : enc_body_ext d x w -> enc_body_exts d l ws -> enc_body_exts d (x :: l) (SPb ++ w ++ ws).

(* body-ext-1part = body-fld-md5 [SP body-fld-dsp [SP body-fld-lang [SP body-fld-loc [SP body-extension]]]], each
   preceded by SP; this parser reads at most one body-extension.  (md5, disposition, language, location, extension) *)
Inductive enc_ext_tail : val -> val -> val -> val -> list byte -> Prop :=
| xt_0 : enc_ext_tail VNone VNone VNone VNone []
| xt_1 dsp w1 : enc_body_dsp dsp w1 -> enc_ext_tail dsp VNone VNone VNone (SPb ++ w1)
| xt_2 dsp w1 lang w2 : enc_body_dsp dsp w1 -> enc_body_lang lang w2 -> enc_ext_tail dsp lang VNone VNone (SPb ++ w1 ++ SPb ++ w2)
| xt_3 dsp w1 lang w2 loc w3 : enc_body_dsp dsp w1 -> enc_body_lang lang w2 -> enc_nstring_utf8 loc w3 ->
    enc_ext_tail dsp lang loc VNone (SPb ++ w1 ++ SPb ++ w2 ++ SPb ++ w3)
| xt_4 dsp w1 lang w2 loc w3 x w4 : enc_body_dsp dsp w1 -> enc_body_lang lang w2 -> enc_nstring_utf8 loc w3 -> enc_body_ext 0 x w4 ->
    enc_ext_tail dsp lang loc (VSome x) (SPb ++ w1 ++ SPb ++ w2 ++ SPb ++ w3 ++ SPb ++ w4).
Inductive enc_ext_1part : val -> val -> val -> val -> val -> list byte -> Prop :=
| x1_none : enc_ext_1part VNone VNone VNone VNone VNone []
| x1_some md5 w0 dsp lang loc ext wt : enc_nstring_utf8 md5 w0 -> enc_ext_tail dsp lang loc ext wt ->
    enc_ext_1part md5 dsp lang loc ext (SPb ++ w0 ++ wt).
Inductive enc_ext_mpart : val -> val -> val -> val -> val -> list byte -> Prop :=
| xm_none : enc_ext_mpart VNone VNone VNone VNone VNone []
| xm_some p w0 dsp lang loc ext wt : enc_body_param p w0 -> enc_ext_tail dsp lang loc ext wt ->
    enc_ext_mpart p dsp lang loc ext (SPb ++ w0 ++ wt).

Definition common_val (ty sub params dsp lang loc : val) : val :=
  VRec "BodyContentCommon" [("ty"%string, VRec "ContentType" [("ty"%string, ty); ("subtype"%string, sub); ("params"%string, params)]);
                            ("disposition"%string, dsp); ("language"%string, lang); ("location"%string, loc)].
Definition single_val (id md5 : val) (octets : N) (de e : val) : val :=
  VRec "BodyContentSinglePart" [("id"%string, id); ("md5"%string, md5); ("octets"%string, VNum octets);
                                ("description"%string, de); ("transfer_encoding"%string, e)].

(* body = "(" (body-type-1part / body-type-mpart) ")"; nesting below 32 levels *)
Inductive enc_body : nat -> val -> list byte -> Prop :=
| body_text d k sub wsub p id de e n wf lines wl md5 dsp lang loc ext wx : (d < 32)%nat -> kw """TEXT""" k ->
    enc_string sub wsub -> utf8_valid sub = true -> enc_body_fields p id de e n wf -> enc_number 32 lines wl ->
    enc_ext_1part md5 dsp lang loc ext wx ->
    enc_body d (VRec "BodyStructure::Text" [("common"%string, common_val (VBytes (bs "TEXT")) (VBytes sub) p dsp lang loc);
                                            ("other"%string, single_val id md5 n de e); ("lines"%string, VNum lines);
                                            ("extension"%string, ext)])
             ([40] ++ (k ++ SPb ++ wsub ++ SPb ++ wf ++ SPb ++ wl ++ wx) ++ [41])
| body_message d k p id de e n wf env wenv b wb lines wl md5 dsp lang loc ext wx : (d < 32)%nat -> kw """MESSAGE"" ""RFC822""" k ->
    enc_body_fields p id de e n wf -> enc_envelope env wenv -> enc_body (S d) b wb -> enc_number 32 lines wl ->
    enc_ext_1part md5 dsp lang loc ext wx ->
    enc_body d (VRec "BodyStructure::Message" [("common"%string, common_val (VBytes (bs "MESSAGE")) (VBytes (bs "RFC822")) p dsp lang loc);
                                               ("other"%string, single_val id md5 n de e); ("envelope"%string, env); ("body"%string, b);
                                               ("lines"%string, VNum lines); ("extension"%string, ext)])
             ([40] ++ (k ++ SPb ++ wf ++ SPb ++ wenv ++ SPb ++ wb ++ SPb ++ wl ++ wx) ++ [41])
| body_basic d ty wty sub wsub p id de e n wf md5 dsp lang loc ext wx : (d < 32)%nat -> enc_string ty wty -> utf8_valid ty = true ->
    enc_string sub wsub -> utf8_valid sub = true ->
    nocase_mismatch (bs """TEXT""") (wty ++ SPb ++ wsub) = true ->
    nocase_mismatch (bs """MESSAGE"" ""RFC822""") (wty ++ SPb ++ wsub) = true ->
    enc_body_fields p id de e n wf -> enc_ext_1part md5 dsp lang loc ext wx ->
    enc_body d (VRec "BodyStructure::Basic" [("common"%string, common_val (VBytes ty) (VBytes sub) p dsp lang loc);
                                             ("other"%string, single_val id md5 n de e); ("extension"%string, ext)])
             ([40] ++ (wty ++ SPb ++ wsub ++ SPb ++ wf ++ wx) ++ [41])
| body_multipart d b wb l wl sub wsub p dsp lang loc ext wx : (d < 32)%nat -> enc_body (S d) b wb -> enc_bodies (S d) l wl ->
    enc_string sub wsub -> utf8_valid sub = true -> enc_ext_mpart p dsp lang loc ext wx ->
    enc_body d (VRec "BodyStructure::Multipart" [("common"%string, common_val (VBytes (bs "MULTIPART")) (VBytes sub) p dsp lang loc);
                                                 ("bodies"%string, VList (b :: l)); ("extension"%string, ext)])
             ([40] ++ ((wb ++ wl) ++ SPb ++ wsub ++ wx) ++ [41])
with enc_bodies : nat -> list val -> list byte -> Prop :=
| bodies_nil d : enc_bodies d [] []
| bodies_cons d b w l ws : enc_body d b w -> enc_bodies d l ws -> enc_bodies d (b :: l) (w ++ ws).

(* X-GM-LABELS (Gmail IMAP extensions): "(" [label *(SP label)] ")", a label being an atom, a "\" atom (system label) or a
   quoted string *)
Inductive enc_label : list byte -> list byte -> Prop :=
| label_flag f w : enc_flag f w -> enc_label f w
| label_quoted s w : enc_quoted s w -> utf8_valid s = true -> enc_label s w.
Inductive enc_labels_more : list val -> list byte -> Prop :=
| labels_more_nil : enc_labels_more [] []
| labels_more_cons f w l ws : enc_label f w -> enc_labels_more l ws -> enc_labels_more (VBytes f :: l) (SPb ++ w ++ ws).
Inductive enc_label_list : val -> list byte -> Prop :=
| label_list_empty : enc_label_list (VList []) [40; 41]
| label_list_some f w l ws : enc_label f w -> enc_labels_more l ws -> enc_label_list (VList (VBytes f :: l)) ([40] ++ w ++ ws ++ [41]).

(* section = "[" [section-spec] "]" (RFC 3501 9): section-spec = section-msgtext / (section-part ["." section-text]);
   section-msgtext = "HEADER" / "HEADER.FIELDS" [".NOT"] SP header-list / "TEXT"; section-text = section-msgtext / "MIME";
   section-part = number *("." number).  The header list is not kept: both HEADER forms are MessageSection::Header *)
Inductive enc_header_names : list byte -> Prop :=
| hn_one s w : enc_astring s w -> enc_header_names w
| hn_more s w ws : enc_astring s w -> enc_header_names ws -> enc_header_names (w ++ SPb ++ ws).
Inductive enc_msgtext : val -> list byte -> Prop :=
| mt_header k : kw "HEADER" k -> enc_msgtext (VCon "MessageSection::Header" []) k
| mt_text k : kw "TEXT" k -> enc_msgtext (VCon "MessageSection::Text" []) k
| mt_fields k n hl : kw "HEADER.FIELDS" k -> n = [] \/ kw ".NOT" n -> enc_header_names hl ->
    enc_msgtext (VCon "MessageSection::Header" []) (k ++ n ++ SPb ++ [40] ++ hl ++ [41]).
Inductive enc_section_text : val -> list byte -> Prop :=
| st_msgtext m w : enc_msgtext m w -> enc_section_text m w
| st_mime k : kw "MIME" k -> enc_section_text (VCon "MessageSection::Mime" []) k.
Inductive enc_part_more : list val -> list byte -> Prop :=
| part_more_nil : enc_part_more [] []
| part_more_cons n w l ws : enc_number 32 n w -> enc_part_more l ws -> enc_part_more (VNum n :: l) ([46] ++ w ++ ws).
Inductive enc_section_spec : val -> list byte -> Prop :=
| ss_full m w : enc_msgtext m w -> enc_section_spec (VCon "SectionPath::Full" [m]) w
| ss_part n w l ws : enc_number 32 n w -> enc_part_more l ws ->
    enc_section_spec (VCon "SectionPath::Part" [VList (VNum n :: l); VNone]) (w ++ ws)
| ss_part_text n w l ws t wt : enc_number 32 n w -> enc_part_more l ws -> enc_section_text t wt ->
    enc_section_spec (VCon "SectionPath::Part" [VList (VNum n :: l); VSome t]) (w ++ ws ++ [46] ++ wt).
Inductive enc_section : val -> list byte -> Prop :=
| section_empty : enc_section VNone [91; 93]
| section_spec sp w : enc_section_spec sp w -> enc_section (VSome sp) ([91] ++ w ++ [93]).
(* the origin octet of a partial fetch: "<" number ">" *)
Inductive enc_origin : val -> list byte -> Prop :=
| origin_none : enc_origin VNone []
| origin_some n w : enc_number 32 n w -> enc_origin (VSome (VNum n)) ([60] ++ w ++ [62]).

Inductive enc_msg_att : val -> list byte -> Prop :=
| att_envelope k e w : kw "ENVELOPE " k -> enc_envelope e w -> enc_msg_att (VCon "AttributeValue::Envelope" [e]) (k ++ w)
| att_uid k n w : kw "UID " k -> enc_number 32 n w -> enc_msg_att (VCon "AttributeValue::Uid" [VNum n]) (k ++ w)
| att_size k n w : kw "RFC822.SIZE " k -> enc_number 32 n w -> enc_msg_att (VCon "AttributeValue::Rfc822Size" [VNum n]) (k ++ w)
| att_rfc822 k v w : kw "RFC822 " k -> enc_nstring v w -> enc_msg_att (VCon "AttributeValue::Rfc822" [v]) (k ++ w)
| att_text k v w : kw "RFC822.TEXT " k -> enc_nstring v w -> enc_msg_att (VCon "AttributeValue::Rfc822Text" [v]) (k ++ w)
| att_header k v w sp : kw "RFC822.HEADER " k -> enc_nstring v w -> sp = [] \/ sp = SPb ->   (* a doubled space is tolerated *)
    enc_msg_att (VCon "AttributeValue::Rfc822Header" [v]) (k ++ sp ++ w)
| att_modseq k n w : kw "MODSEQ " k -> enc_number 64 n w ->                                   (* RFC 4551 *)
    enc_msg_att (VCon "AttributeValue::ModSeq" [VNum n]) (k ++ [40] ++ w ++ [41])
| att_msgid k n w : kw "X-GM-MSGID " k -> enc_number 64 n w -> enc_msg_att (VCon "AttributeValue::GmailMsgId" [VNum n]) (k ++ w)
| att_flags k v w : kw "FLAGS " k -> enc_flag_list v w -> enc_msg_att (VCon "AttributeValue::Flags" [v]) (k ++ w)
| att_date k s w : kw "INTERNALDATE " k -> enc_string s w -> utf8_valid s = true ->     (* date-time is a quoted string; the text is returned as sent *)
    enc_msg_att (VCon "AttributeValue::InternalDate" [VBytes s]) (k ++ w)
| att_bodystructure k b w : kw "BODYSTRUCTURE " k -> enc_body 0 b w -> enc_msg_att (VCon "AttributeValue::BodyStructure" [b]) (k ++ w)
| att_body k b w : kw "BODY " k -> enc_body 0 b w -> enc_msg_att (VCon "AttributeValue::BodyStructure" [b]) (k ++ w)
| att_labels k v w : kw "X-GM-LABELS " k -> enc_label_list v w -> enc_msg_att (VCon "AttributeValue::GmailLabels" [v]) (k ++ w)
| att_body_section k sec wsec idx widx v w : kw "BODY" k -> enc_section sec wsec -> enc_origin idx widx -> enc_nstring v w ->
    enc_msg_att (VRec "AttributeValue::BodySection" [("section"%string, sec); ("index"%string, idx); ("data"%string, v)])
                (k ++ wsec ++ widx ++ SPb ++ w).

Inductive enc_att_more : list val -> list byte -> Prop :=
| att_more_nil : enc_att_more [] []
| att_more_cons a l w ws : enc_msg_att a w -> enc_att_more l ws -> enc_att_more (a :: l) (SPb ++ w ++ ws).

Inductive enc_spaces : list byte -> Prop :=
| spaces_nil : enc_spaces []
| spaces_cons w : enc_spaces w -> enc_spaces (32 :: w).

(* message-data = nz-number SP "FETCH" SP "(" msg-att *(SP msg-att) ")", as an untagged response; trailing spaces
   before CRLF are tolerated *)
Inductive enc_fetch : val -> list byte -> Prop :=
| enc_fetch_intro n wn k a wa l wl sp :
    enc_number 32 n wn -> kw " FETCH " k -> enc_msg_att a wa -> enc_att_more l wl -> enc_spaces sp ->
    enc_fetch (VCon "Response::Fetch" [VNum n; VList (a :: l)])
              (bs "* " ++ wn ++ k ++ [40] ++ wa ++ wl ++ [41] ++ sp ++ [13; 10]).

(* ---------------------------------------------------------------- more untagged data (RFC 3501 7.3.1, 7.4.1; RFC 7162) *)
(* sequence-set for known-uids: seq-number / seq-range separated by ","; a range written high:low is the same set *)
Definition range_val (a b : N) : val :=
  if a <=? b then VCon "RangeInclusive" [VNum a; VNum b] else VCon "RangeInclusive" [VNum b; VNum a].
Inductive enc_seq_item : val -> list byte -> Prop :=
| seq_single n w : enc_number 32 n w -> enc_seq_item (VCon "RangeInclusive" [VNum n; VNum n]) w
| seq_range a b wa wb : enc_number 32 a wa -> enc_number 32 b wb -> enc_seq_item (range_val a b) (wa ++ [58] ++ wb).
Inductive enc_seq_more : list val -> list byte -> Prop :=
| seq_more_nil : enc_seq_more [] []
| seq_more_cons v l w ws : enc_seq_item v w -> enc_seq_more l ws -> enc_seq_more (v :: l) ([44] ++ w ++ ws).

Inductive enc_ws1 : list byte -> Prop :=            (* nom space1: one or more SP / HTAB (servers are tolerated here) *)
| ws1_intro w : w <> [] -> forallb (fun b => (b =? 32) || (b =? 9)) w = true -> enc_ws1 w.

(* the body of an untagged data response (between "* " and the trailing spaces + CRLF) *)
Inductive enc_untagged : val -> list byte -> Prop :=
| unt_exists n w k : enc_number 32 n w -> kw " EXISTS" k -> enc_untagged (VCon "Response::MailboxData" [VCon "MailboxDatum::Exists" [VNum n]]) (w ++ k)
| unt_recent n w k : enc_number 32 n w -> kw " RECENT" k -> enc_untagged (VCon "Response::MailboxData" [VCon "MailboxDatum::Recent" [VNum n]]) (w ++ k)
| unt_expunge n w k : enc_number 32 n w -> kw " EXPUNGE" k -> enc_untagged (VCon "Response::Expunge" [VNum n]) (w ++ k)
| unt_vanished k earlier ke ws v l w wl : kw "VANISHED" k ->
    (earlier = true /\ (exists s e, ke = s ++ e /\ enc_ws1 s /\ kw "(EARLIER)" e)) \/ (earlier = false /\ ke = []) ->
    enc_ws1 ws -> enc_seq_item v w -> enc_seq_more l wl ->
    enc_untagged (VRec "Response::Vanished" [("earlier"%string, VBool earlier); ("uids"%string, VList (v :: l))]) (k ++ ke ++ ws ++ w ++ wl).

Inductive enc_untagged_response : val -> list byte -> Prop :=
| enc_untagged_intro v body sp : enc_untagged v body -> enc_spaces sp -> enc_untagged_response v (bs "* " ++ body ++ sp ++ [13; 10]).


(* ---------------------------------------------------------------- RFC 2087: QUOTA *)
(* quota_resource = atom SP number SP number: resource name, current usage, limit -- in this order *)
Inductive enc_quota_name : val -> list byte -> Prop :=
| qn_storage w : kw "STORAGE" w -> enc_quota_name (VCon "QuotaResourceName::Storage" []) w
| qn_message w : kw "MESSAGE" w -> enc_quota_name (VCon "QuotaResourceName::Message" []) w
| qn_atom a : a <> [] -> forallb rfc_ATOM_CHAR a = true -> eq_nocase a (bs "STORAGE") = false -> eq_nocase a (bs "MESSAGE") = false ->
    enc_quota_name (VCon "QuotaResourceName::Atom" [VBytes a]) a.
Inductive enc_quota_resource : val -> list byte -> Prop :=
| quota_resource_intro name wn s1 usage wu s2 limit wl :
    enc_quota_name name wn -> enc_ws1 s1 -> enc_number 64 usage wu -> enc_ws1 s2 -> enc_number 64 limit wl ->
    enc_quota_resource (VRec "QuotaResource" [("name"%string, name); ("usage"%string, VNum usage); ("limit"%string, VNum limit)])
                       (wn ++ s1 ++ wu ++ s2 ++ wl).
Inductive enc_quota_more : list val -> list byte -> Prop :=
| quota_more_nil : enc_quota_more [] []
| quota_more_cons r l s w ws : enc_ws1 s -> enc_quota_resource r w -> enc_quota_more l ws -> enc_quota_more (r :: l) (s ++ w ++ ws).
Inductive enc_quota_list : val -> list byte -> Prop :=
| quota_list_empty : enc_quota_list (VList []) [40; 41]
| quota_list_some r w l ws : enc_quota_resource r w -> enc_quota_more l ws -> enc_quota_list (VList (r :: l)) ([40] ++ w ++ ws ++ [41]).
Inductive enc_quota : val -> list byte -> Prop :=
| quota_intro k s1 root wr s2 res wl : kw "QUOTA" k -> enc_ws1 s1 -> enc_astring root wr -> utf8_valid root = true -> enc_ws1 s2 -> enc_quota_list res wl ->
    enc_quota (VCon "Response::Quota" [VRec "Quota" [("root_name"%string, VBytes root); ("resources"%string, res)]]) (k ++ s1 ++ wr ++ s2 ++ wl).

(* ---------------------------------------------------------------- RFC 3501 7.1: status responses *)
Inductive enc_status : val -> list byte -> Prop :=
| st_ok w : kw "OK" w -> enc_status (VCon "Status::Ok" []) w
| st_no w : kw "NO" w -> enc_status (VCon "Status::No" []) w
| st_bad w : kw "BAD" w -> enc_status (VCon "Status::Bad" []) w
| st_preauth w : kw "PREAUTH" w -> enc_status (VCon "Status::PreAuth" []) w
| st_bye w : kw "BYE" w -> enc_status (VCon "Status::Bye" []) w.

(* resp-text-code (the ones without lists; RFC 3501, 4315, 4551) *)
(* ---------------------------------------------------------------- CAPABILITY (RFC 3501 7.2.1) *)
(* capability = ("AUTH=" auth-type) / atom; "IMAP4rev1" must be among them *)
Inductive enc_cap : val -> list byte -> Prop :=
| cap_rev1 w : kw "IMAP4rev1" w -> enc_cap (VCon "Capability::Imap4rev1" []) w
| cap_auth p m : kw "AUTH=" p -> m <> [] -> forallb rfc_ATOM_CHAR m = true -> enc_cap (VCon "Capability::Auth" [VBytes m]) (p ++ m)
| cap_atom a : a <> [] -> forallb rfc_ATOM_CHAR a = true -> eq_nocase a (bs "IMAP4rev1") = false ->
    (Nat.ltb 5 (List.length a) && eq_nocase (firstn 5 a) (bs "AUTH=")) = false ->
    enc_cap (VCon "Capability::Atom" [VBytes a]) a.
Inductive enc_caps : list val -> list byte -> Prop :=
| caps_nil : enc_caps [] []
| caps_cons c w l ws : enc_cap c w -> enc_caps l ws -> enc_caps (c :: l) (SPb ++ w ++ ws).
Inductive enc_capability_data : val -> list byte -> Prop :=
| enc_capability_intro k l w : kw "CAPABILITY" k -> enc_caps l w -> In (VCon "Capability::Imap4rev1" []) l ->
    enc_capability_data (VCon "Response::Capabilities" [VList l]) (k ++ w).

(* PERMANENTFLAGS "(" [flag-perm *(SP flag-perm)] ")": flag-perm = flag / "\*" *)
Inductive enc_pflag : list byte -> list byte -> Prop :=
| pflag_flag f w : enc_flag f w -> enc_pflag f w
| pflag_star : enc_pflag [92; 42] [92; 42].
Inductive enc_pflags_more : list val -> list byte -> Prop :=
| pflags_more_nil : enc_pflags_more [] []
| pflags_more_cons f w l ws : enc_pflag f w -> enc_pflags_more l ws -> enc_pflags_more (VBytes f :: l) (SPb ++ w ++ ws).
Inductive enc_pflag_list : val -> list byte -> Prop :=
| pflag_list_empty : enc_pflag_list (VList []) [40; 41]
| pflag_list_some f w l ws : enc_pflag f w -> enc_pflags_more l ws -> enc_pflag_list (VList (VBytes f :: l)) ([40] ++ w ++ ws ++ [41]).
(* BADCHARSET [SP "(" astring *(SP astring) ")"] *)
Inductive enc_charsets_more : list val -> list byte -> Prop :=
| charsets_more_nil : enc_charsets_more [] []
| charsets_more_cons s w l ws : enc_astring s w -> utf8_valid s = true -> enc_charsets_more l ws -> enc_charsets_more (VBytes s :: l) (SPb ++ w ++ ws).
(* uid-set = (uniqueid / uid-range) *("," uid-set)  (RFC 4315); a range written high:low is low:high *)
Inductive enc_uid_item : val -> list byte -> Prop :=
| uid_single n w : enc_number 32 n w -> enc_uid_item (VCon "UidSetMember::Uid" [VNum n]) w
| uid_range a b wa wb : enc_number 32 a wa -> enc_number 32 b wb ->
    enc_uid_item (VCon "UidSetMember::UidRange" [if a <=? b then VCon "RangeInclusive" [VNum a; VNum b] else VCon "RangeInclusive" [VNum b; VNum a]]) (wa ++ [58] ++ wb).
Inductive enc_uid_more : list val -> list byte -> Prop :=
| uid_more_nil : enc_uid_more [] []
| uid_more_cons v l w ws : enc_uid_item v w -> enc_uid_more l ws -> enc_uid_more (v :: l) ([44] ++ w ++ ws).
Inductive enc_uid_set : val -> list byte -> Prop :=
| uid_set_intro v w l ws : enc_uid_item v w -> enc_uid_more l ws -> enc_uid_set (VList (v :: l)) (w ++ ws).

Inductive enc_code_simple : val -> list byte -> Prop :=
| code_alert w : kw "ALERT" w -> enc_code_simple (VCon "ResponseCode::Alert" []) w
| code_parse w : kw "PARSE" w -> enc_code_simple (VCon "ResponseCode::Parse" []) w
| code_read_only w : kw "READ-ONLY" w -> enc_code_simple (VCon "ResponseCode::ReadOnly" []) w
| code_read_write w : kw "READ-WRITE" w -> enc_code_simple (VCon "ResponseCode::ReadWrite" []) w
| code_try_create w : kw "TRYCREATE" w -> enc_code_simple (VCon "ResponseCode::TryCreate" []) w
| code_uid_validity k n w : kw "UIDVALIDITY " k -> enc_number 32 n w -> enc_code_simple (VCon "ResponseCode::UidValidity" [VNum n]) (k ++ w)
| code_uid_next k n w : kw "UIDNEXT " k -> enc_number 32 n w -> enc_code_simple (VCon "ResponseCode::UidNext" [VNum n]) (k ++ w)
| code_unseen k n w : kw "UNSEEN " k -> enc_number 32 n w -> enc_code_simple (VCon "ResponseCode::Unseen" [VNum n]) (k ++ w)
| code_highest_mod_seq k n w : kw "HIGHESTMODSEQ " k -> enc_number 64 n w -> enc_code_simple (VCon "ResponseCode::HighestModSeq" [VNum n]) (k ++ w).
Inductive enc_code : val -> list byte -> Prop :=
| code_simple c w : enc_code_simple c w -> enc_code c w
| code_uid_not_sticky w : kw "UIDNOTSTICKY" w -> enc_code (VCon "ResponseCode::UidNotSticky" []) w
| code_md_too_many w : kw "METADATA TOOMANY" w -> enc_code (VCon "ResponseCode::MetadataTooMany" []) w
| code_md_no_private w : kw "METADATA NOPRIVATE" w -> enc_code (VCon "ResponseCode::MetadataNoPrivate" []) w
| code_md_long_entries k n w : kw "METADATA LONGENTRIES " k -> enc_number 64 n w -> enc_code (VCon "ResponseCode::MetadataLongEntries" [VNum n]) (k ++ w)
| code_md_max_size k n w : kw "METADATA MAXSIZE " k -> enc_number 64 n w -> enc_code (VCon "ResponseCode::MetadataMaxSize" [VNum n]) (k ++ w)
| code_permanent_flags k v w : kw "PERMANENTFLAGS " k -> enc_pflag_list v w -> enc_code (VCon "ResponseCode::PermanentFlags" [v]) (k ++ w)
| code_badcharset_bare k : kw "BADCHARSET" k -> enc_code (VCon "ResponseCode::BadCharset" [VNone]) k
| code_badcharset k s w l ws : kw "BADCHARSET" k -> enc_astring s w -> utf8_valid s = true -> enc_charsets_more l ws ->
    enc_code (VCon "ResponseCode::BadCharset" [VSome (VList (VBytes s :: l))]) (k ++ SPb ++ [40] ++ w ++ ws ++ [41])
| code_append_uid k n wn s ws : kw "APPENDUID " k -> enc_number 32 n wn -> enc_uid_set s ws ->
    enc_code (VCon "ResponseCode::AppendUid" [VNum n; s]) (k ++ wn ++ SPb ++ ws)
| code_capability k l w : kw "CAPABILITY" k -> enc_caps l w -> In (VCon "Capability::Imap4rev1" []) l ->
    enc_code (VCon "ResponseCode::Capabilities" [VList l]) (k ++ w)
| code_copy_uid k n wn s1 ws1 s2 ws2 : kw "COPYUID " k -> enc_number 32 n wn -> enc_uid_set s1 ws1 -> enc_uid_set s2 ws2 ->
    enc_code (VCon "ResponseCode::CopyUid" [VNum n; s1; s2]) (k ++ wn ++ SPb ++ ws1 ++ SPb ++ ws2).

(* resp-text = ["[" resp-text-code "]" SP] text; text = 1*TEXT-CHAR (a text that is not a code does not begin with "[");
   (code, information) *)
Inductive enc_resp_text : val -> val -> list byte -> Prop :=
| rt_plain c t : forallb rfc_TEXT_CHAR (c :: t) = true -> c <> 91 -> enc_resp_text VNone (VSome (VBytes (c :: t))) (c :: t)
| rt_code_only code wc : enc_code code wc -> enc_resp_text (VSome code) VNone ([91] ++ wc ++ [93])
| rt_code_text code wc t : enc_code code wc -> forallb rfc_TEXT_CHAR t = true ->
    enc_resp_text (VSome code) (VSome (VBytes t)) ([91] ++ wc ++ [93] ++ [32] ++ t).

(* resp-cond-state / resp-cond-bye / greeting forms, untagged *)
Inductive enc_status_body : val -> list byte -> Prop :=
| sb_bare st ws : enc_status st ws ->
    enc_status_body (VRec "Response::Data" [("status"%string, st); ("code"%string, VNone); ("information"%string, VNone)]) ws
| sb_text st ws code info wt : enc_status st ws -> enc_resp_text code info wt ->
    enc_status_body (VRec "Response::Data" [("status"%string, st); ("code"%string, code); ("information"%string, info)]) (ws ++ [32] ++ wt).
Inductive enc_status_response : val -> list byte -> Prop :=
| enc_status_intro v body : enc_status_body v body -> enc_status_response v (bs "* " ++ body ++ [13; 10]).

(* response-tagged = tag SP resp-cond-state CRLF; tag = 1*<any ASTRING-CHAR except "+"> *)
Definition rfc_TAG_CHAR (b : byte) : bool := rfc_ASTRING_CHAR b && negb (b =? 43).
Inductive enc_tagged_response : val -> list byte -> Prop :=
| enc_tagged_bare tag st ws : tag <> [] -> forallb rfc_TAG_CHAR tag = true -> enc_status st ws ->
    enc_tagged_response (VRec "Response::Done" [("tag"%string, VCon "RequestId" [VBytes tag]); ("status"%string, st); ("code"%string, VNone); ("information"%string, VNone)])
                        (tag ++ [32] ++ ws ++ [13; 10])
| enc_tagged_text tag st ws code info wt : tag <> [] -> forallb rfc_TAG_CHAR tag = true -> enc_status st ws -> enc_resp_text code info wt ->
    enc_tagged_response (VRec "Response::Done" [("tag"%string, VCon "RequestId" [VBytes tag]); ("status"%string, st); ("code"%string, code); ("information"%string, info)])
                        (tag ++ [32] ++ ws ++ [32] ++ wt ++ [13; 10]).

(* continue-req = "+" SP (resp-text / base64) CRLF; base64 is a text that does not begin with "[" *)
Inductive enc_continue_response : val -> list byte -> Prop :=
| enc_continue_intro code info wt : enc_resp_text code info wt ->
    enc_continue_response (VRec "Response::Continue" [("code"%string, code); ("information"%string, info)]) ([43; 32] ++ wt ++ [13; 10]).

(* ---------------------------------------------------------------- SEARCH / SORT (RFC 3501 7.2.5, RFC 5256) *)
Inductive enc_ids : list val -> list byte -> Prop :=
| ids_nil : enc_ids [] []
| ids_cons n w l ws : enc_number 32 n w -> enc_ids l ws -> enc_ids (VNum n :: l) (SPb ++ w ++ ws).
(* "* SEARCH" *(SP nz-number), spaces before CRLF tolerated *)
Inductive enc_id_list_response : val -> list byte -> Prop :=
| enc_search k l w sp : kw "SEARCH" k -> enc_ids l w -> enc_spaces sp ->
    enc_id_list_response (VCon "Response::MailboxData" [VCon "MailboxDatum::Search" [VList l]]) (bs "* " ++ k ++ w ++ sp ++ [13; 10])
| enc_sort k l w sp : kw "SORT" k -> enc_ids l w -> enc_spaces sp ->
    enc_id_list_response (VCon "Response::MailboxData" [VCon "MailboxDatum::Sort" [VList l]]) (bs "* " ++ k ++ w ++ sp ++ [13; 10]).

(* ---------------------------------------------------------------- STATUS (RFC 3501 7.2.4, RFC 4551) *)
(* mailbox = "INBOX" / astring; INBOX is case-insensitive and is returned as "INBOX" *)
Inductive enc_mailbox : list byte -> list byte -> Prop :=
| enc_mailbox_intro s w : enc_astring s w -> utf8_valid s = true ->
    enc_mailbox (if eq_nocase s (bs "INBOX") then bs "INBOX" else s) w.
Inductive enc_status_att : val -> list byte -> Prop :=
| sa_messages k n w : kw "MESSAGES " k -> enc_number 32 n w -> enc_status_att (VCon "StatusAttribute::Messages" [VNum n]) (k ++ w)
| sa_recent k n w : kw "RECENT " k -> enc_number 32 n w -> enc_status_att (VCon "StatusAttribute::Recent" [VNum n]) (k ++ w)
| sa_uidnext k n w : kw "UIDNEXT " k -> enc_number 32 n w -> enc_status_att (VCon "StatusAttribute::UidNext" [VNum n]) (k ++ w)
| sa_uidvalidity k n w : kw "UIDVALIDITY " k -> enc_number 32 n w -> enc_status_att (VCon "StatusAttribute::UidValidity" [VNum n]) (k ++ w)
| sa_unseen k n w : kw "UNSEEN " k -> enc_number 32 n w -> enc_status_att (VCon "StatusAttribute::Unseen" [VNum n]) (k ++ w)
| sa_highestmodseq k n w : kw "HIGHESTMODSEQ " k -> enc_number 64 n w -> enc_status_att (VCon "StatusAttribute::HighestModSeq" [VNum n]) (k ++ w).
Inductive enc_status_atts_more : list val -> list byte -> Prop :=
| sam_nil : enc_status_atts_more [] []
| sam_cons a l w ws : enc_status_att a w -> enc_status_atts_more l ws -> enc_status_atts_more (a :: l) (SPb ++ w ++ ws).
Inductive enc_status_att_list : val -> list byte -> Prop :=
| sal_empty : enc_status_att_list (VList []) [40; 41]
| sal_some a w l ws : enc_status_att a w -> enc_status_atts_more l ws -> enc_status_att_list (VList (a :: l)) ([40] ++ w ++ ws ++ [41]).
Inductive enc_mailbox_status : val -> list byte -> Prop :=
| enc_mailbox_status_intro k m wm atts wa : kw "STATUS " k -> enc_mailbox m wm -> enc_status_att_list atts wa ->
    enc_mailbox_status (VCon "Response::MailboxData" [VRec "MailboxDatum::Status" [("mailbox"%string, VBytes m); ("status"%string, atts)]])
                       (k ++ wm ++ SPb ++ wa).

(* ---------------------------------------------------------------- LIST / LSUB (RFC 3501 7.2.2, 7.2.3; RFC 6154 special-use) *)
(* mbx-list-flags: "\" atom, the names of RFC 3501 and RFC 6154 in any case are classified, any other is an extension *)
Definition rfc_name_attrs : list (string * string) :=
  [("\Noinferiors", "NameAttribute::NoInferiors"); ("\Noselect", "NameAttribute::NoSelect");
   ("\Marked", "NameAttribute::Marked"); ("\Unmarked", "NameAttribute::Unmarked");
   ("\All", "NameAttribute::All"); ("\Archive", "NameAttribute::Archive"); ("\Drafts", "NameAttribute::Drafts");
   ("\Flagged", "NameAttribute::Flagged"); ("\Junk", "NameAttribute::Junk"); ("\Sent", "NameAttribute::Sent");
   ("\Trash", "NameAttribute::Trash")]%string.
Inductive enc_name_attr : val -> list byte -> Prop :=
| na_known K n w : In (K, n) rfc_name_attrs -> kw K w -> enc_name_attr (VCon n []) w
| na_ext a : a <> [] -> forallb rfc_ATOM_CHAR a = true ->
    forallb (fun Kn : string * string => negb (same_nocase (bs (fst Kn)) ([92] ++ a))) rfc_name_attrs = true ->
    enc_name_attr (VCon "NameAttribute::Extension" [VBytes ([92] ++ a)]) ([92] ++ a).
Inductive enc_name_attrs_more : list val -> list byte -> Prop :=
| nam_nil : enc_name_attrs_more [] []
| nam_cons a l w ws : enc_name_attr a w -> enc_name_attrs_more l ws -> enc_name_attrs_more (a :: l) (SPb ++ w ++ ws).
Inductive enc_name_attr_list : val -> list byte -> Prop :=
| nal_empty : enc_name_attr_list (VList []) [40; 41]
| nal_some a w l ws : enc_name_attr a w -> enc_name_attrs_more l ws -> enc_name_attr_list (VList (a :: l)) ([40] ++ w ++ ws ++ [41]).
(* hierarchy delimiter: a quoted character or NIL (the parser accepts any quoted string that is UTF-8) *)
Inductive enc_delim : val -> list byte -> Prop :=
| delim_nil w : enc_nil w -> enc_delim VNone w
| delim_quoted s w : enc_quoted s w -> utf8_valid s = true -> enc_delim (VSome (VBytes s)) w.
Inductive enc_mailbox_list : val -> list byte -> Prop :=
| enc_mailbox_list_intro K k attrs wa dl wd m wm : (K = "LIST " \/ K = "LSUB ")%string -> kw K k ->
    enc_name_attr_list attrs wa -> enc_delim dl wd -> enc_mailbox m wm ->
    enc_mailbox_list (VCon "Response::MailboxData" [VRec "MailboxDatum::List"
                        [("name_attributes"%string, attrs); ("delimiter"%string, dl); ("name"%string, VBytes m)]])
                     (k ++ wa ++ SPb ++ wd ++ SPb ++ wm).

(* FLAGS (the flags applicable to the mailbox, RFC 3501 7.2.6) and the Gmail mailbox data *)
Inductive enc_mailbox_misc : val -> list byte -> Prop :=
| mm_flags k v w : kw "FLAGS " k -> enc_flag_list v w ->
    enc_mailbox_misc (VCon "Response::MailboxData" [VCon "MailboxDatum::Flags" [v]]) (k ++ w)
| mm_labels k v w : kw "X-GM-LABELS " k -> enc_label_list v w ->
    enc_mailbox_misc (VCon "Response::MailboxData" [VCon "MailboxDatum::GmailLabels" [v]]) (k ++ w)
| mm_msgid k n w : kw "X-GM-MSGID " k -> enc_number 64 n w ->
    enc_mailbox_misc (VCon "Response::MailboxData" [VCon "MailboxDatum::GmailMsgId" [VNum n]]) (k ++ w).

(* every untagged data response the round-trip theorem reaches, besides FETCH *)
Inductive enc_data : val -> list byte -> Prop :=
| data_basic v body : enc_untagged v body -> enc_data v body
| data_quota v body : enc_quota v body -> enc_data v body
| data_status v body : enc_mailbox_status v body -> enc_data v body
| data_list v body : enc_mailbox_list v body -> enc_data v body
| data_misc v body : enc_mailbox_misc v body -> enc_data v body.
Inductive enc_data_response : val -> list byte -> Prop :=
| enc_data_intro v body sp : enc_data v body -> enc_spaces sp -> enc_data_response v (bs "* " ++ body ++ sp ++ [13; 10]).


(* ---------------------------------------------------------------- ENABLED (RFC 5161 3.2) *)
(* "ENABLED" *(SP capability); every name is reported as an atom *)
Inductive enc_enabled_more : list val -> list byte -> Prop :=
| enabled_nil : enc_enabled_more [] []
| enabled_cons a l ws : a <> [] -> forallb rfc_ATOM_CHAR a = true -> enc_enabled_more l ws ->
    enc_enabled_more (VCon "Capability::Atom" [VBytes a] :: l) (SPb ++ a ++ ws).
Inductive enc_enabled_data : val -> list byte -> Prop :=
| enc_enabled_intro k l w : kw "ENABLED" k -> enc_enabled_more l w -> enc_enabled_data (VCon "Response::Capabilities" [VList l]) (k ++ w).

(* ---------------------------------------------------------------- QUOTAROOT (RFC 2087 5.2) *)
(* quotaroot_response = "QUOTAROOT" SP astring *(SP astring); one or more SP / HTAB are tolerated as separators *)
Inductive enc_quotaroot_names : list val -> list byte -> Prop :=
| qrn_nil : enc_quotaroot_names [] []
| qrn_cons s n wn l ws : enc_ws1 s -> enc_astring n wn -> utf8_valid n = true -> enc_quotaroot_names l ws ->
    enc_quotaroot_names (VBytes n :: l) (s ++ wn ++ ws).
Inductive enc_quotaroot : val -> list byte -> Prop :=
| enc_quotaroot_intro k s m wm l ws : kw "QUOTAROOT" k -> enc_ws1 s -> enc_astring m wm -> utf8_valid m = true ->
    enc_quotaroot_names l ws ->
    enc_quotaroot (VCon "Response::QuotaRoot" [VRec "QuotaRoot" [("mailbox_name"%string, VBytes m); ("quota_root_names"%string, VList l)]])
                  (k ++ s ++ wm ++ ws).

(* ---------------------------------------------------------------- MYRIGHTS (RFC 4314 3.8) *)
(* rights = astring; each character is a right: RFC 4314 2.1 (l r s w i p k x t e a), RFC 5257 (n), the obsolete c and d
   of RFC 2086; anything else is a custom right *)
Definition rfc_rights : list (N * string) :=
  [(108, "AclRight::Lookup"); (114, "AclRight::Read"); (115, "AclRight::Seen"); (119, "AclRight::Write");
   (105, "AclRight::Insert"); (112, "AclRight::Post"); (107, "AclRight::CreateMailbox"); (120, "AclRight::DeleteMailbox");
   (116, "AclRight::DeleteMessage"); (101, "AclRight::Expunge"); (97, "AclRight::Administer"); (110, "AclRight::Annotation");
   (99, "AclRight::OldCreate"); (100, "AclRight::OldDelete")]%string.
Fixpoint rfc_right_in (tbl : list (N * string)) (c : N) : val :=
  match tbl with
  | [] => VCon "AclRight::Custom" [VNum c]
  | (k, n) :: t => if c =? k then VCon n [] else rfc_right_in t c
  end.
Inductive enc_rights : val -> list byte -> Prop :=
| enc_rights_intro s w : enc_astring s w -> forallb (fun b => b <=? 127) s = true ->
    enc_rights (VList (map (rfc_right_in rfc_rights) s)) w.
(* "MYRIGHTS" SP mailbox SP rights; one or more SP / HTAB are tolerated as separators *)
Inductive enc_myrights : val -> list byte -> Prop :=
| enc_myrights_intro k s1 m wm s2 r wr : kw "MYRIGHTS" k -> enc_ws1 s1 -> enc_mailbox m wm -> enc_ws1 s2 -> enc_rights r wr ->
    enc_myrights (VCon "Response::MyRights" [VRec "MyRights" [("mailbox"%string, VBytes m); ("rights"%string, r)]])
                 (k ++ s1 ++ wm ++ s2 ++ wr).

(* ---------------------------------------------------------------- ACL (RFC 4314 3.6) *)
(* acl_data = "ACL" SP mailbox *(SP identifier SP rights) *)
Inductive enc_acl_entry : val -> list byte -> Prop :=
| enc_acl_entry_intro i wi s r wr : enc_astring i wi -> utf8_valid i = true -> enc_ws1 s -> enc_rights r wr ->
    enc_acl_entry (VRec "AclEntry" [("identifier"%string, VBytes i); ("rights"%string, r)]) (wi ++ s ++ wr).
Inductive enc_acl_more : list val -> list byte -> Prop :=
| acl_more_nil : enc_acl_more [] []
| acl_more_cons s e w l ws : enc_ws1 s -> enc_acl_entry e w -> enc_acl_more l ws -> enc_acl_more (e :: l) (s ++ w ++ ws).
(* the whole response line; spaces (SP / HTAB) before CRLF are tolerated *)
Inductive enc_acl_response : val -> list byte -> Prop :=
| enc_acl_none k s1 m wm s0 : kw "ACL" k -> enc_ws1 s1 -> enc_mailbox m wm -> forallb (fun b => (b =? 32) || (b =? 9)) s0 = true ->
    enc_acl_response (VCon "Response::Acl" [VRec "Acl" [("mailbox"%string, VBytes m); ("acls"%string, VList [])]])
                     (bs "* " ++ (k ++ s1 ++ wm ++ s0) ++ [13; 10])
| enc_acl_some k s1 m wm s2 e we l wl sp : kw "ACL" k -> enc_ws1 s1 -> enc_mailbox m wm -> enc_ws1 s2 ->
    enc_acl_entry e we -> enc_acl_more l wl -> enc_spaces sp ->
    enc_acl_response (VCon "Response::Acl" [VRec "Acl" [("mailbox"%string, VBytes m); ("acls"%string, VList (e :: l))]])
                     (bs "* " ++ (k ++ s1 ++ wm ++ s2 ++ we ++ wl) ++ sp ++ [13; 10]).

(* ---------------------------------------------------------------- LISTRIGHTS (RFC 4314 3.7) *)
(* listrights_data = "LISTRIGHTS" SP mailbox SP identifier SP rights *(SP rights): the required rights, then the
   optional ones, reported as one list in the order sent *)
Definition rights_val (t : list byte) : list val := map (rfc_right_in rfc_rights) t.
Inductive enc_right_items : list (list byte) -> list byte -> Prop :=
| right_items_nil : enc_right_items [] []
| right_items_cons s t wt l ws : enc_ws1 s -> enc_astring t wt -> forallb (fun b => b <=? 127) t = true ->
    enc_right_items l ws -> enc_right_items (t :: l) (s ++ wt ++ ws).
Definition listrights_val (m i : list byte) (req : val) (opt : list (list byte)) : val :=
  VCon "Response::ListRights" [VRec "ListRights" [("mailbox"%string, VBytes m); ("identifier"%string, VBytes i);
                                                  ("required"%string, req); ("optional"%string, VList (flat_map rights_val opt))]].
Inductive enc_listrights_response : val -> list byte -> Prop :=
| enc_listrights_none k s1 m wm s2 i wi s3 req wr s0 : kw "LISTRIGHTS" k -> enc_ws1 s1 -> enc_mailbox m wm -> enc_ws1 s2 ->
    enc_astring i wi -> utf8_valid i = true -> enc_ws1 s3 -> enc_rights req wr -> forallb (fun b => (b =? 32) || (b =? 9)) s0 = true ->
    enc_listrights_response (listrights_val m i req []) (bs "* " ++ (k ++ s1 ++ wm ++ s2 ++ wi ++ s3 ++ wr ++ s0) ++ [13; 10])
| enc_listrights_some k s1 m wm s2 i wi s3 req wr opt wo sp : kw "LISTRIGHTS" k -> enc_ws1 s1 -> enc_mailbox m wm -> enc_ws1 s2 ->
    enc_astring i wi -> utf8_valid i = true -> enc_ws1 s3 -> enc_rights req wr -> enc_right_items opt wo -> opt <> [] -> enc_spaces sp ->
    enc_listrights_response (listrights_val m i req opt) (bs "* " ++ (k ++ s1 ++ wm ++ s2 ++ wi ++ s3 ++ wr ++ wo) ++ sp ++ [13; 10]).

(* ---------------------------------------------------------------- ID (RFC 2971 3.1) *)
(* id_response = "ID" SP id_params_list; id_params_list = "(" *(string SP nstring) ")" / nil.  The value is the map the
   fields denote (IdMap.denotes: the last field of a name wins, fields without a value are not part of it), dumped
   sorted by name *)
Inductive enc_id_field : field -> list byte -> Prop :=
| idf_nil k wk s w : enc_string k wk -> utf8_valid k = true -> enc_ws1 s -> enc_nil w -> enc_id_field (k, None) (wk ++ s ++ w)
| idf_val k wk s v wv : enc_string k wk -> utf8_valid k = true -> enc_ws1 s -> enc_string v wv -> utf8_valid v = true ->
    enc_id_field (k, Some v) (wk ++ s ++ wv).
Inductive enc_id_fields_more : list field -> list byte -> Prop :=
| idfs_nil : enc_id_fields_more [] []
| idfs_cons s f w l ws : enc_ws1 s -> enc_id_field f w -> enc_id_fields_more l ws -> enc_id_fields_more (f :: l) (s ++ w ++ ws).
Definition id_map_val (m : amap) : val := VList (map (fun kv => VTuple [VBytes (fst kv); VBytes (snd kv)]) m).
Inductive enc_id : val -> list byte -> Prop :=
| id_nil k s w : kw "ID" k -> enc_ws1 s -> enc_nil w -> enc_id (VCon "Response::Id" [VNone]) (k ++ s ++ w)
| id_some k s f wf l wl s0 m : kw "ID" k -> enc_ws1 s -> enc_id_field f wf -> enc_id_fields_more l wl ->
    forallb (fun b => (b =? 32) || (b =? 9)) s0 = true -> denotes (f :: l) m ->
    enc_id (VCon "Response::Id" [VSome (id_map_val m)]) (k ++ s ++ [40] ++ wf ++ wl ++ s0 ++ [41]).

(* ---------------------------------------------------------------- METADATA (RFC 5464 4.4) *)
(* solicited:   "METADATA" SP mailbox SP "(" entry SP value *(SP entry SP value) ")"
   unsolicited: "METADATA" SP mailbox SP entry *(SP entry);   entry names are those of EntryNames.rfc_entry *)
Inductive enc_md_value : val -> list byte -> Prop :=
| mdv_nil w : enc_nil w -> enc_md_value VNone w
| mdv_string s w : enc_string s w -> utf8_valid s = true -> enc_md_value (VSome (VBytes s)) w.
Inductive enc_md_pair : val -> list byte -> Prop :=
| md_pair e we v wv : rfc_entry e -> enc_astring e we -> enc_md_value v wv ->
    enc_md_pair (VRec "Metadata" [("entry"%string, VBytes e); ("value"%string, v)]) (we ++ SPb ++ wv).
Inductive enc_md_pairs_more : list val -> list byte -> Prop :=
| md_pairs_nil : enc_md_pairs_more [] []
| md_pairs_cons p w l ws : enc_md_pair p w -> enc_md_pairs_more l ws -> enc_md_pairs_more (p :: l) (SPb ++ w ++ ws).
Inductive enc_md_entries_more : list val -> list byte -> Prop :=
| md_entries_nil : enc_md_entries_more [] []
| md_entries_cons e w l ws : rfc_entry e -> enc_astring e w -> enc_md_entries_more l ws -> enc_md_entries_more (VBytes e :: l) (SPb ++ w ++ ws).
Inductive enc_metadata : val -> list byte -> Prop :=
| md_solicited k m wm p wp l wl : kw "METADATA " k -> enc_mailbox m wm -> enc_md_pair p wp -> enc_md_pairs_more l wl ->
    enc_metadata (VCon "Response::MailboxData" [VRec "MailboxDatum::MetadataSolicited" [("mailbox"%string, VBytes m); ("values"%string, VList (p :: l))]])
                 (k ++ wm ++ SPb ++ [40] ++ wp ++ wl ++ [41])
| md_unsolicited k m wm e we l wl : kw "METADATA " k -> enc_mailbox m wm -> rfc_entry e -> enc_astring e we -> enc_md_entries_more l wl ->
    enc_metadata (VCon "Response::MailboxData" [VRec "MailboxDatum::MetadataUnsolicited" [("mailbox"%string, VBytes m); ("values"%string, VList (VBytes e :: l))]])
                 (k ++ wm ++ SPb ++ we ++ wl).

(* ---------------------------------------------------------------- every response line the round-trip theorem reaches *)
Inductive enc_response : val -> list byte -> Prop :=
| resp_fetch v w : enc_fetch v w -> enc_response v w
| resp_data v w : enc_data_response v w -> enc_response v w
| resp_status v w : enc_status_response v w -> enc_response v w
| resp_tagged v w : enc_tagged_response v w -> enc_response v w
| resp_continue v w : enc_continue_response v w -> enc_response v w
| resp_id_list v w : enc_id_list_response v w -> enc_response v w
| resp_acl v w : enc_acl_response v w -> enc_response v w
| resp_listrights v w : enc_listrights_response v w -> enc_response v w
| resp_capability v body sp : enc_capability_data v body -> enc_spaces sp -> enc_response v (bs "* " ++ body ++ sp ++ [13; 10])
| resp_enabled v body sp : enc_enabled_data v body -> enc_spaces sp -> enc_response v (bs "* " ++ body ++ sp ++ [13; 10])
| resp_quotaroot v body sp : enc_quotaroot v body -> enc_spaces sp -> enc_response v (bs "* " ++ body ++ sp ++ [13; 10])
| resp_myrights v body sp : enc_myrights v body -> enc_spaces sp -> enc_response v (bs "* " ++ body ++ sp ++ [13; 10])
| resp_id v body sp : enc_id v body -> enc_spaces sp -> enc_response v (bs "* " ++ body ++ sp ++ [13; 10])
| resp_metadata v body sp : enc_metadata v body -> enc_spaces sp -> enc_response v (bs "* " ++ body ++ sp ++ [13; 10]).
