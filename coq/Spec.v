(* M12: the wire encodings of response values, written from the RFCs (3501 section 9, 2087, 2971, 4314, 4315, 4551,
   5161, 5256, 5464, 7162) and independent of the parser: which byte strings spell which value, with every
   spelling freedom the grammar gives (keyword case, NIL case, atom / quoted / literal, leading zeros).
   Values are the universal values of Grammar.v, named after the library's types (what a caller sees).
   Definitions only.  Strings in quoted form carry no backslash or double quote (those are exercised in literal
   form, see the C03 quantifier); the library returns quoted contents without unescaping. *)
From TI Require Import Bytes Grammar Nom RoundTrip.
Local Open Scope N_scope.

(* ---------------------------------------------------------------- RFC 3501 character classes *)
Definition rfc_CHAR (b : byte) : bool := (1 <=? b) && (b <=? 127).
Definition rfc_CTL (b : byte) : bool := (b <=? 31) || (b =? 127).
Definition rfc_list_wildcards (b : byte) : bool := (b =? 37) || (b =? 42).
Definition rfc_quoted_specials (b : byte) : bool := (b =? 34) || (b =? 92).
Definition rfc_resp_specials (b : byte) : bool := (b =? 93).
Definition rfc_atom_specials (b : byte) : bool :=
  (b =? 40) || (b =? 41) || (b =? 123) || (b =? 32) || rfc_CTL b || rfc_list_wildcards b || rfc_quoted_specials b || rfc_resp_specials b.
Definition rfc_ATOM_CHAR (b : byte) : bool := rfc_CHAR b && negb (rfc_atom_specials b).
Definition rfc_ASTRING_CHAR (b : byte) : bool := rfc_ATOM_CHAR b || rfc_resp_specials b.
Definition rfc_TEXT_CHAR (b : byte) : bool := rfc_CHAR b && negb (b =? 13) && negb (b =? 10).
Definition rfc_CHAR8 (b : byte) : bool := (1 <=? b) && (b <=? 255).
Definition rfc_DIGIT (b : byte) : bool := (48 <=? b) && (b <=? 57).
Definition rfc_QUOTED_PLAIN (b : byte) : bool := rfc_TEXT_CHAR b && negb (rfc_quoted_specials b).

(* ---------------------------------------------------------------- tokens *)
(* a keyword, in any letter case *)
Definition kw (k : string) (w : list byte) : Prop := same_nocase (bs k) w = true.

Inductive enc_nil : list byte -> Prop :=
| enc_nil_intro w : kw "NIL" w -> enc_nil w.

(* number / number64: 1*DIGIT, value below 2^bits; leading zeros are the same number *)
Inductive enc_number (bits : N) : N -> list byte -> Prop :=
| enc_number_intro ds : ds <> [] -> forallb rfc_DIGIT ds = true -> dec ds < 2 ^ bits -> enc_number bits (dec ds) ds.

Inductive enc_quoted : list byte -> list byte -> Prop :=
| enc_quoted_intro s : forallb rfc_QUOTED_PLAIN s = true -> enc_quoted s ([34] ++ s ++ [34]).

(* literal = "{" number "}" CRLF *CHAR8: any content without NUL, of exactly the announced length *)
Inductive enc_literal : list byte -> list byte -> Prop :=
| enc_literal_intro s ds : ds <> [] -> forallb rfc_DIGIT ds = true -> dec ds = nlen s -> dec ds < 2 ^ 32 ->
    forallb rfc_CHAR8 s = true -> enc_literal s ([123] ++ ds ++ [125; 13; 10] ++ s).

Inductive enc_string : list byte -> list byte -> Prop :=
| enc_string_q s w : enc_quoted s w -> enc_string s w
| enc_string_l s w : enc_literal s w -> enc_string s w.

Inductive enc_astring : list byte -> list byte -> Prop :=
| enc_astring_a s : s <> [] -> forallb rfc_ASTRING_CHAR s = true -> enc_astring s s
| enc_astring_s s w : enc_string s w -> enc_astring s w.

(* nstring: NIL is None *)
Inductive enc_nstring : val -> list byte -> Prop :=
| enc_nstring_nil w : enc_nil w -> enc_nstring VNone w
| enc_nstring_some s w : enc_string s w -> enc_nstring (VSome (VBytes s)) w.

Definition SPb : list byte := [32].

(* ---------------------------------------------------------------- RFC 3501: address and envelope *)
(* address = "(" addr-name SP addr-adl SP addr-mailbox SP addr-host ")" *)
Inductive enc_address : val -> list byte -> Prop :=
| enc_address_intro n a m h wn wa wm wh :
    enc_nstring n wn -> enc_nstring a wa -> enc_nstring m wm -> enc_nstring h wh ->
    enc_address (VRec "Address" [("name"%string, n); ("adl"%string, a); ("mailbox"%string, m); ("host"%string, h)])
                ([40] ++ wn ++ SPb ++ wa ++ SPb ++ wm ++ SPb ++ wh ++ [41]).

(* env-from etc. = "(" 1*address ")" / nil  (addresses follow each other directly; servers that put a space between
   them are tolerated: that spelling is part of C12) *)
Inductive enc_addr_seq : list val -> list byte -> Prop :=
| enc_addr_one a w : enc_address a w -> enc_addr_seq [a] w
| enc_addr_more a l w ws sp : enc_address a w -> enc_addr_seq l ws -> sp = [] \/ sp = SPb -> enc_addr_seq (a :: l) (w ++ sp ++ ws).
Inductive enc_addr_list : val -> list byte -> Prop :=
| enc_addr_nil w : enc_nil w -> enc_addr_list VNone w
| enc_addr_some l w : enc_addr_seq l w -> enc_addr_list (VSome (VList l)) ([40] ++ w ++ [41]).

(* envelope = "(" env-date SP env-subject SP env-from SP env-sender SP env-reply-to SP env-to SP env-cc SP env-bcc SP
              env-in-reply-to SP env-message-id ")" *)
Inductive enc_envelope : val -> list byte -> Prop :=
| enc_envelope_intro date subject from sender reply_to to cc bcc in_reply_to message_id
                     w1 w2 w3 w4 w5 w6 w7 w8 w9 w10 :
    enc_nstring date w1 -> enc_nstring subject w2 -> enc_addr_list from w3 -> enc_addr_list sender w4 ->
    enc_addr_list reply_to w5 -> enc_addr_list to w6 -> enc_addr_list cc w7 -> enc_addr_list bcc w8 ->
    enc_nstring in_reply_to w9 -> enc_nstring message_id w10 ->
    enc_envelope (VRec "Envelope" [("date"%string, date); ("subject"%string, subject); ("from"%string, from); ("sender"%string, sender);
                                   ("reply_to"%string, reply_to); ("to"%string, to); ("cc"%string, cc); ("bcc"%string, bcc);
                                   ("in_reply_to"%string, in_reply_to); ("message_id"%string, message_id)])
                 ([40] ++ w1 ++ SPb ++ w2 ++ SPb ++ w3 ++ SPb ++ w4 ++ SPb ++ w5 ++ SPb ++ w6 ++ SPb ++ w7 ++ SPb ++ w8 ++ SPb ++ w9 ++ SPb ++ w10 ++ [41]).

(* ---------------------------------------------------------------- RFC 3501 7.4.2: FETCH data items
   msg-att-static / msg-att-dynamic as far as the round-trip theorems reach today (BODY, BODYSTRUCTURE, BODY[...],
   FLAGS and X-GM-LABELS are covered by the differential checks only) *)
Inductive enc_msg_att : val -> list byte -> Prop :=
| att_envelope k e w : kw "ENVELOPE " k -> enc_envelope e w -> enc_msg_att (VCon "AttributeValue::Envelope" [e]) (k ++ w)
| att_uid k n w : kw "UID " k -> enc_number 32 n w -> enc_msg_att (VCon "AttributeValue::Uid" [VNum n]) (k ++ w)
| att_size k n w : kw "RFC822.SIZE " k -> enc_number 32 n w -> enc_msg_att (VCon "AttributeValue::Rfc822Size" [VNum n]) (k ++ w)
| att_rfc822 k v w : kw "RFC822 " k -> enc_nstring v w -> enc_msg_att (VCon "AttributeValue::Rfc822" [v]) (k ++ w)
| att_text k v w : kw "RFC822.TEXT " k -> enc_nstring v w -> enc_msg_att (VCon "AttributeValue::Rfc822Text" [v]) (k ++ w)
| att_header k v w sp : kw "RFC822.HEADER " k -> enc_nstring v w -> sp = [] \/ sp = SPb ->   (* a doubled space is tolerated *)
    enc_msg_att (VCon "AttributeValue::Rfc822Header" [v]) (k ++ sp ++ w)
| att_modseq k n w : kw "MODSEQ " k -> enc_number 64 n w ->                                   (* RFC 4551 *)
    enc_msg_att (VCon "AttributeValue::ModSeq" [VNum n]) (k ++ [40] ++ w ++ [41])
| att_msgid k n w : kw "X-GM-MSGID " k -> enc_number 64 n w -> enc_msg_att (VCon "AttributeValue::GmailMsgId" [VNum n]) (k ++ w).

Inductive enc_att_more : list val -> list byte -> Prop :=
| att_more_nil : enc_att_more [] []
| att_more_cons a l w ws : enc_msg_att a w -> enc_att_more l ws -> enc_att_more (a :: l) (SPb ++ w ++ ws).

Inductive enc_spaces : list byte -> Prop :=
| spaces_nil : enc_spaces []
| spaces_cons w : enc_spaces w -> enc_spaces (32 :: w).

(* message-data = nz-number SP "FETCH" SP "(" msg-att *(SP msg-att) ")", as an untagged response; trailing spaces
   before CRLF are tolerated *)
Inductive enc_fetch : val -> list byte -> Prop :=
| enc_fetch_intro n wn k a wa l wl sp :
    enc_number 32 n wn -> kw " FETCH " k -> enc_msg_att a wa -> enc_att_more l wl -> enc_spaces sp ->
    enc_fetch (VCon "Response::Fetch" [VNum n; VList (a :: l)])
              (bs "* " ++ wn ++ k ++ [40] ++ wa ++ wl ++ [41] ++ sp ++ [13; 10]).
