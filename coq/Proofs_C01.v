(* C01 instantiated on the generated grammar: no panic, no fuel exhaustion (bounded call depth, loops terminate). *)
From TI Require Import Bytes Grammar Nom Interp InterpFacts Thm_Sfx Thm_Crlf Thm_Fuel Thm_NoPanic Natives NativesProofs.
From TI.gen Require Import ImapGrammar.
From Coq Require Import Lia ZifyBool ZifyN Arith PeanoNat.
Local Open Scope string_scope.
Local Open Scope N_scope.

(* ================================================================ no panic *)
Lemma env_text : env f_core_x_text = Some def_core_x_text.
Proof. vm_compute. reflexivity. Qed.
Lemma env_rtc : env f_rfc3501_x_resp_text_code = Some def_rfc3501_x_resp_text_code.
Proof. vm_compute. reflexivity. Qed.
Lemma env_resp_text : env f_rfc3501_x_resp_text = Some def_rfc3501_x_resp_text.
Proof. vm_compute. reflexivity. Qed.

(* text = take_while(is_text_char): every byte of its value is 7-bit *)
Lemma text_char_ascii c : cls_core_x_is_text_char c = true -> is_cont c = false.
Proof.
  unfold cls_core_x_is_text_char, cls_core_x_is_char, is_cont. lia.
Qed.

Lemma text_def_ascii b n d i r v u : run native_call env b n def_core_x_text d i = ROk r v u ->
  exists t, v = VBytes t /\ Forall (fun c => cls_core_x_is_text_char c = true) t.
Proof.
  destruct n as [|n]; [rewrite run_0; discriminate|]. unfold def_core_x_text.
  rewrite run_S. cbn [step]. rewrite run_S. cbn [step leaf_run].
  destruct (span cls_core_x_is_text_char i) as [[x r']|] eqn:E; [|discriminate].
  unfold act. cbn [a_body a_pat bind eval eval_list of_lres lookup String.eqb Ascii.eqb Bool.eqb].
  cbn. unfold from_utf8. destruct (utf8_valid x); [|discriminate].
  intros H. injection H as <- <- <-. exists x. split; [reflexivity|]. eapply Thm_Crlf.span_some_all; eauto.
Qed.

Lemma resp_text_action_np code t : Forall (fun c => cls_core_x_is_text_char c = true) t ->
  resp_text_action code (VBytes t) <> APanic.
Proof.
  intros Ht. unfold resp_text_action. destruct t as [|b0 t]; [discriminate|].
  destruct code; try discriminate. unfold str_slice_from1.
  destruct t as [|c t']; [discriminate|]. inversion Ht as [|? ? _ Ht']; subst. inversion Ht' as [|? ? Hc _]; subst.
  rewrite (text_char_ascii c Hc). discriminate.
Qed.

Lemma act_resp_text c x :
  act native_call (mk_action (PTuple [PVar "p0"; PVar "p1"]) (ACall "rfc3501::resp_text#1" [AVar "p0"; AVar "p1"])) (VTuple [c; x])
  = resp_text_action c x.
Proof. reflexivity. Qed.

Lemma resp_text_hand b : hand native_call env b def_rfc3501_x_resp_text.
Proof.
  intros n Hcallee d i. unfold def_rfc3501_x_resp_text.
  rewrite run_S. cbn [step]. rewrite run_S. cbn [step seq_run].
  rewrite run_S. cbn [step]. rewrite run_S. cbn [step apply_darg]. rewrite env_rtc.
  pose proof (Hcallee _ _ d i env_rtc) as H1.
  assert (Hsecond : forall r1 c1 u1,
    match
      match run native_call env b (S n) (Ref f_core_x_text DSame) d r1 with
      | ROk r v u => seq_run (run native_call env b (S n)) [] d r [v; c1] (u1 + u)
      | e => e
      end
    with
    | ROk r v u =>
        match act native_call (mk_action (PTuple [PVar "p0"; PVar "p1"]) (ACall "rfc3501::resp_text#1" [AVar "p0"; AVar "p1"])) v with
        | AVal v' => ROk r v' u
        | AErr => RErr
        | APanic => RPanic
        end
    | e => e
    end <> RPanic).
  { intros r1 c1 u1. rewrite run_S. cbn [step apply_darg]. rewrite env_text.
    pose proof (Hcallee _ _ d r1 env_text) as H2.
    destruct (run native_call env b n def_core_x_text d r1) as [r2 v2 u2| | | | |] eqn:E2; try discriminate; [|exfalso; first [exact (H2 E2)|apply H2; reflexivity]].
    destruct (text_def_ascii _ _ _ _ _ _ _ E2) as [t [-> Ht]].
    cbn [seq_run rev app]. rewrite act_resp_text. pose proof (resp_text_action_np c1 t Ht) as Hnp.
    destruct (resp_text_action c1 (VBytes t)); try discriminate. exfalso. apply Hnp. reflexivity. }
  destruct (run native_call env b n def_rfc3501_x_resp_text_code d i) as [r1 v1 u1| | | | |] eqn:E1; try discriminate; [| |exfalso; first [exact (H1 E1)|apply H1; reflexivity]].
  - apply Hsecond.
  - apply Hsecond.
Qed.

(* reflection: every other definition is syntactically panic-free (no unwrap/index/slice in translated
   actions, every native action proved total, every reference resolves, nothing untranslatable) *)
Fixpoint defs_np (k : N) (defs : list (option G)) : bool :=
  match defs with
  | [] => true
  | og :: rest =>
    match og with
    | Some g => (k =? f_rfc3501_x_resp_text) || all_nodes (node_np total_native env) g
    | None => true
    end && defs_np (N.succ k) rest
  end.

Lemma defs_np_holds : defs_np 0 all_defs = true.
Proof. vm_compute. reflexivity. Qed.

Lemma defs_np_nth : forall defs k j g, defs_np k defs = true -> nth_error defs j = Some (Some g) ->
  (k + N.of_nat j =? f_rfc3501_x_resp_text) || all_nodes (node_np total_native env) g = true.
Proof.
  induction defs as [|og defs IH]; intros k j g H Hn; [destruct j; discriminate|].
  cbn [defs_np] in H. apply andb_true_iff in H. destruct H as [H1 H2]. destruct j as [|j].
  - cbn in Hn. injection Hn as ->. replace (k + N.of_nat 0) with k by lia. exact H1.
  - cbn [nth_error] in Hn. replace (k + N.of_nat (S j)) with (N.succ k + N.of_nat j) by lia. eapply IH; eauto.
Qed.

Lemma env_np_holds b : forall f g, env f = Some g ->
  all_nodes (node_np total_native env) g = true \/ hand native_call env b g.
Proof.
  intros f g H. pose proof H as H0. unfold env in H.
  destruct (nth_error all_defs (N.to_nat f)) as [[g'|]|] eqn:E; try discriminate. injection H as <-.
  pose proof (defs_np_nth all_defs 0 (N.to_nat f) g' defs_np_holds E) as Hk.
  replace (0 + N.of_nat (N.to_nat f)) with f in Hk by lia.
  apply orb_true_iff in Hk. destruct Hk as [Hk|Hk]; [|left; exact Hk].
  apply N.eqb_eq in Hk. subst f. right. rewrite env_resp_text in H0. injection H0 as <-. apply resp_text_hand.
Qed.

Lemma env_response : env f_parser_x_parse_response = Some def_parser_x_parse_response.
Proof. vm_compute. reflexivity. Qed.

Theorem no_panic_lemma : forall i, parse i <> RPanic.
Proof.
  intros i. unfold parse.
  apply (run_no_panic native_call total_native total_native_ok env (S (length i)) (env_np_holds _)
           FUEL f_parser_x_parse_response _ 0%nat i env_response).
Qed.

Theorem every_parser_no_panic_lemma : forall f g b n d i, env f = Some g -> run native_call env b n g d i <> RPanic.
Proof.
  intros f g b n d i Hf.
  apply (run_no_panic native_call total_native total_native_ok env b (env_np_holds b) n f g d i Hf).
Qed.

(* ================================================================ fuel: ranks and loop counters *)
Definition MD : nat := N.to_nat gen_max_depth.

Definition rk (f : N) (d : nat) : N :=
  match nth_error gen_rank_tbl (N.to_nat f) with
  | None => 0
  | Some (base, slope) =>
    match env f with
    | Some (Guard m _) => if Nat.leb m d then 1 else base + slope * N.of_nat (MD - d)
    | _ => base + slope * N.of_nat (MD - d)
    end
  end.

Fixpoint rank_ok_defs (k : N) (defs : list (option G)) (d : nat) : bool :=
  match defs with
  | [] => true
  | og :: rest =>
    match og with Some g => need rk g d <=? rk k d | None => true end && rank_ok_defs (N.succ k) rest d
  end.

Definition guard_le (g : G) : bool := match g with Guard m _ => Nat.leb m MD | _ => true end.

(* reflection: along every call the rank strictly decreases, at every depth 0..MD; every guard constant is <= MD *)
Lemma rank_ok_fin : forallb (rank_ok_defs 0 all_defs) (seq 0 (S MD)) = true.
Proof. vm_compute. reflexivity. Qed.
Lemma guards_le : env_all guard_le all_defs = true.
Proof. vm_compute. reflexivity. Qed.
Lemma fuel_enough : need rk def_parser_x_parse_response 0%nat <=? N.of_nat FUEL = true.
Proof. vm_compute. reflexivity. Qed.

Lemma rk_cap f d : (MD <= d)%nat -> rk f d = rk f MD.
Proof.
  intros Hd. unfold rk. destruct (nth_error gen_rank_tbl (N.to_nat f)) as [[base slope]|]; [|reflexivity].
  destruct (env f) as [g|] eqn:E.
  - pose proof (env_all_sound guard_le all_defs guards_le f g E) as Hg. apply all_nodes_inv in Hg. destruct Hg as [Hg _].
    destruct g; try (replace (MD - d)%nat with 0%nat by lia; replace (MD - MD)%nat with 0%nat by lia; reflexivity).
    cbn [guard_le] in Hg. apply Nat.leb_le in Hg.
    destruct (Nat.leb_spec max d); [|lia]. destruct (Nat.leb_spec max MD); [reflexivity|lia].
  - replace (MD - d)%nat with 0%nat by lia. replace (MD - MD)%nat with 0%nat by lia. reflexivity.
Qed.

Lemma need_cap g : all_nodes guard_le g = true -> forall d, (MD <= d)%nat -> need rk g d = need rk g MD.
Proof.
  induction g using G_ind'; intros Hg dp Hd; cbn [need]; apply all_nodes_inv in Hg; destruct Hg as [Hhere Hsub]; auto.
  - destruct d; cbn [apply_darg].
    + rewrite (rk_cap f dp Hd). reflexivity.
    + rewrite (rk_cap f (S dp)) by lia. rewrite (rk_cap f (S MD)) by lia. reflexivity.
    + reflexivity.
  - cbn [guard_le] in Hhere. apply Nat.leb_le in Hhere.
    destruct (Nat.leb_spec m dp); [|lia]. destruct (Nat.leb_spec m MD); [reflexivity|lia].
  - induction gs as [|x gs IHgs]; [reflexivity|].
    inversion H as [|? ? Hx Hgs]; subst. inversion Hsub as [|? ? Sx Sgs]; subst.
    rewrite (Hx Sx dp Hd). f_equal. apply IHgs; assumption.
  - induction gs as [|x gs IHgs]; [reflexivity|].
    inversion H as [|? ? Hx Hgs]; subst. inversion Hsub as [|? ? Sx Sgs]; subst.
    rewrite (Hx Sx dp Hd). f_equal. apply IHgs; assumption.
  - destruct Hsub as [S1 S2]. rewrite (IHg1 S1 dp Hd), (IHg2 S2 dp Hd). reflexivity.
  - destruct Hsub as [S1 S2]. rewrite (IHg1 S1 dp Hd), (IHg2 S2 dp Hd). reflexivity.
Qed.

Lemma rank_ok_defs_nth : forall defs k j g d, rank_ok_defs k defs d = true -> nth_error defs j = Some (Some g) ->
  need rk g d <= rk (k + N.of_nat j) d.
Proof.
  induction defs as [|og defs IH]; intros k j g d H Hn; [destruct j; discriminate|].
  cbn [rank_ok_defs] in H. apply andb_true_iff in H. destruct H as [H1 H2]. destruct j as [|j].
  - cbn in Hn. injection Hn as ->. replace (k + N.of_nat 0) with k by lia. now apply N.leb_le.
  - cbn [nth_error] in Hn. replace (k + N.of_nat (S j)) with (N.succ k + N.of_nat j) by lia. eapply IH; eauto.
Qed.

Lemma rank_ok_all : forall f g d, env f = Some g -> need rk g d <= rk f d.
Proof.
  intros f g d Hf. pose proof Hf as Hf0. unfold env in Hf.
  destruct (nth_error all_defs (N.to_nat f)) as [[g'|]|] eqn:E; try discriminate. injection Hf as <-.
  assert (Hfin : forall d', (d' <= MD)%nat -> need rk g' d' <= rk f d').
  { intros d' Hd'. pose proof rank_ok_fin as HF. rewrite forallb_forall in HF.
    specialize (HF d' ltac:(apply in_seq; lia)).
    pose proof (rank_ok_defs_nth all_defs 0 (N.to_nat f) g' d' HF E) as Hk.
    replace (0 + N.of_nat (N.to_nat f)) with f in Hk by lia. exact Hk. }
  destruct (Nat.le_gt_cases d MD) as [Hle|Hgt]; [apply Hfin; exact Hle|].
  rewrite (need_cap g' (env_all_sound guard_le all_defs guards_le f g' Hf0) d ltac:(lia)).
  rewrite (rk_cap f d ltac:(lia)). apply Hfin. lia.
Qed.

Theorem no_fuel_lemma : forall i, parse i <> RFuel.
Proof.
  intros i. unfold parse.
  apply (run_no_fuel native_call env rk rank_ok_all FUEL def_parser_x_parse_response 0%nat (S (length i)) i).
  - apply N.leb_le. exact fuel_enough.
  - unfold FUEL. lia.
  - lia.
Qed.

(* the call depth needed by any definition at any nesting depth is bounded by its rank *)
Theorem call_depth_bounded_lemma : forall f g d b i, env f = Some g ->
  run native_call env (S (length i + b)) (N.to_nat (rk f d)) g d i <> RFuel.
Proof.
  intros f g d b i Hf. pose proof (rank_ok_all f g d Hf) as Hr. pose proof (need_pos rk g d) as Hp.
  apply (run_no_fuel native_call env rk rank_ok_all); lia.
Qed.

Theorem total_lemma : forall i, match parse i with ROk _ _ _ | RInc | RErr | RFail => True | RPanic | RFuel => False end.
Proof.
  intros i. pose proof (no_panic_lemma i). pose proof (no_fuel_lemma i). destruct (parse i); auto.
Qed.

(* with C01, C02's corollary sharpens: every proper prefix of an accepted response is Incomplete *)
Example pinned_witnesses_now_rejected :
  parse (bs "* 1 FETCH (INTERNALDATE NIL)" ++ [13; 10]) = RErr /\
  parse (bs "* METADATA """" (/shared/comment {1}" ++ [13; 10; 255] ++ bs ")" ++ [13; 10]) = RErr.
Proof. split; vm_compute; reflexivity. Qed.
