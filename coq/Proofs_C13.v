(* C13 on the generated grammar: where numbers can come from. *)
From TI Require Import Bytes Grammar Nom Interp InterpFacts Thm_Number Natives.
From TI.gen Require Import ImapGrammar.
From Coq Require Import Lia.
Local Open Scope string_scope.
Local Open Scope N_scope.

(* does an action expression build a number of its own? (ANumLit is the only syntactic source;
   there is no arithmetic or cast construct in the action language: a closure containing one is
   not translatable and becomes a native action, which must then be in modelled_actions) *)
Fixpoint aexp_no_numlit (e : aexp) : bool :=
  match e with
  | ANumLit _ => false
  | AVar _ | ABytes _ | ABoolLit _ | ANone => true
  | AField e1 _ | AProj e1 _ | ASome e1 | AIsSome e1 | AUnwrap e1 | AIndex e1 _ | ASliceFrom e1 _ => aexp_no_numlit e1
  | AOptMap _ b e1 => aexp_no_numlit b && aexp_no_numlit e1
  | ACon _ args | ATuple args | AVec args | ACall _ args =>
      (fix al (l : list aexp) : bool := match l with [] => true | x :: l' => aexp_no_numlit x && al l' end) args
  | ARec _ fields =>
      (fix al (l : list (string * aexp)) : bool := match l with [] => true | x :: l' => aexp_no_numlit (snd x) && al l' end) fields
  end.

Definition node_no_numlit (g : G) : bool :=
  match g with
  | Map a _ | MapRes a _ => aexp_no_numlit (a_body a)
  | Leaf (LNumber bits) => (bits =? 32) || (bits =? 64)
  | _ => true
  end.

Fixpoint mem_str (x : string) (l : list string) : bool :=
  match l with [] => false | y :: l' => String.eqb x y || mem_str x l' end.

(* reflection obligations over the regenerated grammar *)
Lemma numbers_only_from_number_leaves : env_all node_no_numlit all_defs = true.
Proof. vm_compute. reflexivity. Qed.

Lemma native_actions_all_modelled : forallb (fun e => mem_str (fst e) modelled_actions) gen_native_actions = true.
Proof. vm_compute. reflexivity. Qed.

Lemma native_fns_all_modelled :
  forallb (fun e => mem_str (fst e) (map fst native_defs ++ modelled_helper_fns)) gen_native_fns = true.
Proof. vm_compute. reflexivity. Qed.

Lemma no_translation_problems : gen_problems = [].
Proof. reflexivity. Qed.

(* the only native actions that handle numbers return exactly the numbers they were given *)
Lemma range_norm_members a b : range_norm a b = VCon "RangeInclusive" [VNum (N.min a b); VNum (N.max a b)].
Proof. unfold range_norm. destruct (N.leb_spec a b); f_equal; f_equal; f_equal; try f_equal; lia. Qed.

Lemma range_norm_denotes a b x : (N.min a b <= x <= N.max a b) <-> ((a <= x <= b) \/ (b <= x <= a)).
Proof. lia. Qed.
