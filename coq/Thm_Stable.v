(* Generic theorem behind C02: for a grammar made of streaming nodes only, accept/reject verdicts
   (with value and consumed length) are unchanged when bytes are appended to the buffer.
   Parametric in the action / native environment. *)
From TI Require Import Bytes Grammar Nom Interp InterpFacts Thm_Sfx.
From Coq Require Import Lia.

Definition stab (p p' : list byte -> res) : Prop := forall i X,
  (forall r v u, p i = ROk r v u -> p' (i ++ X) = ROk (r ++ X) v u) /\
  (p i = RErr -> p' (i ++ X) = RErr) /\
  (p i = RFail -> p' (i ++ X) = RFail).

(* the same, for inputs that fit the loop bounds *)
Definition stabB (b b' : nat) (p p' : list byte -> res) : Prop := forall i X,
  (length i < b)%nat -> (length (i ++ X) < b')%nat ->
  (forall r v u, p i = ROk r v u -> p' (i ++ X) = ROk (r ++ X) v u) /\
  (p i = RErr -> p' (i ++ X) = RErr) /\
  (p i = RFail -> p' (i ++ X) = RFail).

Lemma stab_stabB b b' p p' : stab p p' -> stabB b b' p p'.
Proof. intros H i X _ _. apply H. Qed.

(* ---------------------------------------------------------------- leaves *)
Lemma tag_scan_stab eq s : forall i X,
  (forall t r, tag_scan eq s i = SOk t r -> tag_scan eq s (i ++ X) = SOk t (r ++ X)) /\
  (tag_scan eq s i = SErr -> tag_scan eq s (i ++ X) = SErr).
Proof.
  induction s as [|a s IH]; intros i X; cbn [tag_scan].
  - split; [intros t r H; now injection H as <- <-|discriminate].
  - destruct i as [|b i]; [split; [intros t r H|intros H]; discriminate|]. cbn [app].
    destruct (eq a b); [|split; [discriminate|reflexivity]].
    destruct (IH i X) as [Hok Herr]. destruct (tag_scan eq s i) as [t' r'| |] eqn:E.
    + rewrite (Hok _ _ eq_refl). split; [intros t r H; now injection H as <- <-|discriminate].
    + split; [intros t r H|intros H]; discriminate.
    + rewrite (Herr eq_refl). split; [discriminate|reflexivity].
Qed.

Lemma span_stab p : forall i X x r, span p i = Some (x, r) -> span p (i ++ X) = Some (x, r ++ X).
Proof.
  induction i as [|b i IH]; intros X x r H; cbn [span] in H; [discriminate|]. cbn [app span].
  destruct (p b).
  - destruct (span p i) as [[x' r']|] eqn:E; [|discriminate]. injection H as <- <-. now rewrite (IH X _ _ eq_refl).
  - now injection H as <- <-.
Qed.

Lemma esc_scan_stab n c e : forall i X,
  (forall t r, esc_scan n c e i = SOk t r -> esc_scan n c e (i ++ X) = SOk t (r ++ X)) /\
  (esc_scan n c e i = SErr -> esc_scan n c e (i ++ X) = SErr).
Proof.
  fix IH 1. intros i X. destruct i as [|b i]; cbn [esc_scan app].
  - split; [intros t r H|intros H]; discriminate.
  - destruct (n b).
    + destruct (IH i X) as [Hok Herr]. destruct (esc_scan n c e i) as [t' r'| |] eqn:E.
      * rewrite (Hok _ _ eq_refl). split; [intros t r H; now injection H as <- <-|discriminate].
      * split; [intros t r H|intros H]; discriminate.
      * rewrite (Herr eq_refl). split; [discriminate|reflexivity].
    + destruct (b =? c).
      * destruct i as [|x i]; [split; [intros t r H|intros H]; discriminate|]. cbn [app].
        destruct (existsb (N.eqb x) e); [|split; [discriminate|reflexivity]].
        destruct (IH i X) as [Hok Herr]. destruct (esc_scan n c e i) as [t' r'| |] eqn:E.
        -- rewrite (Hok _ _ eq_refl). split; [intros t r H; now injection H as <- <-|discriminate].
        -- split; [intros t r H|intros H]; discriminate.
        -- rewrite (Herr eq_refl). split; [discriminate|reflexivity].
      * split; [intros t r H; now injection H as <- <-|discriminate].
Qed.

Lemma of_scan_stab (f : list byte -> scan) :
  (forall i X, (forall t r, f i = SOk t r -> f (i ++ X) = SOk t (r ++ X)) /\ (f i = SErr -> f (i ++ X) = SErr)) ->
  stab (fun i => of_scan (f i)) (fun i => of_scan (f i)).
Proof.
  intros Hf i X. destruct (Hf i X) as [Hok Herr]. cbv beta. unfold of_scan. destruct (f i) as [t r'| |] eqn:E.
  - rewrite (Hok _ _ eq_refl). repeat split; try discriminate. intros r v u H. now injection H as <- <- <-.
  - repeat split; intros; discriminate.
  - rewrite (Herr eq_refl). repeat split; try discriminate; try reflexivity.
Qed.

Lemma number_stab bits : stab (number_p bits) (number_p bits).
Proof.
  intros i X. unfold number_p. destruct (span nom_is_digit i) as [[ds r]|] eqn:E.
  - rewrite (span_stab _ _ X _ _ E). destruct ds as [|d ds].
    + repeat split; try discriminate; try reflexivity.
    + destruct (dec (d :: ds) <? 2 ^ bits); repeat split; try discriminate; try reflexivity.
      intros r0 v u H. now injection H as <- <- <-.
  - repeat split; intros; discriminate.
Qed.

Lemma take_n_stab : forall i n X d rest, take_n n i = Some (d, rest) -> take_n n (i ++ X) = Some (d, rest ++ X).
Proof.
  induction i as [|b i IH]; intros n X d rest H; cbn [take_n] in H.
  - destruct (N.eqb_spec n 0); [|discriminate]. injection H as <- <-. subst. destruct X; reflexivity.
  - cbn [app take_n]. destruct (n =? 0); [now injection H as <- <-|].
    destruct (take_n (N.pred n) i) as [[d' r']|] eqn:E; [|discriminate]. injection H as <- <-.
    now rewrite (IH _ X _ _ E).
Qed.

Lemma literal_stab : stab literal_p literal_p.
Proof.
  intros i X. unfold literal_p.
  destruct (tag_scan_stab eq_case [123] i X) as [H1ok H1err].
  destruct (tag_scan eq_case [123] i) as [t1 r1| |] eqn:E1;
    [rewrite (H1ok _ _ eq_refl) | repeat split; intros; discriminate | rewrite (H1err eq_refl); repeat split; try discriminate; try reflexivity].
  destruct (number_stab 32 r1 X) as [H2ok [H2err _]].
  destruct (number_p 32 r1) as [r2 v2 u2| | | | |] eqn:E2;
    [rewrite (H2ok _ _ _ eq_refl) | repeat split; intros; discriminate | rewrite (H2err eq_refl); repeat split; try discriminate; try reflexivity
     | exfalso; unfold number_p in E2; destruct (span nom_is_digit r1) as [[[|d ds] r]|]; try discriminate; destruct (_ <? _); discriminate ..].
  destruct v2 as [| |n| | | | | | |]; try solve [repeat split; try discriminate; try reflexivity].
  destruct (tag_scan_stab eq_case [125] r2 X) as [H3ok H3err].
  destruct (tag_scan eq_case [125] r2) as [t3 r3| |] eqn:E3;
    [rewrite (H3ok _ _ eq_refl) | repeat split; intros; discriminate | rewrite (H3err eq_refl); repeat split; try discriminate; try reflexivity].
  destruct (tag_scan_stab eq_case [13; 10] r3 X) as [H4ok H4err].
  destruct (tag_scan eq_case [13; 10] r3) as [t4 r4| |] eqn:E4;
    [rewrite (H4ok _ _ eq_refl) | repeat split; intros; discriminate | rewrite (H4err eq_refl); repeat split; try discriminate; try reflexivity].
  destruct (take_n n r4) as [[data rest]|] eqn:E5; [|repeat split; intros; discriminate].
  rewrite (take_n_stab _ _ X _ _ E5).
  match goal with |- context[forallb ?f data] => destruct (forallb f data) end;
    repeat split; try discriminate; try reflexivity.
  intros r v u H. now injection H as <- <- <-.
Qed.

Definition leaf_streaming (l : leaf) : bool := match l with LComplete _ => false | _ => true end.

Lemma leaf_stab l : leaf_streaming l = true -> stab (leaf_run l) (leaf_run l).
Proof.
  destruct l as [s|s|c|c|n c e|bits| |w]; cbn [leaf_streaming]; intros Hs; try discriminate.
  - apply (of_scan_stab (tag_scan eq_case s)). apply tag_scan_stab.
  - apply (of_scan_stab (tag_scan eq_nocase1 s)). apply tag_scan_stab.
  - intros i X. cbn [leaf_run]. destruct (span c i) as [[x r]|] eqn:E.
    + rewrite (span_stab _ _ X _ _ E). repeat split; try discriminate. intros r0 v u H. now injection H as <- <- <-.
    + repeat split; intros; discriminate.
  - intros i X. cbn [leaf_run]. destruct (span c i) as [[x r]|] eqn:E.
    + rewrite (span_stab _ _ X _ _ E). destruct x; repeat split; try discriminate; try reflexivity.
      intros r0 v u H. now injection H as <- <- <-.
    + repeat split; intros; discriminate.
  - apply (of_scan_stab (esc_scan n c e)). apply esc_scan_stab.
  - apply number_stab.
  - apply literal_stab.
Qed.

(* ---------------------------------------------------------------- combinators *)
Lemma suffix_len (i c r : list byte) : i = c ++ r -> (length r <= length i)%nat.
Proof. intros ->. rewrite app_length. lia. Qed.

Lemma seq_stab (self self' : G -> P) gs d b b' :
  Forall (fun g => stabB b b' (self g d) (self' g d) /\ sfx (self g d)) gs ->
  forall i X acc u0, (length i < b)%nat -> (length (i ++ X) < b')%nat ->
    (forall r v u, seq_run self gs d i acc u0 = ROk r v u -> seq_run self' gs d (i ++ X) acc u0 = ROk (r ++ X) v u) /\
    (seq_run self gs d i acc u0 = RErr -> seq_run self' gs d (i ++ X) acc u0 = RErr) /\
    (seq_run self gs d i acc u0 = RFail -> seq_run self' gs d (i ++ X) acc u0 = RFail).
Proof.
  induction 1 as [|g gs [Hg Hsf] Hgs IH]; intros i X acc u0 Hb Hb'; cbn [seq_run].
  - repeat split; try discriminate. intros r v u H. now injection H as <- <- <-.
  - destruct (Hg i X Hb Hb') as [Hok [Herr Hfail]].
    destruct (self g d i) as [r1 v1 u1| | | | |] eqn:E.
    + rewrite (Hok _ _ _ eq_refl). destruct (Hsf _ _ _ _ E) as [c [-> _]].
      apply IH; rewrite ?app_length in *; lia.
    + repeat split; intros; discriminate.
    + rewrite (Herr eq_refl). repeat split; try discriminate; try reflexivity.
    + rewrite (Hfail eq_refl). repeat split; try discriminate; try reflexivity.
    + repeat split; intros; discriminate.
    + repeat split; intros; discriminate.
Qed.

Lemma alt_stab (self self' : G -> P) gs d b b' :
  Forall (fun g => stabB b b' (self g d) (self' g d)) gs -> stabB b b' (alt_run self gs d) (alt_run self' gs d).
Proof.
  induction 1 as [|g gs Hg Hgs IH]; intros i X Hb Hb'; cbn [alt_run].
  - repeat split; try discriminate; try reflexivity.
  - destruct (Hg i X Hb Hb') as [Hok [Herr Hfail]].
    destruct (self g d i) as [r1 v1 u1| | | | |] eqn:E.
    + rewrite (Hok _ _ _ eq_refl). repeat split; try discriminate. intros r v u H. now injection H as <- <- <-.
    + repeat split; intros; discriminate.
    + rewrite (Herr eq_refl). apply IH; assumption.
    + rewrite (Hfail eq_refl). repeat split; try discriminate; try reflexivity.
    + repeat split; intros; discriminate.
    + repeat split; intros; discriminate.
Qed.

Lemma many_stab (p p' : list byte -> res) b b' : stabB b b' p p' -> sfx p ->
  forall n n' i X acc u0, (length i < n)%nat -> (length (i ++ X) < n')%nat -> (n <= b)%nat -> (n' <= b')%nat ->
    (forall r v u, many_loop p n i acc u0 = ROk r v u -> many_loop p' n' (i ++ X) acc u0 = ROk (r ++ X) v u) /\
    (many_loop p n i acc u0 = RErr -> many_loop p' n' (i ++ X) acc u0 = RErr) /\
    (many_loop p n i acc u0 = RFail -> many_loop p' n' (i ++ X) acc u0 = RFail).
Proof.
  intros Hst Hsf n. induction n as [|n IHn]; intros n' i X acc u0 Hn Hn' Hnb Hnb'; [lia|].
  destruct n' as [|n']; [lia|]. cbn [many_loop].
  destruct (Hst i X ltac:(lia) ltac:(lia)) as [Hok [Herr Hfail]].
  destruct (p i) as [r1 v1 u1| | | | |] eqn:E.
  - rewrite (Hok _ _ _ eq_refl). destruct (Hsf _ _ _ _ E) as [c [-> ->]].
    destruct (nlen c =? 0) eqn:Ez.
    + repeat split; try discriminate; try reflexivity.
    + assert (Hcne : c <> []) by (intros ->; cbn in Ez; discriminate).
      assert (Hclen : (0 < length c)%nat) by (destruct c; [contradiction|cbn; lia]).
      rewrite !app_length in *. apply IHn; rewrite ?app_length; lia.
  - repeat split; intros; discriminate.
  - rewrite (Herr eq_refl). repeat split; try discriminate. intros r v u H. now injection H as <- <- <-.
  - rewrite (Hfail eq_refl). repeat split; try discriminate; try reflexivity.
  - repeat split; intros; discriminate.
  - repeat split; intros; discriminate.
Qed.

Lemma sep_stab (s s' p p' : list byte -> res) b b' : stabB b b' s s' -> sfx s -> stabB b b' p p' -> sfx p ->
  forall n n' i X acc u0, (length i < n)%nat -> (length (i ++ X) < n')%nat -> (n <= b)%nat -> (n' <= b')%nat ->
    (forall r v u, sep_loop s p n i acc u0 = ROk r v u -> sep_loop s' p' n' (i ++ X) acc u0 = ROk (r ++ X) v u) /\
    (sep_loop s p n i acc u0 = RErr -> sep_loop s' p' n' (i ++ X) acc u0 = RErr) /\
    (sep_loop s p n i acc u0 = RFail -> sep_loop s' p' n' (i ++ X) acc u0 = RFail).
Proof.
  intros Hss Hsfs Hsp Hsfp n. induction n as [|n IHn]; intros n' i X acc u0 Hn Hn' Hnb Hnb'; [lia|].
  destruct n' as [|n']; [lia|]. cbn [sep_loop].
  destruct (Hss i X ltac:(lia) ltac:(lia)) as [Hok [Herr Hfail]].
  destruct (s i) as [r1 v1 u1| | | | |] eqn:E.
  - rewrite (Hok _ _ _ eq_refl). destruct (Hsfs _ _ _ _ E) as [c [-> ->]].
    destruct (nlen c =? 0) eqn:Ez; [repeat split; try discriminate; try reflexivity|].
    assert (Hcne : c <> []) by (intros ->; cbn in Ez; discriminate).
    assert (Hclen : (0 < length c)%nat) by (destruct c; [contradiction|cbn; lia]).
    rewrite !app_length in *.
    destruct (Hsp r1 X ltac:(lia) ltac:(rewrite app_length; lia)) as [Hok2 [Herr2 Hfail2]].
    destruct (p r1) as [r2 v2 u2| | | | |] eqn:E2.
    + rewrite (Hok2 _ _ _ eq_refl). destruct (Hsfp _ _ _ _ E2) as [c2 [-> _]].
      rewrite !app_length in *. apply IHn; rewrite ?app_length; lia.
    + repeat split; intros; discriminate.
    + rewrite (Herr2 eq_refl). repeat split; try discriminate. intros r v u H. injection H as <- <- <-.
      now rewrite <- app_assoc.
    + rewrite (Hfail2 eq_refl). repeat split; try discriminate; try reflexivity.
    + repeat split; intros; discriminate.
    + repeat split; intros; discriminate.
  - repeat split; intros; discriminate.
  - rewrite (Herr eq_refl). repeat split; try discriminate. intros r v u H. now injection H as <- <- <-.
  - rewrite (Hfail eq_refl). repeat split; try discriminate; try reflexivity.
  - repeat split; intros; discriminate.
  - repeat split; intros; discriminate.
Qed.

(* ---------------------------------------------------------------- the theorem *)
Definition node_streaming (g : G) : bool :=
  match g with Leaf l => leaf_streaming l | _ => true end.

Section RunStab.
Variable natf : string -> list val -> ares.
Variable env : N -> option G.
Hypothesis env_streaming : forall f g, env f = Some g -> all_nodes node_streaming g = true.
Variables b b' : nat.

Theorem run_stab fuel : forall g dp, all_nodes node_streaming g = true ->
  stabB b b' (run natf env b fuel g dp) (run natf env b' fuel g dp).
Proof.
  induction fuel as [|f IHf]; intros g dp Hg.
  { intros i X _ _. rewrite !run_0. repeat split; intros; discriminate. }
  revert dp Hg. induction g using G_ind'; intros dp Hg; rewrite !run_S; cbn [step];
    apply all_nodes_inv in Hg; destruct Hg as [Hhere Hsub].
  - apply (stab_stabB b b'). apply (leaf_stab l). exact Hhere.
  - destruct (env f0) as [g'|] eqn:E; [|intros i X _ _; repeat split; intros; discriminate].
    apply IHf. eapply env_streaming; eauto.
  - intros i X Hb Hb'. destruct (Nat.leb m dp); [repeat split; try discriminate; try reflexivity|].
    apply IHg; assumption.
  - intros i X Hb Hb'. apply (seq_stab _ _ gs dp b b'); try assumption.
    rewrite Forall_forall in *. intros g Hin. split; [apply H; auto|apply run_sfx].
  - apply (alt_stab _ _ gs dp b b'). rewrite Forall_forall in *. intros g Hin. apply H; auto.
  - intros i X Hb Hb'. destruct (IHg dp Hsub i X Hb Hb') as [Hok [Herr Hfail]].
    destruct (run natf env b (S f) g dp i) as [r1 v1 u1| | | | |] eqn:E.
    + rewrite (Hok _ _ _ eq_refl). repeat split; try discriminate. intros r v u H. now injection H as <- <- <-.
    + repeat split; intros; discriminate.
    + rewrite (Herr eq_refl). repeat split; try discriminate. intros r v u H. now injection H as <- <- <-.
    + rewrite (Hfail eq_refl). repeat split; try discriminate; try reflexivity.
    + repeat split; intros; discriminate.
    + repeat split; intros; discriminate.
  - intros i X Hb Hb'. destruct (IHg dp Hsub i X Hb Hb') as [Hok [Herr Hfail]].
    destruct (run natf env b (S f) g dp i) as [r1 v1 u1| | | | |] eqn:E.
    + rewrite (Hok _ _ _ eq_refl). repeat split; try discriminate. intros r v u H. now injection H as <- <- <-.
    + repeat split; intros; discriminate.
    + rewrite (Herr eq_refl). repeat split; try discriminate. intros r v u H. now injection H as <- <- <-.
    + rewrite (Hfail eq_refl). repeat split; try discriminate; try reflexivity.
    + repeat split; intros; discriminate.
    + repeat split; intros; discriminate.
  - intros i X Hb Hb'. apply (many_stab _ _ b b'); try lia; [apply IHg; assumption|apply run_sfx].
  - intros i X Hb Hb'. destruct (IHg dp Hsub i X Hb Hb') as [Hok [Herr Hfail]].
    destruct (run natf env b (S f) g dp i) as [r1 v1 u1| | | | |] eqn:E.
    + rewrite (Hok _ _ _ eq_refl). destruct (run_sfx natf env b (S f) g dp _ _ _ _ E) as [c [-> _]].
      rewrite !app_length in *. apply (many_stab _ _ b b'); rewrite ?app_length; try lia; [apply IHg; assumption|apply run_sfx].
    + repeat split; intros; discriminate.
    + rewrite (Herr eq_refl). repeat split; try discriminate; try reflexivity.
    + rewrite (Hfail eq_refl). repeat split; try discriminate; try reflexivity.
    + repeat split; intros; discriminate.
    + repeat split; intros; discriminate.
  - destruct Hsub as [Hs1 Hs2]. intros i X Hb Hb'. destruct (IHg2 dp Hs2 i X Hb Hb') as [Hok [Herr Hfail]].
    destruct (run natf env b (S f) g2 dp i) as [r1 v1 u1| | | | |] eqn:E.
    + rewrite (Hok _ _ _ eq_refl). destruct (run_sfx natf env b (S f) g2 dp _ _ _ _ E) as [c [-> _]].
      rewrite !app_length in *.
      apply (sep_stab _ _ _ _ b b'); rewrite ?app_length; try lia; try apply run_sfx; [apply IHg1|apply IHg2]; assumption.
    + repeat split; intros; discriminate.
    + rewrite (Herr eq_refl). repeat split; try discriminate. intros r v u H. now injection H as <- <- <-.
    + rewrite (Hfail eq_refl). repeat split; try discriminate; try reflexivity.
    + repeat split; intros; discriminate.
    + repeat split; intros; discriminate.
  - destruct Hsub as [Hs1 Hs2]. intros i X Hb Hb'. destruct (IHg2 dp Hs2 i X Hb Hb') as [Hok [Herr Hfail]].
    destruct (run natf env b (S f) g2 dp i) as [r1 v1 u1| | | | |] eqn:E.
    + rewrite (Hok _ _ _ eq_refl). destruct (run_sfx natf env b (S f) g2 dp _ _ _ _ E) as [c [-> _]].
      rewrite !app_length in *.
      apply (sep_stab _ _ _ _ b b'); rewrite ?app_length; try lia; try apply run_sfx; [apply IHg1|apply IHg2]; assumption.
    + repeat split; intros; discriminate.
    + rewrite (Herr eq_refl). repeat split; try discriminate; try reflexivity.
    + rewrite (Hfail eq_refl). repeat split; try discriminate; try reflexivity.
    + repeat split; intros; discriminate.
    + repeat split; intros; discriminate.
  - intros i X Hb Hb'. destruct (IHg dp Hsub i X Hb Hb') as [Hok [Herr Hfail]].
    destruct (run natf env b (S f) g dp i) as [r1 v1 u1| | | | |] eqn:E.
    + rewrite (Hok _ _ _ eq_refl). repeat split; try discriminate. intros r v u H. injection H as <- <- <-.
      destruct (run_sfx natf env b (S f) g dp _ _ _ _ E) as [c [-> ->]].
      rewrite <- app_assoc, !take_used_prefix. reflexivity.
    + repeat split; intros; discriminate.
    + rewrite (Herr eq_refl). repeat split; try discriminate; try reflexivity.
    + rewrite (Hfail eq_refl). repeat split; try discriminate; try reflexivity.
    + repeat split; intros; discriminate.
    + repeat split; intros; discriminate.
  - intros i X Hb Hb'. destruct (IHg dp Hsub i X Hb Hb') as [Hok [Herr Hfail]].
    destruct (run natf env b (S f) g dp i) as [r1 v1 u1| | | | |] eqn:E.
    + rewrite (Hok _ _ _ eq_refl). destruct (act natf a v1) as [w| |]; repeat split; try discriminate; try reflexivity.
      intros r v u H. now injection H as <- <- <-.
    + repeat split; intros; discriminate.
    + rewrite (Herr eq_refl). repeat split; try discriminate; try reflexivity.
    + rewrite (Hfail eq_refl). repeat split; try discriminate; try reflexivity.
    + repeat split; intros; discriminate.
    + repeat split; intros; discriminate.
  - intros i X Hb Hb'. destruct (IHg dp Hsub i X Hb Hb') as [Hok [Herr Hfail]].
    destruct (run natf env b (S f) g dp i) as [r1 v1 u1| | | | |] eqn:E.
    + rewrite (Hok _ _ _ eq_refl). destruct (act natf a v1) as [w| |]; repeat split; try discriminate; try reflexivity.
      intros r v u H. now injection H as <- <- <-.
    + repeat split; intros; discriminate.
    + rewrite (Herr eq_refl). repeat split; try discriminate; try reflexivity.
    + rewrite (Hfail eq_refl). repeat split; try discriminate; try reflexivity.
    + repeat split; intros; discriminate.
    + repeat split; intros; discriminate.
  - intros i X _ _. repeat split; intros; discriminate.
Qed.
End RunStab.
