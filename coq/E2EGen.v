(* End to end, generic in the set of spellings.  `enc v w` is ANY relation between response values and byte strings that
   the parser round-trips (enc_rt); E2E.v instantiates it with Spec.enc_response, the RFC spellings of every response
   kind, for which RoundTripRules.v proves the hypothesis.  Everything here composes that one hypothesis with the
   chunking theorems (ClientProofs.v), verdict stability (Proofs_C02.v), totality (Proofs_C01.v) and the session theorems
   (SessionProofs.v); the file does not depend on the round-trip development.

   read side:  a server that sends any sequence of response values, each in any of its spellings, over a transport that
   cuts the byte stream anywhere and reports "not ready" whenever it likes, makes the framed read side deliver exactly
   those values, one frame per response, each frame holding exactly the bytes of its response, in order, none withheld;
   conversation: if the k-th command is answered by responses that are not a completion carrying its tag followed by one
   that is, the k-th response stream -- polled until it ends -- hands out exactly that answer. *)
From TI Require Import Bytes Grammar Nom Interp InterpFacts Thm_Sfx Natives Tags Builders Client ClientProofs SessionProofs Proofs_C01 Proofs_C02.
From Coq Require Import Lia Wf_nat.

Definition sent := list (val * list byte).          (* what the server meant, and how it spelled it *)
Definition wire (s : sent) : list byte := List.concat (map snd s).
Definition expected (s : sent) : list (list byte * val) := map (fun p => (snd p, fst p)) s.

Lemma decode_nil : decode [] = DNone.
Proof. vm_compute. reflexivity. Qed.

Section Spellings.
Variable enc : val -> list byte -> Prop.
Hypothesis enc_rt : forall v w, enc v w -> forall rest, parse (w ++ rest) = ROk rest v (nlen w).

Definition conformant (s : sent) : Prop := Forall (fun p => enc (fst p) (snd p)) s.

Lemma decode_of_encoding v w rest : enc v w -> decode (w ++ rest) = DFrame w v rest.
Proof.
  intros H. unfold decode. rewrite (enc_rt v w H rest).
  assert (E : (nlen w <=? nlen (w ++ rest)) = true).
  { apply N.leb_le. rewrite !nlen_spec, app_length. lia. }
  rewrite E, take_used_prefix. reflexivity.
Qed.


(* the one-piece parse of what a conformant server sent: its responses, then nothing *)
Lemma frames_of_encodings s : conformant s -> Frames (wire s) (expected s) StopInc [].
Proof.
  induction 1 as [|[v w] s Hw _ IH]; cbn [wire expected map List.concat fst snd].
  - apply FInc. exact decode_nil.
  - eapply FCons; [apply decode_of_encoding; exact Hw | exact IH].
Qed.

(* ... and a further response that has only partly arrived stays in the buffer, whole *)
Lemma frames_of_encodings_then_partial s P : conformant s -> decode P = DNone -> Frames (wire s ++ P) (expected s) StopInc P.
Proof.
  intros Hs HP. induction Hs as [|[v w] s Hw _ IH]; cbn [wire expected map List.concat fst snd app].
  - apply FInc. exact HP.
  - rewrite <- app_assoc. eapply FCons; [apply decode_of_encoding; exact Hw | exact IH].
Qed.

(* every chunking, every not-ready schedule: the frames delivered are the values sent, in their own bytes *)
Lemma conformant_stream_delivered_lemma : forall s fuel rd fs st',
  conformant s -> data_only rd -> bytes_of rd = wire s ->
  fr_drain fuel rf_init rd = (fs, PPending, st', []) ->
  fs = expected s /\ rf_buf st' = [].
Proof.
  intros s fuel rd fs st' Hs Hd Hb H.
  eapply no_withholding_lemma; [exact Hd | exact H |]. rewrite Hb. apply frames_of_encodings. exact Hs.
Qed.

(* the same while a further response is still arriving: everything complete has been delivered, the rest waits *)
Lemma conformant_stream_partial_lemma : forall s P fuel rd fs st',
  conformant s -> decode P = DNone -> data_only rd -> bytes_of rd = wire s ++ P ->
  fr_drain fuel rf_init rd = (fs, PPending, st', []) ->
  fs = expected s /\ rf_buf st' = P.
Proof.
  intros s P fuel rd fs st' Hs HP Hd Hb H.
  destruct (frames_chunking_invariant_lemma fuel rd fs PPending st' [] Hd H) as [used [Hu Hc]].
  rewrite app_nil_r in Hu. subst used.
  destruct Hc as [[_ HF]|[[Habs _]|Habs]]; try discriminate.
  rewrite Hb in HF. pose proof (frames_of_encodings_then_partial s P Hs HP) as HF'.
  destruct (Frames_det _ _ _ _ HF _ _ _ HF') as [-> [_ ->]]. auto.
Qed.

(* a proper prefix of a response is an incomplete buffer (C02 on the relation) *)
Lemma prefix_of_encoding_incomplete v w P Q : enc v w -> w = P ++ Q -> Q <> [] -> decode P = DNone.
Proof.
  intros H -> HQ. pose proof (enc_rt v (P ++ Q) H []) as E. rewrite app_nil_r in E.
  unfold decode.
  pose proof (Proofs_C02.prefix_incomplete_lemma (P ++ Q) v (nlen (P ++ Q)) E P Q eq_refl HQ) as HI.
  destruct HI as [HI|[HI|HI]]; [rewrite HI; reflexivity | exfalso; exact (no_panic_lemma P HI) | exfalso; exact (no_fuel_lemma P HI)].
Qed.

(* ------------------------------------------------------------------------------------------------
   ... and how the connection ends.  After the drain the read side is idle with an incomplete buffer; when the peer
   then closes, the framed stream ends cleanly iff nothing of a further response had arrived, and with the error
   "bytes remaining on stream" otherwise. *)
Lemma fr_drain_pending_state : forall fuel st rd D, data_only rd -> rinv st -> rf_errored st = false -> Chain D (rf_buf st) ->
  forall fs st' rd', fr_drain fuel st rd = (fs, PPending, st', rd') ->
  rf_eof st' = false /\ rf_errored st' = false /\ rf_readable st' = false /\ decode (rf_buf st') = DNone.
Proof.
  induction fuel as [|fuel IH]; intros st rd D Hdata Hinv Herr HC fs st' rd' H.
  - cbn in H. discriminate.
  - cbn [fr_drain] in H. destruct (fr_poll st rd) as [[st1 o1] rd1] eqn:Ep.
    destruct (fr_poll_inv rd st D Hdata Hinv Herr HC _ _ _ Ep) as [used [Hu [HC1 [Hby [Heof1 [Hpend [Hok [Herr1 [Hnn [Hnp [Hd1 Hcls]]]]]]]]]]].
    destruct Hcls as [->|[[raw [v ->]]|[-> Hde]]].
    + injection H as _ <- <-. destruct (Hpend eq_refl) as [Hdn [He1 Hr1]]. auto.
    + destruct (fr_drain fuel st1 rd1) as [[[fs1 o2] st2] rd2] eqn:Ed. injection H as _ -> <- <-.
      assert (Herr1' : rf_errored st1 = false) by (destruct (rf_errored st1); [specialize (Herr1 eq_refl); discriminate|reflexivity]).
      exact (IH st1 rd1 _ Hd1 (Hok Herr1') Herr1' HC1 _ _ _ Ed).
    + injection H as _ Hx _ _. discriminate.
Qed.

Lemma conformant_then_eof_lemma : forall s P fuel rd fs st' more,
  conformant s -> decode P = DNone -> data_only rd -> bytes_of rd = wire s ++ P ->
  fr_drain fuel rf_init rd = (fs, PPending, st', []) ->
  fs = expected s /\
  fr_poll st' (REof :: more) =
    match P with
    | [] => (mk_rf true false false [], PNone, more)
    | _ => (mk_rf true true true P, PItem IErrRemaining, more)
    end.
Proof.
  intros s P fuel rd fs st' more Hs HP Hd Hb H.
  destruct (conformant_stream_partial_lemma s P fuel rd fs st' Hs HP Hd Hb H) as [-> Hbuf].
  split; [reflexivity|].
  destruct (fr_drain_pending_state fuel rf_init rd [] Hd rinv_init eq_refl (Chain_nil _) _ _ _ H) as [He [Hr [Hrd Hdn]]].
  rewrite (eof_verdict_lemma st' more He Hr Hrd Hdn), Hbuf. reflexivity.
Qed.

(* ------------------------------------------------------------------------------------------------
   The same for n successive polls of the read side by anybody (fr_trace) -- the reference against which
   SessionProofs.v states what the streams of a whole session hand out. *)

(* the one-piece parse exists for every stream (each frame takes at least its CR LF) *)
Lemma Frames_total : forall S, exists fs st rem, Frames S fs st rem.
Proof.
  intros S. remember (length S) as n eqn:Hn. revert S Hn.
  induction n as [n IH] using lt_wf_ind. intros S Hn.
  destruct (decode S) as [raw v rest| | |] eqn:E.
  - pose proof (decode_frame_shape _ _ _ _ E) as Hs.
    destruct (frame_ends_with_crlf_lemma _ _ _ _ E) as [w0 Hw].
    assert (Hl : (length rest < n)%nat).
    { subst n. rewrite Hs, Hw, !app_length. cbn [length]. lia. }
    destruct (IH (length rest) Hl rest eq_refl) as [fs [st [rem HF]]].
    exists ((raw, v) :: fs), st, rem. eapply FCons; eauto.
  - exists [], StopInc, S. now apply FInc.
  - exists [], StopErr, S. now apply FErr.
  - exfalso. exact (decode_no_panic_lemma S E).
Qed.

(* frames already delivered from a stream whose one-piece parse is F are the first of F *)
Lemma Chain_prefix D buf X F st rem : Chain D buf -> Frames (rawcat D ++ buf ++ X) F st rem -> exists fs, F = D ++ fs.
Proof.
  intros HC HF. destruct (Frames_total (buf ++ X)) as [fs [st' [rem' H]]].
  pose proof (HC X fs st' rem' H) as H'. destruct (Frames_det _ _ _ _ HF _ _ _ H') as [-> _]. eauto.
Qed.

Lemma bytes_of_app a b : bytes_of (a ++ b) = bytes_of a ++ bytes_of b.
Proof. unfold bytes_of. now rewrite map_app, concat_app. Qed.

Definition is_decode_err (o : pout) : bool := match o with PItem IErrDecode => true | _ => false end.
Definition no_decode_err (os : list pout) : bool := forallb (fun o => negb (is_decode_err o)) os.

Lemma frames_of_cons o os : frames_of (o :: os) = frame_of o ++ frames_of os.
Proof. reflexivity. Qed.

(* as long as the codec has not reported a malformed response, the polls conserve the bytes and what they
   delivered stays a chain of frames of the stream *)
Lemma fr_trace_inv : forall n st rd D, data_only rd -> rinv st -> rf_errored st = false -> Chain D (rf_buf st) ->
  forall os st' rd', fr_trace n st rd = (os, st', rd') -> no_decode_err os = true ->
  exists used, rd = used ++ rd' /\ data_only rd' /\ rinv st' /\ rf_errored st' = false /\
    Chain (D ++ frames_of os) (rf_buf st') /\
    rawcat D ++ rf_buf st ++ bytes_of used = rawcat (D ++ frames_of os) ++ rf_buf st'.
Proof.
  induction n as [|n IH]; intros st rd D Hd Hinv Herr HC os st' rd' H Hne.
  - cbn in H. injection H as <- <- <-. exists []. cbn [frames_of flat_map bytes_of map List.concat]. rewrite !app_nil_r. auto 10.
  - cbn [fr_trace] in H. destruct (fr_poll st rd) as [[st1 o] rd1] eqn:Ep.
    destruct (fr_trace n st1 rd1) as [[os1 st2] rd2] eqn:Et. injection H as <- <- <-.
    cbn [no_decode_err forallb] in Hne. apply andb_prop in Hne. destruct Hne as [Ho Hne].
    destruct (fr_poll_inv rd st D Hd Hinv Herr HC _ _ _ Ep) as [used [Hu [HC1 [Hby [Heof1 [Hpend [Hok [Herr1 [Hnn [Hnp [Hd1 Hcls]]]]]]]]]]].
    assert (He1 : rf_errored st1 = false).
    { destruct (rf_errored st1) eqn:Ee; [|reflexivity]. rewrite (Herr1 eq_refl) in Ho. discriminate. }
    destruct (IH st1 rd1 (D ++ delivered o) Hd1 (Hok He1) He1 HC1 _ _ _ Et Hne) as [used2 [Hu2 [Hd2 [Hinv2 [He2 [HC2 Hby2]]]]]].
    exists (used ++ used2). rewrite frames_of_cons. change (frame_of o) with (delivered o). rewrite !app_assoc in *.
    split; [rewrite Hu, Hu2; now rewrite app_assoc|]. split; [exact Hd2|]. split; [exact Hinv2|]. split; [exact He2|].
    split; [exact HC2|]. rewrite <- Hby2. unfold bytes_of. rewrite map_app, concat_app. fold (bytes_of used) (bytes_of used2).
    rewrite !app_assoc. f_equal. rewrite <- !app_assoc. rewrite <- !app_assoc in Hby. exact Hby.
Qed.

(* a trace that reports a malformed response has a first such report *)
Lemma fr_trace_first_err : forall n st rd os st' rd', fr_trace n st rd = (os, st', rd') -> no_decode_err os = false ->
  exists n1 os1 st1 rd1 st2 rd2, fr_trace n1 st rd = (os1, st1, rd1) /\ no_decode_err os1 = true /\
    fr_poll st1 rd1 = (st2, PItem IErrDecode, rd2).
Proof.
  induction n as [|n IH]; intros st rd os st' rd' H Hne.
  - cbn in H. injection H as <- <- <-. discriminate.
  - cbn [fr_trace] in H. destruct (fr_poll st rd) as [[st1 o] rd1] eqn:Ep.
    destruct (fr_trace n st1 rd1) as [[os1 st2] rd2] eqn:Et. injection H as <- <- <-.
    cbn [no_decode_err forallb] in Hne. destruct (is_decode_err o) eqn:Eo.
    + exists 0%nat, [], st, rd, st1, rd1. cbn. split; [reflexivity|]. split; [reflexivity|].
      destruct o as [[| | | | |]| | |]; try discriminate. exact Ep.
    + cbn [negb andb] in Hne. destruct (IH _ _ _ _ _ Et Hne) as [n1 [os2 [sa [ra [sb [rb [H1 [H2 H3]]]]]]]].
      exists (S n1), (o :: os2), sa, ra, sb, rb. cbn [fr_trace]. rewrite Ep, H1. split; [reflexivity|].
      split; [|exact H3]. cbn [no_decode_err forallb]. rewrite Eo. exact H2.
Qed.

Lemma expected_app_inv s D fs : expected s = D ++ fs -> exists s1 s2, s = s1 ++ s2 /\ expected s1 = D /\ expected s2 = fs.
Proof.
  unfold expected. intros H. apply map_eq_app in H. destruct H as [s1 [s2 [-> [H1 H2]]]]. eauto.
Qed.

(* n polls of a fresh read side fed with what a conformant server sent, cut anywhere: no malformed-response
   report, and the frames delivered are exactly the first responses sent -- their values in their own bytes, in
   order -- while everything else is still in the buffer or in the transport *)
Lemma conformant_trace_lemma : forall s n rd os st' rd',
  conformant s -> data_only rd -> bytes_of rd = wire s ->
  fr_trace n rf_init rd = (os, st', rd') ->
  no_decode_err os = true /\
  exists s1 s2, s = s1 ++ s2 /\ frames_of os = expected s1 /\ rf_buf st' ++ bytes_of rd' = wire s2.
Proof.
  intros s n rd os st' rd' Hs Hd Hb H.
  pose proof (frames_of_encodings s Hs) as HF.
  assert (Hne : no_decode_err os = true).
  { destruct (no_decode_err os) eqn:E; [reflexivity|]. exfalso.
    destruct (fr_trace_first_err _ _ _ _ _ _ H E) as [n1 [os1 [st1 [rd1 [st2 [rd2 [H1 [Hn1 Hp]]]]]]]].
    destruct (fr_trace_inv n1 rf_init rd [] Hd rinv_init eq_refl (Chain_nil _) _ _ _ H1 Hn1) as [used [Hu [Hd1 [Hinv1 [He1 [HC1 Hby1]]]]]].
    destruct (fr_poll_inv rd1 st1 _ Hd1 Hinv1 He1 HC1 _ _ _ Hp) as [used2 [Hu2 [HC2 [Hby2 [_ [_ [_ [_ [_ [_ [_ Hcls]]]]]]]]]]].
    destruct Hcls as [Hx|[[raw [v Hx]]|[_ Hde]]]; try discriminate.
    cbn [delivered app] in HC2, Hby2. rewrite app_nil_r in HC2, Hby2.
    cbn [app rawcat map List.concat rf_init rf_buf] in Hby1.
    pose proof (decode_err_stable _ Hde (bytes_of rd2)) as Hde2.
    pose proof (HC2 (bytes_of rd2) [] StopErr _ (FErr _ Hde2)) as HF2. rewrite app_nil_r in HF2.
    assert (Hw : rawcat (frames_of os1) ++ rf_buf st2 ++ bytes_of rd2 = wire s).
    { rewrite <- Hb, Hu, Hu2, !bytes_of_app, Hby1, <- app_assoc. f_equal.
      apply app_inv_head in Hby2. rewrite <- Hby2, <- app_assoc. reflexivity. }
    rewrite Hw in HF2. destruct (Frames_det _ _ _ _ HF _ _ _ HF2) as [_ [Hst _]]. discriminate. }
  split; [exact Hne|].
  destruct (fr_trace_inv n rf_init rd [] Hd rinv_init eq_refl (Chain_nil _) _ _ _ H Hne) as [used [Hu [Hd1 [Hinv1 [He1 [HC1 Hby1]]]]]].
  cbn [app rawcat map List.concat rf_init rf_buf] in Hby1. cbn [app] in HC1.
  assert (Hw : wire s = rawcat (frames_of os) ++ rf_buf st' ++ bytes_of rd').
  { rewrite <- Hb, Hu, bytes_of_app, Hby1. now rewrite app_assoc. }
  rewrite Hw in HF. destruct (Chain_prefix _ _ _ _ _ _ HC1 HF) as [fs Hfs].
  destruct (expected_app_inv _ _ _ Hfs) as [s1 [s2 [-> [E1 E2]]]].
  exists s1, s2. split; [reflexivity|]. split; [symmetry; exact E1|].
  unfold wire in Hw. rewrite map_app, concat_app in Hw. fold (wire s1) (wire s2) in Hw.
  assert (Hr : rawcat (frames_of os) = wire s1).
  { rewrite <- E1. unfold rawcat, expected, wire. rewrite map_map. reflexivity. }
  rewrite Hr in Hw. apply app_inv_head in Hw. symmetry. exact Hw.
Qed.

(* whole sessions (any commands, any numbers of polls per stream, abandoned streams, any write / flush schedule)
   of a fresh client whose transport delivers what a conformant server sent, cut anywhere and with any not-ready
   results: the frames handed to the response streams, all of them in order, are exactly the first responses
   sent, value for value and byte for byte; nothing twice, nothing skipped, nothing invented *)
Lemma conformant_session_lemma : forall s ops c c' started outs,
  conformant s -> c_rf c = rf_init -> data_only (io_rd (c_io c)) -> bytes_of (io_rd (c_io c)) = wire s ->
  session ops c = (c', started, outs) ->
  exists s1 s2, s = s1 ++ s2 /\ frames_of (List.concat outs) = expected s1 /\
                rf_buf (c_rf c') ++ bytes_of (io_rd (c_io c')) = wire s2.
Proof.
  intros s ops c c' started outs Hs Hrf Hd Hb H.
  destruct (session_exactly_once_lemma _ _ _ _ _ H) as [n [os [Ht Hf]]]. rewrite Hrf in Ht.
  destruct (conformant_trace_lemma s n _ os _ _ Hs Hd Hb Ht) as [_ [s1 [s2 [E [E1 E2]]]]].
  exists s1, s2. split; [exact E|]. split; [rewrite Hf; exact E1 | exact E2].
Qed.

(* ------------------------------------------------------------------------------------------------
   The conversation theorem (C05's first sentence, end to end). *)
Definition frame : Type := (list byte * val)%type.
Definition fown (tag : list byte) (f : frame) : Prop := done_tag (snd f) = Some tag.

(* a list of frames that ends with the first completion carrying `tag` *)
Definition ends_with_own (tag : list byte) (L : list frame) : Prop :=
  exists F f, L = F ++ [f] /\ fown tag f /\ Forall (fun g => ~ fown tag g) F.

Lemma first_own_split tag : forall (F F' : list frame) f f' X X',
  F ++ f :: X = F' ++ f' :: X' -> Forall (fun g => ~ fown tag g) F -> fown tag f ->
  Forall (fun g => ~ fown tag g) F' -> fown tag f' -> F = F' /\ f = f' /\ X = X'.
Proof.
  induction F as [|a F IH]; intros [|b F'] f f' X X' E HF Hf HF' Hf'; cbn [app] in E.
  - injection E as -> ->. auto.
  - injection E as -> _. inversion HF' as [|? ? Hb _]; subst. contradiction.
  - injection E as -> _. inversion HF as [|? ? Ha _]; subst. contradiction.
  - injection E as -> E. inversion HF as [|? ? _ HF0]; subst. inversion HF' as [|? ? _ HF0']; subst.
    destruct (IH _ _ _ _ _ E HF0 Hf HF0' Hf') as [-> [-> ->]]. auto.
Qed.

(* two sequences of blocks, each block ending with the first own completion of its tag, one a prefix of the other
   as flat lists: they are the same blocks *)
Lemma align : forall tags Ls Rs T,
  Forall2 ends_with_own tags Ls -> Forall2 ends_with_own tags Rs ->
  List.concat Ls ++ T = List.concat Rs -> Ls = Rs /\ T = [].
Proof.
  induction tags as [|tag tags IH]; intros Ls Rs T HL HR E.
  - inversion HL; subst. inversion HR; subst. cbn in E. auto.
  - inversion HL as [|? L ? Ls' HL1 HLs]; subst. inversion HR as [|? R ? Rs' HR1 HRs]; subst.
    destruct HL1 as (F & f & -> & Hf & HF). destruct HR1 as (F' & f' & -> & Hf' & HF').
    cbn [List.concat] in E. rewrite <- !app_assoc in E. cbn [app] in E.
    destruct (first_own_split tag _ _ _ _ _ _ E HF Hf HF' Hf') as [-> [-> E']].
    destruct (IH _ _ _ HLs HRs E') as [-> ->]. auto.
Qed.

(* a stream polled until it ends has handed out other frames and then its own completion *)
Lemma Delim_true_inv tag os : Delim tag true os -> os = [] \/ os = [PNone].
Proof. inversion 1; auto. Qed.

Lemma Delim_to_end tag : forall os, Delim tag false os -> In PNone os -> ends_with_own tag (frames_of os).
Proof.
  intros os H. remember false as b eqn:Hb. induction H as [b|(* none *)|o os Ho Hos _|o os Hn Ho Hos IH]; intros Hin; try discriminate.
  - contradiction.
  - destruct Ho as (raw & v & -> & Hd). exists [], (raw, v).
    destruct (Delim_true_inv _ _ Hos) as [->| ->]; cbn; auto.
  - destruct Hin as [Hx|Hin]; [congruence|]. destruct (IH eq_refl Hin) as (F & f & E & Hf & HF).
    exists (frame_of o ++ F), f. rewrite frames_of_cons, E, app_assoc. split; [reflexivity|]. split; [exact Hf|].
    apply Forall_app. split; [|exact HF].
    destruct o as [[raw v| | | | |]| | |]; cbn [frame_of]; constructor; [|constructor].
    intros Hd. apply Ho. exists raw, v. split; [reflexivity | exact Hd].
Qed.

(* the tags a session hands to its streams *)
Fixpoint tags_from (n : N) (k : nat) : list (list byte) :=
  match k with O => [] | S k' => tag_of (n + 1) :: tags_from (n + 1) k' end.

Lemma session_delims : forall ops c c' started outs, session ops c = (c', started, outs) ->
  c_next c + N.of_nat (length ops) <= U64_MAX ->
  Forall2 (fun tag os => Delim tag false os) (tags_from (c_next c) (length ops)) outs.
Proof.
  induction ops as [|[args n] ops IH]; intros c c' started outs H Hb.
  - cbn in H. injection H as <- <- <-. constructor.
  - cbn [session] in H. unfold call in H. unfold idgen_next in H.
    assert (E : (c_next c <? U64_MAX) = true) by (apply N.ltb_lt; cbn [length] in Hb; lia). rewrite E in H.
    destruct (polls n _ _) as [[c2 s2] os] eqn:Ep. destruct (session ops c2) as [[c3 st3] outs3] eqn:Es. injection H as <- <- <-.
    destruct (polls_props _ _ _ _ _ _ Ep) as [_ [_ [Nx _]]]. { intros [Hx|Hx]; discriminate. }
    cbn [c_next] in Nx. cbn [length tags_from]. constructor.
    + exact (polls_delim _ _ _ _ _ _ Ep).
    + rewrite <- Nx. apply (IH _ _ _ _ Es). rewrite Nx. cbn [length] in Hb. lia.
Qed.

Lemma frames_of_concat : forall outs, frames_of (List.concat outs) = List.concat (map frames_of outs).
Proof. induction outs as [|o outs IH]; [reflexivity|]. cbn [List.concat map]. now rewrite frames_of_app, IH. Qed.

Lemma expected_concat : forall blocks, expected (List.concat blocks) = List.concat (map expected blocks).
Proof. induction blocks as [|b bs IH]; [reflexivity|]. cbn [List.concat map]. unfold expected in *. now rewrite map_app, IH. Qed.

(* the answer to one command: responses that are not a completion with its tag, then one that is *)
Definition answer_for (tag : list byte) (b : sent) : Prop :=
  exists U d, b = U ++ [d] /\ done_tag (fst d) = Some tag /\ Forall (fun u => done_tag (fst u) <> Some tag) U.

Lemma answer_ends_with_own tag b : answer_for tag b -> ends_with_own tag (expected b).
Proof.
  intros (U & d & -> & Hd & HU). exists (expected U), (snd d, fst d). unfold expected. rewrite map_app. cbn [map].
  split; [reflexivity|]. split; [exact Hd|]. apply Forall_map. exact HU.
Qed.

Theorem conversation_lemma : forall answers ops c c' started outs,
  session ops c = (c', started, outs) ->
  c_rf c = rf_init -> data_only (io_rd (c_io c)) -> bytes_of (io_rd (c_io c)) = wire (List.concat answers) ->
  conformant (List.concat answers) ->
  c_next c + N.of_nat (length ops) <= U64_MAX ->
  Forall2 answer_for (tags_from (c_next c) (length ops)) answers ->
  Forall (In PNone) outs ->
  map frames_of outs = map expected answers /\ rf_buf (c_rf c') = [] .
Proof.
  intros answers ops c c' started outs H Hrf Hd Hb Hs Hmax Hans Hend.
  destruct (conformant_session_lemma _ _ _ _ _ _ Hs Hrf Hd Hb H) as (s1 & s2 & E & E1 & E2).
  pose proof (session_delims _ _ _ _ _ H Hmax) as HD.
  assert (HL : Forall2 ends_with_own (tags_from (c_next c) (length ops)) (map frames_of outs)).
  { clear -HD Hend. induction HD as [|tag os tags outs' H1 _ IH]; cbn [map]; constructor.
    - inversion Hend; subst. apply Delim_to_end; assumption.
    - inversion Hend; subst. auto. }
  assert (HR : Forall2 ends_with_own (tags_from (c_next c) (length ops)) (map expected answers)).
  { clear -Hans. induction Hans as [|tag b tags bs H1 _ IH]; cbn [map]; constructor; [apply answer_ends_with_own; exact H1 | exact IH]. }
  assert (Ecat : List.concat (map frames_of outs) ++ expected s2 = List.concat (map expected answers)).
  { rewrite <- frames_of_concat, E1, <- expected_concat, E. unfold expected. now rewrite map_app. }
  destruct (align _ _ _ _ HL HR Ecat) as [EL ET]. split; [exact EL|].
  assert (s2 = []) by (destruct s2; [reflexivity | discriminate ET]). subst s2. cbn [wire map List.concat] in E2.
  apply app_eq_nil in E2. tauto.
Qed.
End Spellings.
