(* No chain of builder calls can put a CR or LF into a command (C10 for every builder at once).
   Generic in the machine: it holds for any tables whose literal pieces and keyword tables are free of CR / LF,
   a computable condition discharged on the tables regenerated from the source.  The argument: a command is a
   concatenation of pieces; literal pieces and keywords are checked, decimal renderings are digits, and a quoted
   argument is the output of quoted_string, which refuses CR / LF and otherwise returns the escaped text
   (BuildersProofs.single_line_lemma). *)
From TI Require Import Bytes Builders BuildersProofs DecFacts Machine.
From Coq Require Import Lia.
Local Open Scope string_scope.
Local Open Scope list_scope.

Definition clean (b : list byte) : bool := forallb (fun c => negb (is_crlf c)) b.

Lemma clean_spec b : clean b = true <-> (~ In 13 b /\ ~ In 10 b).
Proof.
  unfold clean. rewrite forallb_forall. split.
  - intros H. split; intros Hi; apply H in Hi; vm_compute in Hi; discriminate.
  - intros [H13 H10] c Hc. unfold is_crlf. destruct (N.eqb_spec c 13) as [->|_]; [contradiction|].
    destruct (N.eqb_spec c 10) as [->|_]; [contradiction|]. reflexivity.
Qed.

Lemma clean_app a b : clean (a ++ b) = clean a && clean b.
Proof. unfold clean. apply forallb_app. Qed.

Definition piece_ok (p : piece) : bool := match p with PLit b => clean (bs b) | _ => true end.
Definition kw_ok (kw : kwtables) : bool := forallb (fun t => forallb (fun e => clean (bs (snd e))) (snd t)) kw.
Definition machine_ok (m : machine) : bool :=
  forallb (fun c => forallb piece_ok (c_pieces c)) (m_ctors m) &&
  forallb (fun t => forallb piece_ok (t_pieces t)) (m_trans m) &&
  forallb (fun f => forallb piece_ok (f_pieces f)) (m_finals m) &&
  kw_ok (m_kw m).

Lemma digits_clean ds : forallb is_digit ds = true -> clean ds = true.
Proof.
  unfold clean. rewrite !forallb_forall. intros H c Hc. specialize (H c Hc). unfold is_digit in H. unfold is_crlf.
  apply andb_prop in H. destruct H as [H1 H2]. apply N.leb_le in H1.
  destruct (N.eqb_spec c 13) as [->|_]; [lia|]. destruct (N.eqb_spec c 10) as [->|_]; [lia|]. reflexivity.
Qed.

Lemma assoc_in {A} k (l : list (string * A)) v : assoc k l = Some v -> exists k', In (k', v) l.
Proof.
  induction l as [|[k' v'] l IH]; cbn [assoc]; [discriminate|]. destruct (String.eqb k k').
  - intros H. injection H as ->. exists k'. now left.
  - intros H. destruct (IH H) as [k'' Hin]. exists k''. now right.
Qed.

Lemma kw_lookup_clean kw table k s : kw_ok kw = true -> kw_lookup kw table k = Some s -> clean (bs s) = true.
Proof.
  unfold kw_ok, kw_lookup. intros Hok H. destruct (assoc table kw) as [t|] eqn:Et; [|discriminate].
  destruct (assoc_in _ _ _ Et) as [tn Hin]. destruct (assoc_in _ _ _ H) as [kn Hin2].
  rewrite forallb_forall in Hok. specialize (Hok _ Hin). cbn [snd] in Hok. rewrite forallb_forall in Hok. exact (Hok _ Hin2).
Qed.

Lemma eval_piece_clean kw env p out : kw_ok kw = true -> piece_ok p = true -> eval_piece kw env p = Some out -> clean out = true.
Proof.
  intros Hkw Hp H. destruct p as [b|var comp|table var|var|why]; cbn [eval_piece piece_ok] in *.
  - injection H as <-. exact Hp.
  - destruct (assoc var env) as [[n|a b|a|k|s]|]; try discriminate.
    + destruct (String.eqb comp ""); [|discriminate]. injection H as <-. apply digits_clean, to_dec_digits.
    + destruct (String.eqb comp "start"); [injection H as <-; apply digits_clean, to_dec_digits|].
      destruct (String.eqb comp "end"); [|discriminate]. injection H as <-. apply digits_clean, to_dec_digits.
    + destruct (String.eqb comp "start"); [|discriminate]. injection H as <-. apply digits_clean, to_dec_digits.
  - destruct (assoc var env) as [[n|a b|a|k|s]|]; try discriminate.
    destruct (kw_lookup kw table k) as [s|] eqn:Ek; [|discriminate]. injection H as <-. eapply kw_lookup_clean; eauto.
  - destruct (assoc var env) as [[n|a b|a|k|s]|]; try discriminate.
    destruct (quoted_string s) as [q| |] eqn:Eq; try discriminate. injection H as <-.
    apply clean_spec. exact (single_line_lemma _ _ Eq).
  - discriminate.
Qed.

Lemma emit_clean kw env : kw_ok kw = true -> forall ps out, forallb piece_ok ps = true -> emit kw env ps = Some out -> clean out = true.
Proof.
  intros Hkw. induction ps as [|p ps IH]; intros out Hps H; cbn [emit] in H.
  - injection H as <-. reflexivity.
  - cbn [forallb] in Hps. apply andb_prop in Hps. destruct Hps as [Hp Hps].
    destruct (eval_piece kw env p) as [a|] eqn:Ea; [|discriminate]. destruct (emit kw env ps) as [b|] eqn:Eb; [|discriminate].
    injection H as <-. rewrite clean_app, (eval_piece_clean _ _ _ _ Hkw Hp Ea), (IH _ Hps eq_refl). reflexivity.
Qed.

Lemma find_trans_in ty st meth l t : find_trans ty st meth l = Some t -> In t l.
Proof. induction l as [|x l IH]; cbn [find_trans]; [discriminate|]. destruct (_ && _); [intros H; injection H as ->; now left | intros H; right; auto]. Qed.
Lemma find_final_in ty st l f : find_final ty st l = Some f -> In f l.
Proof. induction l as [|x l IH]; cbn [find_final]; [discriminate|]. destruct (_ && _); [intros H; injection H as ->; now left | intros H; right; auto]. Qed.
Lemma find_ctor_in name l c : find_ctor name l = Some c -> In c l.
Proof. induction l as [|x l IH]; cbn [find_ctor]; [discriminate|]. destruct (String.eqb _ _); [intros H; injection H as ->; now left | intros H; right; auto]. Qed.

Section Machine.
Variable m : machine.
Hypothesis Hm : machine_ok m = true.

Lemma Hparts : forallb (fun c => forallb piece_ok (c_pieces c)) (m_ctors m) = true /\
             forallb (fun t => forallb piece_ok (t_pieces t)) (m_trans m) = true /\
             forallb (fun f => forallb piece_ok (f_pieces f)) (m_finals m) = true /\ kw_ok (m_kw m) = true.
Proof.
  pose proof Hm as H. unfold machine_ok in H.
  apply andb_prop in H. destruct H as [H H4]. apply andb_prop in H. destruct H as [H H3]. apply andb_prop in H. destruct H as [H1 H2]. auto.
Qed.

Lemma step_call_clean ty st args call s' : clean args = true -> step_call m (ty, st, args) call = Some s' -> clean (snd s') = true.
Proof.
  destruct Hparts as [_ [Ht [_ Hkw]]]. intros Ha H. cbn [step_call] in H.
  destruct (find_trans ty st (fst call) (m_trans m)) as [t|] eqn:Et; [|discriminate].
  destruct (bind_params (t_params t) (snd call)) as [env|]; [|discriminate].
  destruct (emit (m_kw m) env (t_pieces t)) as [out|] eqn:Ee; [|discriminate]. injection H as <-. cbn [snd].
  rewrite clean_app, Ha. rewrite forallb_forall in Ht. exact (emit_clean _ _ Hkw _ _ (Ht _ (find_trans_in _ _ _ _ _ Et)) Ee).
Qed.

Lemma run_calls_clean : forall calls s s', clean (snd s) = true -> run_calls m s calls = Some s' -> clean (snd s') = true.
Proof.
  induction calls as [|c cs IH]; intros s s' Hs H; cbn [run_calls] in H.
  - injection H as <-. exact Hs.
  - destruct (step_call m s c) as [s1|] eqn:E1; [|discriminate]. destruct s as [[ty st] args]. cbn [snd] in Hs.
    exact (IH _ _ (step_call_clean _ _ _ _ _ Hs E1) H).
Qed.

Lemma finish_clean s out next : clean (snd s) = true -> finish m s = Some (out, next) -> clean out = true.
Proof.
  destruct Hparts as [_ [_ [Hf Hkw]]]. destruct s as [[ty st] args]. cbn [snd finish]. intros Ha H.
  destruct (find_final ty st (m_finals m)) as [f|] eqn:Ef; [|discriminate].
  destruct (emit (m_kw m) [] (f_pieces f)) as [o|] eqn:Ee; [|discriminate]. injection H as <- _.
  rewrite clean_app, Ha. rewrite forallb_forall in Hf. exact (emit_clean _ _ Hkw _ _ (Hf _ (find_final_in _ _ _ _ Ef)) Ee).
Qed.

(* every command any chain of calls produces -- whatever the constructor, the methods, the numbers, the keywords and
   the text arguments -- holds neither CR nor LF *)
Theorem chain_single_line_lemma : forall name cargs calls out next,
  run_chain m name cargs calls = Some (out, next) -> ~ In 13 out /\ ~ In 10 out.
Proof.
  destruct Hparts as [Hc [_ [_ Hkw]]]. intros name cargs calls out next H. apply clean_spec. unfold run_chain, start in H.
  destruct (find_ctor name (m_ctors m)) as [c|] eqn:Ec; [|discriminate].
  destruct (bind_params (c_params c) cargs) as [env|]; [|discriminate].
  destruct (emit (m_kw m) env (c_pieces c)) as [o|] eqn:Ee; [|discriminate].
  rewrite forallb_forall in Hc. pose proof (emit_clean _ _ Hkw _ _ (Hc _ (find_ctor_in _ _ _ Ec)) Ee) as Ho.
  destruct (String.eqb (c_ty c) "Command").
  - destruct calls; [|discriminate]. injection H as <- _. exact Ho.
  - destruct (run_calls m (c_ty c, c_state c, o) calls) as [s'|] eqn:Er; [|discriminate].
    exact (finish_clean _ _ _ (run_calls_clean _ (c_ty c, c_state c, o) _ Ho Er) H).
Qed.
End Machine.

Lemma ref_machine_ok : machine_ok ref_machine = true.
Proof. vm_compute. reflexivity. Qed.
