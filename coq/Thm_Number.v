(* C13: numbers are converted exactly or rejected, never wrapped.  Theorems about the hand models of
   core::number / core::number_64 / core::literal (Nom.v), for numerals of ANY length. *)
From TI Require Import Bytes Grammar Nom Interp InterpFacts Thm_Sfx.
From Coq Require Import Lia.

Definition all_digits (ds : list byte) : Prop := Forall (fun b => nom_is_digit b = true) ds.
Definition stops (rest : list byte) : Prop := match rest with c :: _ => nom_is_digit c = false | [] => False end.

Lemma span_digits ds rest : all_digits ds -> stops rest -> span nom_is_digit (ds ++ rest) = Some (ds, rest).
Proof.
  induction 1 as [|d ds Hd Hds IH]; intros Hr; cbn [app].
  - destruct rest as [|c r]; [destruct Hr|]. cbn in Hr. cbn [span]. rewrite Hr. reflexivity.
  - cbn [span]. rewrite Hd, (IH Hr). reflexivity.
Qed.

Lemma span_digits_end ds : all_digits ds -> span nom_is_digit ds = None.
Proof. induction 1 as [|d ds Hd Hds IH]; [reflexivity|]. cbn [span]. rewrite Hd, IH. reflexivity. Qed.

(* the value is the mathematical value of the numeral; out of range is an error; nothing else *)
Theorem number_exact_or_error_lemma : forall bits ds rest, ds <> [] -> all_digits ds -> stops rest ->
  number_p bits (ds ++ rest) = if dec ds <? 2 ^ bits then ROk rest (VNum (dec ds)) (nlen ds) else RErr.
Proof.
  intros bits ds rest Hne Hd Hr. unfold number_p. rewrite (span_digits ds rest Hd Hr).
  destruct ds; [contradiction|]. reflexivity.
Qed.

(* a numeral that runs to the end of the buffer is incomplete (more digits may follow) *)
Theorem number_needs_terminator_lemma : forall bits ds, all_digits ds -> number_p bits ds = RInc.
Proof. intros bits ds Hd. unfold number_p. now rewrite (span_digits_end ds Hd). Qed.

Theorem number_no_digit_lemma : forall bits rest, stops rest -> number_p bits rest = RErr.
Proof.
  intros bits rest Hr. unfold number_p. destruct rest as [|c r]; [destruct Hr|]. cbn in Hr. cbn [span]. rewrite Hr. reflexivity.
Qed.

(* leading zeros do not change the value *)
Lemma dec_step_fold acc ds : fold_left dec_step ds acc = acc * 10 ^ N.of_nat (length ds) + dec ds.
Proof.
  unfold dec. revert acc. induction ds as [|d ds IH]; intros acc; cbn [fold_left length].
  - cbn. lia.
  - rewrite IH, (IH (dec_step 0 d)). unfold dec_step.
    replace (N.of_nat (S (length ds))) with (N.succ (N.of_nat (length ds))) by lia. rewrite N.pow_succ_r'. lia.
Qed.

Theorem dec_leading_zeros_lemma : forall k ds, dec (repeat 48 k ++ ds) = dec ds.
Proof.
  induction k as [|k IH]; intros ds; [reflexivity|]. cbn [repeat app]. unfold dec at 1. cbn [fold_left].
  unfold dec_step at 2. cbn. exact (IH ds).
Qed.

Theorem dec_snoc_lemma : forall ds d, dec (ds ++ [d]) = dec ds * 10 + (d - 48).
Proof. intros ds d. unfold dec. rewrite fold_left_app. reflexivity. Qed.

(* ---------------------------------------------------------------- literal *)
Lemma take_n_exact : forall data post, take_n (nlen data) (data ++ post) = Some (data, post).
Proof.
  induction data as [|b data IH]; intros post.
  - cbn. destruct post; reflexivity.
  - cbn [app take_n]. assert (E : nlen (b :: data) =? 0 = false) by (apply N.eqb_neq; rewrite nlen_spec; cbn [length]; lia).
    rewrite E. replace (N.pred (nlen (b :: data))) with (nlen data) by (rewrite !nlen_spec; cbn [length]; lia).
    rewrite IH. reflexivity.
Qed.

Lemma take_n_short : forall have n, nlen have < n -> take_n n have = None.
Proof.
  induction have as [|b have IH]; intros n Hn.
  - cbn [take_n]. destruct (N.eqb_spec n 0); [rewrite nlen_spec in Hn; cbn in Hn; lia|reflexivity].
  - cbn [take_n]. destruct (N.eqb_spec n 0) as [->|Hz]; [rewrite nlen_spec in Hn; lia|].
    rewrite IH; [reflexivity|]. rewrite !nlen_spec in *. cbn [length] in Hn. lia.
Qed.

Definition lit_header (ds : list byte) : list byte := 123 :: ds ++ [125; 13; 10].

Lemma tag1_hit c r : tag_scan eq_case [c] (c :: r) = SOk [c] r.
Proof. cbn [tag_scan]. unfold eq_case. rewrite N.eqb_refl. reflexivity. Qed.
Lemma tag2_hit a b r : tag_scan eq_case [a; b] (a :: b :: r) = SOk [a; b] r.
Proof. cbn [tag_scan]. unfold eq_case. rewrite !N.eqb_refl. reflexivity. Qed.

Lemma lit_header_app ds tail : lit_header ds ++ tail = 123 :: ds ++ 125 :: 13 :: 10 :: tail.
Proof. unfold lit_header. cbn [app]. rewrite <- app_assoc. reflexivity. Qed.

Lemma literal_header_steps ds tail : ds <> [] -> all_digits ds ->
  literal_p (lit_header ds ++ tail) =
    if dec ds <? 2 ^ 32 then
      match take_n (dec ds) tail with
      | None => RInc
      | Some (data, rest) => if forallb (fun b => negb (b =? 0)) data then ROk rest (VBytes data) (nlen ds + 4 + dec ds) else RErr
      end
    else RErr.
Proof.
  intros Hne Hd. rewrite lit_header_app. unfold literal_p.
  rewrite tag1_hit. rewrite (number_exact_or_error_lemma 32 ds (125 :: 13 :: 10 :: tail) Hne Hd eq_refl).
  destruct (dec ds <? 2 ^ 32); [|reflexivity].
  rewrite tag1_hit, tag2_hit. reflexivity.
Qed.

(* the content is taken verbatim: exactly the announced number of bytes, whatever they are (except NUL) *)
Theorem literal_exact_lemma : forall ds data post, ds <> [] -> all_digits ds -> dec ds = nlen data -> dec ds < 2 ^ 32 ->
  Forall (fun b => b <> 0) data ->
  literal_p (lit_header ds ++ data ++ post) = ROk post (VBytes data) (nlen ds + 4 + nlen data).
Proof.
  intros ds data post Hne Hd Hlen Hr Hnz. rewrite (literal_header_steps ds _ Hne Hd).
  destruct (N.ltb_spec (dec ds) (2 ^ 32)); [|lia]. rewrite Hlen, take_n_exact.
  replace (forallb (fun b => negb (b =? 0)) data) with true; [reflexivity|].
  symmetry. apply forallb_forall. intros b Hb. rewrite Forall_forall in Hnz. specialize (Hnz b Hb).
  apply negb_true_iff. now apply N.eqb_neq.
Qed.

Theorem literal_length_out_of_range_lemma : forall ds tail, ds <> [] -> all_digits ds -> 2 ^ 32 <= dec ds ->
  literal_p (lit_header ds ++ tail) = RErr.
Proof.
  intros ds tail Hne Hd Hr. rewrite (literal_header_steps ds _ Hne Hd).
  destruct (N.ltb_spec (dec ds) (2 ^ 32)); [lia|reflexivity].
Qed.

Theorem literal_short_incomplete_lemma : forall ds have, ds <> [] -> all_digits ds -> dec ds < 2 ^ 32 ->
  nlen have < dec ds -> literal_p (lit_header ds ++ have) = RInc.
Proof.
  intros ds have Hne Hd Hr Hs. rewrite (literal_header_steps ds _ Hne Hd).
  destruct (N.ltb_spec (dec ds) (2 ^ 32)); [|lia]. now rewrite take_n_short.
Qed.

Theorem literal_nul_rejected_lemma : forall ds data post, ds <> [] -> all_digits ds -> dec ds = nlen data -> dec ds < 2 ^ 32 ->
  In 0 data -> literal_p (lit_header ds ++ data ++ post) = RErr.
Proof.
  intros ds data post Hne Hd Hlen Hr Hin. rewrite (literal_header_steps ds _ Hne Hd).
  destruct (N.ltb_spec (dec ds) (2 ^ 32)); [|lia]. rewrite Hlen, take_n_exact.
  replace (forallb (fun b => negb (b =? 0)) data) with false; [reflexivity|].
  symmetry. apply not_true_is_false. intros Hall. rewrite forallb_forall in Hall. specialize (Hall 0 Hin). discriminate.
Qed.

Example number_examples :
  number_p 32 (bs "4294967295 ") = ROk [32] (VNum 4294967295) 10 /\
  number_p 32 (bs "4294967296 ") = RErr /\
  number_p 32 (bs "000000000000000000000000000000042)") = ROk [41] (VNum 42) 33 /\
  number_p 64 (bs "18446744073709551615]") = ROk [93] (VNum 18446744073709551615) 20 /\
  number_p 64 (bs "18446744073709551616]") = RErr /\
  number_p 64 (bs "9999999999999999999999999999999999999999 ") = RErr.
Proof. repeat split; vm_compute; reflexivity. Qed.
