From TI Require Import Bytes BodyStruct.
From Coq Require Import Lia ZifyBool ZifyN ZifyNat ZArith.

Lemma walk_eq prefix t :
  walk prefix t = (prefix, t) :: match t with Leaf _ => [] | Multi _ cs => walk_children prefix 0 cs end.
Proof.
  destruct t as [l|l cs]; [reflexivity|]. cbn [walk]. f_equal.
  generalize 0 as i. induction cs as [|c cs IH]; intros i; [reflexivity|].
  cbn [walk_children]. f_equal. apply IH.
Qed.

(* induction principle for trees with the nested list *)
Lemma tree_ind' (P : tree -> Prop) :
  (forall l, P (Leaf l)) -> (forall l cs, Forall P cs -> P (Multi l cs)) -> forall t, P t.
Proof.
  intros HL HM. fix IH 1. intros [l|l cs]; [apply HL|]. apply HM.
  induction cs as [|c cs IHcs]; constructor; [apply IH | exact IHcs].
Qed.

(* node_at distributes over path concatenation *)
Lemma node_at_app t p q : node_at t (p ++ q) = match node_at t p with Some n => node_at n q | None => None end.
Proof.
  revert t. induction p as [|k p IH]; intros t; [reflexivity|].
  cbn [app node_at]. destruct t as [l|l cs]; [reflexivity|].
  destruct (k =? 0); [reflexivity|]. destruct (nth_error cs (N.to_nat (k - 1))); [apply IH|reflexivity].
Qed.

Definition rel_ok (root : tree) (kv : list N * tree) : Prop := node_at root (fst kv) = Some (snd kv).

(* soundness: every entry of the walk addresses its own node *)
Lemma walk_sound_gen root : forall t prefix, node_at root prefix = Some t ->
  Forall (rel_ok root) (walk prefix t).
Proof.
  induction t as [l|l cs IHcs] using tree_ind'; intros prefix Hp; rewrite walk_eq.
  - constructor; [exact Hp|constructor].
  - constructor; [exact Hp|].
    assert (G : forall i rest, (forall j c, nth_error rest j = Some c -> nth_error cs (N.to_nat i + j) = Some c) ->
                Forall (fun c => forall prefix, node_at root prefix = Some c -> Forall (rel_ok root) (walk prefix c)) rest ->
                Forall (rel_ok root) (walk_children prefix i rest)).
    { intros i rest. revert i. induction rest as [|c rest IHr]; intros i Hnth HF; cbn [walk_children]; [constructor|].
      inversion HF as [|? ? Hc HF']; subst. apply Forall_app. split.
      - apply Hc. rewrite node_at_app, Hp. cbn [node_at].
        destruct (N.eqb_spec (i + 1) 0); [lia|].
        replace (N.to_nat (i + 1 - 1)) with (N.to_nat i + 0)%nat by lia.
        rewrite (Hnth 0%nat c eq_refl). reflexivity.
      - apply IHr; [|exact HF']. intros j c' Hj.
        replace (N.to_nat (i + 1) + j)%nat with (N.to_nat i + S j)%nat by lia. apply Hnth. exact Hj. }
    apply (G 0 cs); [intros j c Hj; exact Hj | exact IHcs].
Qed.

Theorem walk_sound_lemma : forall t p n, In (p, n) (walk [] t) -> node_at t p = Some n.
Proof.
  intros t p n Hin. pose proof (walk_sound_gen t t [] eq_refl) as HF.
  rewrite Forall_forall in HF. apply (HF (p, n) Hin).
Qed.

(* completeness: every addressable node is in the walk, under its address *)
Lemma walk_children_in prefix : forall rest i j c kv,
  nth_error rest j = Some c -> In kv (walk (prefix ++ [i + N.of_nat j + 1]) c) -> In kv (walk_children prefix i rest).
Proof.
  induction rest as [|c0 rest IH]; intros i j c kv Hn Hin; [destruct j; discriminate|].
  cbn [walk_children]. apply in_or_app. destruct j as [|j].
  - left. cbn in Hn. injection Hn as ->. replace (i + N.of_nat 0 + 1) with (i + 1) in Hin by lia. exact Hin.
  - right. apply (IH (i + 1) j c kv Hn). replace (i + 1 + N.of_nat j + 1) with (i + N.of_nat (S j) + 1) by lia. exact Hin.
Qed.

Lemma walk_complete_gen : forall p t prefix n, node_at t p = Some n -> In (prefix ++ p, n) (walk prefix t).
Proof.
  induction p as [|k p IH]; intros t prefix n H; rewrite walk_eq.
  - cbn in H. injection H as ->. rewrite app_nil_r. left. reflexivity.
  - cbn [node_at] in H. destruct t as [l|l cs]; [discriminate|].
    destruct (N.eqb_spec k 0) as [|Hk]; [discriminate|].
    destruct (nth_error cs (N.to_nat (k - 1))) as [c|] eqn:Hn; [|discriminate].
    right. apply (walk_children_in prefix cs 0 (N.to_nat (k - 1)) c _ Hn).
    replace (0 + N.of_nat (N.to_nat (k - 1)) + 1) with k by lia.
    replace (prefix ++ k :: p) with ((prefix ++ [k]) ++ p) by (rewrite <- app_assoc; reflexivity).
    apply IH. exact H.
Qed.

Theorem walk_complete_lemma : forall t p n, node_at t p = Some n -> In (p, n) (walk [] t).
Proof. intros t p n H. apply (walk_complete_gen p t [] n H). Qed.

Lemma NoDup_app_intro {A} (l1 l2 : list A) :
  NoDup l1 -> NoDup l2 -> (forall x, In x l1 -> In x l2 -> False) -> NoDup (l1 ++ l2).
Proof.
  induction l1 as [|a l1 IH]; intros H1 H2 Hd; [exact H2|].
  inversion H1 as [|? ? Hna H1']; subst. cbn. constructor.
  - intros Hin. apply in_app_or in Hin. destruct Hin as [Hin|Hin]; [contradiction|].
    apply (Hd a); [left; reflexivity|exact Hin].
  - apply IH; [exact H1'|exact H2|]. intros x Hx1 Hx2. apply (Hd x); [right; exact Hx1|exact Hx2].
Qed.

(* keys are pairwise distinct: every key of walk prefix t extends prefix, children by different indices *)
Lemma walk_keys_prefix : forall t prefix kv, In kv (walk prefix t) -> exists q, fst kv = prefix ++ q.
Proof.
  induction t as [l|l cs IHcs] using tree_ind'; intros prefix kv Hin; rewrite walk_eq in Hin.
  - destruct Hin as [<-|[]]. exists []. now rewrite app_nil_r.
  - destruct Hin as [<-|Hin]; [exists []; now rewrite app_nil_r|].
    revert Hin. generalize 0 as i. induction cs as [|c cs IHl]; intros i Hin; [destruct Hin|].
    inversion IHcs as [|? ? Hc HF]; subst. cbn [walk_children] in Hin. apply in_app_or in Hin. destruct Hin as [Hin|Hin].
    + destruct (Hc _ _ Hin) as [q Hq]. exists ((i + 1) :: q). rewrite Hq, <- app_assoc. reflexivity.
    + apply (IHl HF (i + 1) Hin).
Qed.

Lemma walk_children_keys prefix : forall rest i kv, In kv (walk_children prefix i rest) ->
  exists k q, i < k /\ fst kv = prefix ++ k :: q.
Proof.
  induction rest as [|c rest IH]; intros i kv Hin; [destruct Hin|].
  cbn [walk_children] in Hin. apply in_app_or in Hin. destruct Hin as [Hin|Hin].
  - destruct (walk_keys_prefix _ _ _ Hin) as [q Hq]. exists (i + 1), q. split; [lia|].
    rewrite Hq, <- app_assoc. reflexivity.
  - destruct (IH (i + 1) kv Hin) as [k [q [Hk Hq]]]. exists k, q. split; [lia|exact Hq].
Qed.

Lemma walk_keys_nodup_gen : forall t prefix, NoDup (map fst (walk prefix t)).
Proof.
  induction t as [l|l cs IHcs] using tree_ind'; intros prefix; rewrite walk_eq; cbn [map fst].
  - constructor; [intros []|constructor].
  - constructor.
    + intros Hin. apply in_map_iff in Hin. destruct Hin as [kv [Hk Hin]].
      destruct (walk_children_keys _ _ _ _ Hin) as [k [q [_ Hq]]]. rewrite Hk in Hq.
      apply (f_equal (@length N)) in Hq. rewrite app_length in Hq. cbn in Hq. lia.
    + generalize 0 as i. induction cs as [|c cs IHl]; intros i; cbn [walk_children map]; [constructor|].
      inversion IHcs as [|? ? Hc HF]; subst. rewrite map_app.
      apply NoDup_app_intro; [apply Hc | apply IHl; exact HF |].
      intros key H1 H2. apply in_map_iff in H1, H2. destruct H1 as [kv1 [E1 H1]]. destruct H2 as [kv2 [E2 H2]].
      destruct (walk_keys_prefix _ _ _ H1) as [q1 Hq1].
      destruct (walk_children_keys _ _ _ _ H2) as [k [q2 [Hk Hq2]]].
      rewrite E1 in Hq1. rewrite E2 in Hq2. rewrite Hq1, <- app_assoc in Hq2.
      apply app_inv_head in Hq2. cbn in Hq2. injection Hq2 as Hq2 _. lia.
Qed.

Lemma list_eqb_N_spec : forall a b : list N, list_eqb N.eqb a b = true <-> a = b.
Proof.
  induction a as [|x a IH]; intros [|y b]; cbn; split; intros H; try reflexivity; try discriminate.
  - apply andb_true_iff in H. destruct H as [Hx Ha]. apply N.eqb_eq in Hx. apply IH in Ha. subst. reflexivity.
  - injection H as -> ->. apply andb_true_iff. split; [apply N.eqb_refl|apply IH; reflexivity].
Qed.

Lemma map_insert_fresh k v m : ~ In k (map fst m) -> map_insert k v m = m ++ [(k, v)].
Proof.
  induction m as [|[k' v'] m IH]; intros Hn; [reflexivity|]. cbn [map_insert].
  destruct (list_eqb N.eqb k k') eqn:E.
  - apply list_eqb_N_spec in E. subst. exfalso. apply Hn. left. reflexivity.
  - rewrite IH; [reflexivity|]. intros Hin. apply Hn. right. exact Hin.
Qed.

Lemma fold_insert_nodup : forall l acc, NoDup (map fst (acc ++ l)) ->
  fold_left (fun m kv => map_insert (fst kv) (snd kv) m) l acc = acc ++ l.
Proof.
  induction l as [|[k v] l IH]; intros acc Hnd; cbn [fold_left]; [now rewrite app_nil_r|].
  cbn [fst snd]. rewrite map_insert_fresh.
  - rewrite IH; rewrite <- app_assoc; [reflexivity|exact Hnd].
  - rewrite map_app in Hnd. cbn [map fst] in Hnd. apply NoDup_remove_2 in Hnd.
    intros Hin. apply Hnd. apply in_or_app. left. exact Hin.
Qed.

(* the map holds exactly the walk: no key is inserted twice, nothing is overwritten *)
Theorem build_map_is_walk : forall t, build_map t = walk [] t.
Proof.
  intros t. unfold build_map. rewrite fold_insert_nodup; [reflexivity|]. apply walk_keys_nodup_gen.
Qed.

Theorem walk_keys_nodup_lemma : forall t, NoDup (map fst (build_map t)).
Proof. intros t. rewrite build_map_is_walk. apply walk_keys_nodup_gen. Qed.

Theorem map_matches_spec_lemma : forall t p n, In (p, n) (build_map t) <-> node_at t p = Some n.
Proof.
  intros t p n. rewrite build_map_is_walk. split; [apply walk_sound_lemma | apply walk_complete_lemma].
Qed.

Theorem search_sound_lemma : forall t pred p, In p (candidates pred t) ->
  exists n, node_at t p = Some n /\ pred n = true.
Proof.
  intros t pred p Hin. unfold candidates in Hin. apply in_map_iff in Hin.
  destruct Hin as [[p' n] [Hp Hin]]. cbn in Hp. subst p'. apply filter_In in Hin. destruct Hin as [Hin Hpred].
  exists n. split; [apply map_matches_spec_lemma; exact Hin | exact Hpred].
Qed.

Theorem search_complete_lemma : forall t pred,
  (exists p n, node_at t p = Some n /\ pred n = true) <-> candidates pred t <> [].
Proof.
  intros t pred. split.
  - intros [p [n [Hn Hp]]] E. apply map_matches_spec_lemma in Hn.
    assert (Hin : In p (candidates pred t)).
    { unfold candidates. apply in_map_iff. exists (p, n). split; [reflexivity|]. apply filter_In. split; assumption. }
    rewrite E in Hin. destruct Hin.
  - intros Hne. destruct (candidates pred t) as [|p ps] eqn:E; [contradiction|].
    assert (Hin : In p (candidates pred t)) by (rewrite E; left; reflexivity).
    destruct (search_sound_lemma t pred p Hin) as [n [Hn Hp]]. exists p, n. split; assumption.
Qed.

(* non-vacuity and the pinned-tree witness: a 4-child multipart is numbered 1,2,3,4 (the pinned tree gave 1,2,4,7) *)
Example walk_example :
  map fst (build_map (Multi 0 [Leaf 1; Leaf 2; Multi 3 [Leaf 4; Leaf 5]; Leaf 6]))
  = [[]; [1]; [2]; [3]; [3;1]; [3;2]; [4]].
Proof. vm_compute. reflexivity. Qed.

(* the u32 child counter: every index in a path is between 1 and the widest multipart of the tree,
   so `i as u32 + 1` cannot overflow for trees whose multiparts have fewer than 2^32 children *)
Lemma max_width_child l cs c : In c cs -> max_width c <= max_width (Multi l cs).
Proof.
  intros Hin. cbn [max_width]. induction cs as [|c0 cs IH]; [destruct Hin|].
  cbn [fold_right length]. destruct Hin as [->|Hin]; [lia|]. specialize (IH Hin). lia.
Qed.

Theorem path_indices_bounded_lemma : forall p t n, node_at t p = Some n ->
  Forall (fun k => 1 <= k <= max_width t) p.
Proof.
  induction p as [|k p IH]; intros t n H; [constructor|].
  cbn [node_at] in H. destruct t as [l|l cs]; [discriminate|].
  destruct (N.eqb_spec k 0) as [|Hk]; [discriminate|].
  destruct (nth_error cs (N.to_nat (k - 1))) as [c|] eqn:Hn; [|discriminate].
  assert (Hlen : (N.to_nat (k - 1) < length cs)%nat) by (apply nth_error_Some; rewrite Hn; discriminate).
  constructor.
  - cbn [max_width]. lia.
  - specialize (IH c n H). apply nth_error_In in Hn. pose proof (max_width_child l cs c Hn) as Hw.
    eapply Forall_impl; [|exact IH]. cbn beta. intros a Ha. lia.
Qed.
