(* Reflection on the regenerated source text of the tag generator and of `call` / its hook (gen/ClientTables.v).
   Kept apart from TagsProofs.v so that only the properties that stand on it (C05, C06, C11) depend on it. *)
From TI Require Import Bytes Tags.
From Coq Require Import List.
Import ListNotations.
(* ---------------------------------------------------------------- the model is the model of THIS source text *)
(* Tags.v (idgen_next: 64-bit counter from 0, += 1, "A" followed by the counter mod 10 000 padded to four digits) was
   written for the generator as it stands in tokio-imap/src/client.rs; rs2coq regenerates that text on every run *)
From TI.gen Require Import ClientTables.
From Coq Require Import String.
Lemma idgen_source_is_the_modelled_one_lemma :
  gen_idgen_fields = [("next", "u64")]%string /\
  gen_idgen_new = "Self { next : 0 }"%string /\
  gen_idgen_next = "self.next += 1 ; Some(RequestId(format!(""A{:04}"", self.next % 10_000)))"%string /\
  gen_idgen_other_methods = [].
Proof. repeat split; reflexivity. Qed.
