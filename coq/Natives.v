(* M4: hand models of the imperative pieces of the parser: the parser functions whose bodies are
   not a pure combinator expression, and the irregular closures / helper functions used as
   semantic actions.  Every name here is one the translator reports in gen_native_fns /
   gen_native_actions (Properties/C01.v checks that each reported name is modelled).
   Definitions only. *)
From TI Require Import Bytes Grammar Nom Interp.
From TI.gen Require Import ImapGrammar.
Local Open Scope string_scope.
Local Open Scope N_scope.

(* ---------------------------------------------------------------- helpers on values *)
Definition vbytes (v : val) : list byte := match v with VBytes b => b | _ => [] end.

(* UTF-8 decoding of a *valid* string into code points (str::chars) *)
Fixpoint utf8_chars (l : list byte) : list N :=
  match l with
  | [] => []
  | c :: r =>
    if c <? 128 then c :: utf8_chars r
    else if c <? 224 then
      match r with c1 :: r' => ((c - 192) * 64 + (c1 - 128)) :: utf8_chars r' | _ => [] end
    else if c <? 240 then
      match r with c1 :: c2 :: r' => ((c - 224) * 4096 + (c1 - 128) * 64 + (c2 - 128)) :: utf8_chars r' | _ => [] end
    else
      match r with
      | c1 :: c2 :: c3 :: r' => ((c - 240) * 262144 + (c1 - 128) * 4096 + (c2 - 128) * 64 + (c3 - 128)) :: utf8_chars r'
      | _ => []
      end
  end.

(* impl From<char> for AclRight *)
Definition acl_right (c : N) : val :=
  if c =? 108 then VCon "AclRight::Lookup" [] else
  if c =? 114 then VCon "AclRight::Read" [] else
  if c =? 115 then VCon "AclRight::Seen" [] else
  if c =? 119 then VCon "AclRight::Write" [] else
  if c =? 105 then VCon "AclRight::Insert" [] else
  if c =? 112 then VCon "AclRight::Post" [] else
  if c =? 107 then VCon "AclRight::CreateMailbox" [] else
  if c =? 120 then VCon "AclRight::DeleteMailbox" [] else
  if c =? 116 then VCon "AclRight::DeleteMessage" [] else
  if c =? 101 then VCon "AclRight::Expunge" [] else
  if c =? 97 then VCon "AclRight::Administer" [] else
  if c =? 110 then VCon "AclRight::Annotation" [] else
  if c =? 99 then VCon "AclRight::OldCreate" [] else
  if c =? 100 then VCon "AclRight::OldDelete" [] else
  VCon "AclRight::Custom" [VNum c].

Definition rights_of (s : list byte) : list val := map acl_right (utf8_chars s).

(* lexicographic order on byte strings, for the canonical (sorted) rendering of a HashMap *)
Fixpoint bytes_ltb (a b : list byte) : bool :=
  match a, b with
  | [], [] => false
  | [], _ :: _ => true
  | _ :: _, [] => false
  | x :: a', y :: b' => if x <? y then true else if y <? x then false else bytes_ltb a' b'
  end.

(* HashMap::insert into a map kept sorted by key: the last value for a key wins *)
Fixpoint hm_insert (k v : list byte) (m : list (list byte * list byte)) : list (list byte * list byte) :=
  match m with
  | [] => [(k, v)]
  | (k', v') :: m' =>
    if bytes_eqb k k' then (k, v) :: m'
    else if bytes_ltb k k' then (k, v) :: m
    else (k', v') :: hm_insert k v m'
  end.

(* ---------------------------------------------------------------- rfc5464 check_entry_name *)
Fixpoint starts_with (p l : list byte) : bool :=
  match p with
  | [] => true
  | a :: p' => match l with b :: l' => (a =? b) && starts_with p' l' | [] => false end
  end.

Inductive stage := StPrivateShared | StAdmin (l : nat) | StVendorComment (l : nat) | StPath (l : nat)
                 | StDone (l : nat) | StFailErr | StFailInc | StPanic.

(* i[l..]: panics when l > len *)
Definition slice_from (i : list byte) (l : nat) : option (list byte) :=
  if Nat.leb l (length i) then Some (skipn l i) else None.

Definition check_private_shared (i : list byte) : stage :=
  if starts_with (bs "/private") i then StVendorComment 8
  else if starts_with (bs "/shared") i then StAdmin 7
  else StFailErr.

Definition check_admin (i : list byte) (l : nat) : stage :=
  match slice_from i l with
  | None => StPanic
  | Some t => if starts_with (bs "/admin") t then StPath (l + 6) else StVendorComment l
  end.

Definition check_vendor_comment (i : list byte) (l : nat) : stage :=
  match slice_from i l with
  | None => StPanic
  | Some t =>
    if starts_with (bs "/comment") t then StPath (l + 8)
    else if starts_with (bs "/vendor") t then
      (* i.len() < l + 9 || i[l + 7] != b'/' || !is_entry_component_char(i[l + 8]) *)
      if Nat.ltb (length i) (l + 9) then StFailErr
      else match nth_error i (l + 7) with
           | None => StPanic
           | Some c7 =>
             if negb (c7 =? 47) then StFailErr
             else match nth_error i (l + 8) with
                  | None => StPanic
                  | Some c8 => if negb (cls_rfc5464_x_is_entry_component_char c8) then StFailErr else StPath (l + 7)
                  end
           end
    else StFailErr
  end.

(* for j in 1..(i.len() - l) { if !is_entry_component_char(i[l + j]) { return Path(l + j) } } Done(i.len()) *)
Fixpoint check_path_scan (rest : list byte) (pos : nat) (len : nat) : stage :=
  match rest with
  | [] => StDone len
  | c :: rest' => if negb (cls_rfc5464_x_is_entry_component_char c) then StPath pos else check_path_scan rest' (S pos) len
  end.

Definition check_path (i : list byte) (l : nat) : stage :=
  if Nat.eqb (length i) l then StDone l else
  match nth_error i l with
  | None => StPanic                      (* i[l] with l > len *)
  | Some c =>
    if (c =? 32) || (c =? 13) then StDone l
    else if negb (c =? 47) then StFailErr
    else check_path_scan (skipn (S l) i) (S l) (length i)
  end.

(* the `loop { match stage ... }`: fuel-driven; exhaustion is reported as StPanic-like StFailInc never:
   entry_name_fuel_sufficient shows length i + 4 iterations always suffice *)
Fixpoint check_loop (fuel : nat) (i : list byte) (st : stage) : stage :=
  match fuel with
  | O => st
  | S f =>
    match st with
    | StPrivateShared => check_loop f i (check_private_shared i)
    | StAdmin l => check_loop f i (check_admin i l)
    | StVendorComment l => check_loop f i (check_vendor_comment i l)
    | StPath l => check_loop f i (check_path i l)
    | _ => st
    end
  end.

(* Ok((&i[l..], &i[..l])): both slices panic when l > len *)
Definition check_entry_name (i : list byte) : ares :=
  match check_loop (length i + 4) i StPrivateShared with
  | StDone l => if Nat.leb l (length i) then AVal (VBytes i) else APanic
  | StFailErr => AErr
  | StFailInc => AErr                     (* unreachable after fix 722a0ec; kept for representability *)
  | StPanic => APanic
  | _ => APanic                           (* loop did not finish: excluded by entry_name_fuel_sufficient *)
  end.

(* ---------------------------------------------------------------- native actions *)
Definition from_utf8 (v : val) : ares :=
  match v with VBytes b => if utf8_valid b then AVal (VBytes b) else AErr | _ => AErr end.

Definition range_norm (a b : N) : val :=
  if a <=? b then VCon "RangeInclusive" [VNum a; VNum b] else VCon "RangeInclusive" [VNum b; VNum a].

Definition classify_capability (a : list byte) : val :=
  if eq_nocase a (bs "IMAP4rev1") then VCon "Capability::Imap4rev1" []
  else if Nat.ltb 5 (length a) && eq_nocase (firstn 5 a) (bs "AUTH=") then VCon "Capability::Auth" [VBytes (skipn 5 a)]
  else VCon "Capability::Atom" [VBytes a].

Definition classify_quota_name (a : list byte) : val :=
  if eq_nocase a (bs "STORAGE") then VCon "QuotaResourceName::Storage" []
  else if eq_nocase a (bs "MESSAGE") then VCon "QuotaResourceName::Message" []
  else VCon "QuotaResourceName::Atom" [VBytes a].

Definition known_name_attrs : list (list byte * string) :=
  [(bs "\Noinferiors", "NameAttribute::NoInferiors"); (bs "\Noselect", "NameAttribute::NoSelect");
   (bs "\Marked", "NameAttribute::Marked"); (bs "\Unmarked", "NameAttribute::Unmarked");
   (bs "\All", "NameAttribute::All"); (bs "\Archive", "NameAttribute::Archive");
   (bs "\Drafts", "NameAttribute::Drafts"); (bs "\Flagged", "NameAttribute::Flagged");
   (bs "\Junk", "NameAttribute::Junk"); (bs "\Sent", "NameAttribute::Sent"); (bs "\Trash", "NameAttribute::Trash")].

Fixpoint classify_name_attr_in (tbl : list (list byte * string)) (s : list byte) : val :=
  match tbl with
  | [] => VCon "NameAttribute::Extension" [VBytes s]
  | (k, n) :: tbl' => if eq_nocase s k then VCon n [] else classify_name_attr_in tbl' s
  end.

(* &text[1..] on a &str: panics unless index 1 is a char boundary *)
Definition str_slice_from1 (t : list byte) : ares :=
  match t with
  | [] => APanic
  | _ :: r => match r with
              | c :: _ => if is_cont c then APanic else AVal (VBytes r)
              | [] => AVal (VBytes r)
              end
  end.

Definition resp_text_action (code text : val) : ares :=
  match text with
  | VBytes [] => AVal (VTuple [code; VNone])
  | VBytes t =>
    match code with
    | VSome _ => match str_slice_from1 t with AVal s => AVal (VTuple [code; VSome s]) | r => r end
    | _ => AVal (VTuple [code; VSome (VBytes t)])
    end
  | _ => AVal (VTuple [code; VNone])
  end.

Definition id_params (first rest : val) : val :=
  let pairs := first :: match rest with
                        | VList l => map (fun t => match t with VTuple [_; p] => p | _ => VUnit end) l
                        | _ => []
                        end in
  let m := fold_left (fun m p => match p with
                                 | VTuple [VBytes k; VSome (VBytes v)] => hm_insert k v m
                                 | _ => m
                                 end) pairs [] in
  VList (map (fun kv => VTuple [VBytes (fst kv); VBytes (snd kv)]) m).

Definition contains_imap4rev1 (caps : val) : bool :=
  match caps with
  | VList l => existsb (fun c => match c with VCon n [] => String.eqb n "Capability::Imap4rev1" | _ => false end) l
  | _ => false
  end.

Definition native_call (name : string) (args : list val) : ares :=
  if String.eqb name "from_utf8" then match args with [v] => from_utf8 v | _ => AErr end else
  if String.eqb name "rfc5464::slice_to_str" then match args with [v] => from_utf8 v | _ => AErr end else
  if String.eqb name "check_entry_name" then match args with [VBytes b] => check_entry_name b | _ => AErr end else
  if String.eqb name "section_part_cons" then
    match args with [p; VList l] => AVal (VList (p :: l)) | _ => AErr end else
  if String.eqb name "core::sequence_range#1" then
    match args with [VNum a; VNum b] => AVal (range_norm a b) | _ => AErr end else
  if String.eqb name "rfc4315::uid_range#1" then
    match args with [VNum a; VNum b] => AVal (VCon "UidSetMember::UidRange" [range_norm a b]) | _ => AErr end else
  if String.eqb name "rfc4315::uid_set#1" then
    match args with [v] => AVal (VCon "UidSetMember::Uid" [v]) | _ => AErr end else
  if String.eqb name "rfc2087::quota_resource_name#1" then
    match args with [VBytes a] => AVal (classify_quota_name a) | _ => AErr end else
  if String.eqb name "rfc3501::capability#1" then
    match args with [VBytes a] => AVal (classify_capability a) | _ => AErr end else
  if String.eqb name "rfc3501::name_attribute#1" then
    match args with [VBytes a] => AVal (classify_name_attr_in known_name_attrs a) | _ => AErr end else
  if String.eqb name "rfc3501::mailbox#1" then
    match args with [VBytes a] => AVal (VBytes (if eq_nocase a (bs "INBOX") then bs "INBOX" else a)) | _ => AErr end else
  if String.eqb name "rfc3501::resp_text#1" then
    match args with [code; text] => resp_text_action code text | _ => AErr end else
  if String.eqb name "rfc3501::trailing_resp_text#1" then
    match args with
    | [VSome (VTuple [_; t])] => AVal t
    | [_] => AVal (VTuple [VNone; VNone])
    | _ => AErr
    end else
  if String.eqb name "rfc3501::ensure_capabilities_contains_imap4rev" then
    match args with [caps] => if contains_imap4rev1 caps then AVal caps else AErr | _ => AErr end else
  if String.eqb name "rfc2971::id_param_list_not_nil#1" then
    match args with [first; rest] => AVal (id_params first rest) | _ => AErr end else
  if String.eqb name "rfc2971::resp_id#1" then
    match args with [m] => AVal (VCon "Response::Id" [m]) | _ => AErr end else
  if String.eqb name "rfc4314::map_text_to_rights" then
    match args with [VBytes s] => AVal (VList (rights_of s)) | _ => AErr end else
  if String.eqb name "rfc4314::list_rights_optional#1" then
    match args with
    | [VList items] => AVal (VList (flat_map (fun v => rights_of (vbytes v)) items))
    | _ => AErr
    end else
  if String.eqb name "rfc5464::string_value#1" then
    match args with [VBytes b] => if utf8_valid b then AVal (VSome (VBytes b)) else AErr | _ => AErr end else
  APanic.   (* an action the model does not know: every obligation mentioning it fails *)

Definition modelled_actions : list string :=
  ["from_utf8"; "rfc5464::slice_to_str"; "check_entry_name"; "section_part_cons";
   "core::sequence_range#1"; "rfc4315::uid_range#1"; "rfc4315::uid_set#1"; "rfc2087::quota_resource_name#1";
   "rfc3501::capability#1"; "rfc3501::name_attribute#1"; "rfc3501::mailbox#1"; "rfc3501::resp_text#1";
   "rfc3501::trailing_resp_text#1"; "rfc3501::ensure_capabilities_contains_imap4rev";
   "rfc2971::id_param_list_not_nil#1"; "rfc2971::resp_id#1"; "rfc4314::map_text_to_rights";
   "rfc4314::list_rights_optional#1"; "rfc5464::string_value#1"].

(* ---------------------------------------------------------------- native parser functions *)
Definition proj1of2 : action := mk_action (PTuple [PWild; PVar "p1"]) (AVar "p1").

Definition native_defs : list (string * G) :=
  [("core::number", Leaf (LNumber 32));
   ("core::number_64", Leaf (LNumber 64));
   ("core::literal", Leaf LLiteral);
   (* let (i, (part, mut rest)) = tuple((number, many0(preceded(char('.'), number))))(i)?; rest.insert(0, part) *)
   ("body::section_part",
    Map (mk_action (PTuple [PVar "part"; PVar "rest"]) (ACall "section_part_cons" [AVar "part"; AVar "rest"]))
        (Seq [Ref f_core_x_number DSame;
              Many0 (Map proj1of2 (Seq [Leaf (LTag [46]); Ref f_core_x_number DSame]))]));
   (* let r = astring(i)?; check_entry_name(r.1)?; Ok(r) *)
   ("rfc5464::entry_name",
    MapRes (mk_action (PVar "x") (ACall "check_entry_name" [AVar "x"])) (Ref f_core_x_astring DSame))].

(* helper functions that are not parsers themselves: modelled inside the natives above *)
Definition modelled_helper_fns : list string :=
  ["core::opt_opt"; "rfc3501::ensure_capabilities_contains_imap4rev"; "body_structure::nesting_too_deep";
   "rfc4314::map_text_to_rights"; "rfc5464::check_private_shared"; "rfc5464::check_admin";
   "rfc5464::check_vendor_comment"; "rfc5464::check_path"; "rfc5464::check_entry_name"; "rfc5464::slice_to_str"].

(* ---------------------------------------------------------------- the environment *)
Fixpoint assoc_str {A} (k : string) (l : list (string * A)) : option A :=
  match l with
  | [] => None
  | (k', v) :: l' => if String.eqb k k' then Some v else assoc_str k l'
  end.

Definition all_defs : list (option G) :=
  map (fun e => match snd e with Some g => Some g | None => assoc_str (fst e) native_defs end) gen_defs.

Definition env (f : N) : option G :=
  match nth_error all_defs (N.to_nat f) with Some (Some g) => Some g | _ => None end.

Definition FUEL : nat := 400.
Definition parse (i : list byte) : res :=
  run native_call env (S (length i)) FUEL def_parser_x_parse_response 0%nat i.
