(* Generic theorem behind C09: on a buffer that holds a lexically complete frame (the property's own
   framing rule: scan to CRLF; a line ending in "{n}" skips n bytes and continues) no parser of a
   CRLF-disciplined grammar answers Incomplete.  Parametric in actions/natives. *)
From TI Require Import Bytes Grammar Nom Interp InterpFacts Thm_Sfx.
From Coq Require Import Lia.

(* ---------------------------------------------------------------- the lexical framer *)
Fixpoint split_crlf (i : list byte) : option (list byte * list byte) :=
  match i with
  | [] => None
  | a :: t => match t with
              | b :: t' => if (a =? 13) && (b =? 10) then Some ([], t')
                           else match split_crlf t with Some (l, r) => Some (a :: l, r) | None => None end
              | [] => None
              end
  end.

Fixpoint spanl (p : byte -> bool) (l : list byte) : list byte * list byte :=
  match l with
  | b :: t => if p b then let (x, r) := spanl p t in (b :: x, r) else ([], l)
  | [] => ([], [])
  end.

(* does the line end in "{" digits "}" ?  then the announced length *)
Definition lit_suffix (line : list byte) : option N :=
  match rev line with
  | c :: t => if c =? 125 then
                let (rds, t') := spanl nom_is_digit t in
                match rds, t' with
                | _ :: _, o :: _ => if o =? 123 then Some (dec (rev rds)) else None
                | _, _ => None
                end
              else None
  | [] => None
  end.

(* a lexically complete frame starts at i *)
Inductive safe : list byte -> Prop :=
| safe_plain i line after : split_crlf i = Some (line, after) -> lit_suffix line = None -> safe i
| safe_lit i line after k data rest : split_crlf i = Some (line, after) -> lit_suffix line = Some k ->
    take_n k after = Some (data, rest) -> safe rest -> safe i.

Definition nocr (c : list byte) : Prop := Forall (fun b => b <> 13) c.

Lemma split_crlf_cons_nocr a t : a <> 13 ->
  split_crlf (a :: t) = match split_crlf t with Some (l, r) => Some (a :: l, r) | None => None end.
Proof.
  intros Ha. cbn [split_crlf]. destruct t as [|b t']; [reflexivity|].
  replace (a =? 13) with false by (symmetry; apply N.eqb_neq; exact Ha). reflexivity.
Qed.

Lemma split_crlf_app_nocr c r : nocr c ->
  split_crlf (c ++ r) = match split_crlf r with Some (l, a) => Some (c ++ l, a) | None => None end.
Proof.
  induction 1 as [|a c Ha Hc IH]; cbn [app].
  - destruct (split_crlf r) as [[l a]|]; reflexivity.
  - rewrite split_crlf_cons_nocr by exact Ha. rewrite IH.
    destruct (split_crlf r) as [[l a']|]; reflexivity.
Qed.

Lemma spanl_app_stop p t x o r y : spanl p t = (x, o :: r) -> spanl p (t ++ y) = (x, o :: r ++ y).
Proof.
  revert x. induction t as [|b t IH]; intros x H; cbn in H; [discriminate|].
  cbn [app spanl]. destruct (p b).
  - destruct (spanl p t) as [x' r'] eqn:E. injection H as <- ->. now rewrite (IH _ eq_refl).
  - injection H as <- <- <-. reflexivity.
Qed.

Lemma lit_suffix_app c l k : lit_suffix l = Some k -> lit_suffix (c ++ l) = Some k.
Proof.
  unfold lit_suffix. rewrite rev_app_distr. destruct (rev l) as [|b t]; [discriminate|].
  cbn [app]. destruct (b =? 125); [|discriminate].
  destruct (spanl nom_is_digit t) as [rds t'] eqn:E. destruct rds as [|d rds]; [discriminate|].
  destruct t' as [|o t']; [discriminate|]. rewrite (spanl_app_stop _ _ _ _ _ (rev c) E). auto.
Qed.

Lemma safe_drop c r : nocr c -> safe (c ++ r) -> safe r.
Proof.
  intros Hc Hs. inversion Hs as [i line after Hsp Hl | i line after k data rest Hsp Hl Htk Hrest]; subst.
  - rewrite (split_crlf_app_nocr c r Hc) in Hsp. destruct (split_crlf r) as [[l a]|] eqn:E; [|discriminate].
    injection Hsp as <- <-. destruct (lit_suffix l) eqn:El.
    + rewrite (lit_suffix_app c _ _ El) in Hl. discriminate.
    + eapply safe_plain; eauto.
  - rewrite (split_crlf_app_nocr c r Hc) in Hsp. destruct (split_crlf r) as [[l a]|] eqn:E; [|discriminate].
    injection Hsp as <- <-. destruct (lit_suffix l) eqn:El.
    + rewrite (lit_suffix_app c _ _ El) in Hl. injection Hl as <-. eapply safe_lit; eauto.
    + eapply safe_plain; eauto.
Qed.

Lemma split_nocr_none i : nocr i -> split_crlf i = None.
Proof.
  induction 1 as [|a i Ha Hi IH]; [reflexivity|]. rewrite split_crlf_cons_nocr by exact Ha. now rewrite IH.
Qed.

Lemma safe_has_split i : safe i -> split_crlf i <> None.
Proof. intros H; inversion H; subst; congruence. Qed.

Lemma safe_nil : ~ safe [].
Proof. intros H. apply (safe_has_split [] H). reflexivity. Qed.
Lemma safe_single a : ~ safe [a].
Proof. intros H. apply (safe_has_split [a] H). reflexivity. Qed.

Lemma safe_not_nocr i : safe i -> nocr i -> False.
Proof. intros Hs Hn. apply (safe_has_split i Hs). now apply split_nocr_none. Qed.

Lemma nocr_app a b : nocr a -> nocr b -> nocr (a ++ b).
Proof. unfold nocr. rewrite Forall_app. tauto. Qed.
Lemma nocr_app_l a b : nocr (a ++ b) -> nocr a.
Proof. unfold nocr. rewrite Forall_app. tauto. Qed.

Fixpoint nocrb (s : list byte) : bool := match s with [] => true | b :: t => negb (b =? 13) && nocrb t end.
Lemma nocrb_ok s : nocrb s = true -> nocr s.
Proof.
  induction s as [|b t IH]; cbn; intros H; [constructor|].
  apply andb_prop in H. destruct H as [H1 H2]. constructor; [|apply IH; exact H2].
  apply N.eqb_neq. destruct (b =? 13); [discriminate H1|reflexivity].
Qed.

(* ---------------------------------------------------------------- "good": never Incomplete on a safe input *)
Definition good (p : list byte -> res) : Prop :=
  forall i, safe i -> p i <> RInc /\ (forall r v u, p i = ROk r v u -> safe r).

(* eq functions under which a CR in the input can only match a CR in the tag *)
Definition cr_faithful (eq : byte -> byte -> bool) : Prop := forall a, eq a 13 = true -> a = 13.

Lemma eq_case_crf : cr_faithful eq_case.
Proof. intros a H. unfold eq_case in H. now apply N.eqb_eq in H. Qed.

Lemma eq_nocase1_crf : cr_faithful eq_nocase1.
Proof.
  intros a H. unfold eq_nocase1, lower in H. replace (is_upper 13) with false in H by reflexivity.
  apply N.eqb_eq in H. destruct (is_upper a) eqn:E; [|exact H].
  unfold is_upper in E. apply andb_true_iff in E. destruct E as [E1 E2]. apply N.leb_le in E1. lia.
Qed.

Lemma tag_scan_inc_nocr eq s : cr_faithful eq -> nocr s -> forall i, tag_scan eq s i = SInc -> nocr i.
Proof.
  intros Hcf. induction s as [|a s IH]; intros Hs i H; cbn [tag_scan] in H; [discriminate|].
  destruct i as [|b i]; [constructor|]. destruct (eq a b) eqn:E; [|discriminate].
  inversion Hs as [|? ? Ha Hs']; subst.
  destruct (tag_scan eq s i) as [t r| |] eqn:E2; try discriminate.
  constructor; [|apply IH; auto]. intros ->. apply Ha. now apply Hcf.
Qed.

Lemma tag_scan_ok_nocr eq s : cr_faithful eq -> nocr s -> forall i t r, tag_scan eq s i = SOk t r -> nocr t.
Proof.
  intros Hcf. induction s as [|a s IH]; intros Hs i t r H; cbn [tag_scan] in H.
  - injection H as <- _. constructor.
  - destruct i as [|b i]; [discriminate|]. destruct (eq a b) eqn:E; [|discriminate].
    inversion Hs as [|? ? Ha Hs']; subst.
    destruct (tag_scan eq s i) as [t' r'| |] eqn:E2; try discriminate. injection H as <- <-.
    constructor; [|eapply IH; eauto]. intros ->. apply Ha. now apply Hcf.
Qed.

Lemma tag_good eq s : cr_faithful eq -> nocr s -> good (fun i => of_scan (tag_scan eq s i)).
Proof.
  intros Hcf Hs i Hi. cbv beta. unfold of_scan. destruct (tag_scan eq s i) as [t r| |] eqn:E.
  - split; [discriminate|]. intros r0 v u H. injection H as <- _ _.
    pose proof (tag_scan_app _ _ _ _ _ E) as ->. apply (safe_drop t r); [eapply tag_scan_ok_nocr; eauto|exact Hi].
  - exfalso. eapply safe_not_nocr; eauto using tag_scan_inc_nocr.
  - split; discriminate.
Qed.

Lemma span_none_all p i : span p i = None -> Forall (fun b => p b = true) i.
Proof.
  induction i as [|b i IH]; intros H; [constructor|]. cbn in H. destruct (p b) eqn:E; [|discriminate].
  destruct (span p i) as [[x r]|]; [discriminate|]. constructor; auto.
Qed.
Lemma span_some_all p : forall i x r, span p i = Some (x, r) -> Forall (fun b => p b = true) x.
Proof.
  induction i as [|b i IH]; intros x r H; cbn in H; [discriminate|].
  destruct (p b) eqn:E.
  - destruct (span p i) as [[x' r']|] eqn:E'; [|discriminate]. injection H as <- <-. constructor; eauto.
  - injection H as <- _. constructor.
Qed.
Lemma all_p_nocr p x : p 13 = false -> Forall (fun b => p b = true) x -> nocr x.
Proof. intros Hp H. eapply Forall_impl; [|exact H]. cbn beta. intros b Hb ->. congruence. Qed.

Lemma span_good p (k : list byte -> list byte -> res) : p 13 = false ->
  (forall x r, k x r = RInc -> False) -> (forall x r r' v u, k x r = ROk r' v u -> r' = r) ->
  good (fun i => match span p i with None => RInc | Some (x, r) => k x r end).
Proof.
  intros Hp Hk Hr i Hi. cbv beta. destruct (span p i) as [[x r]|] eqn:E.
  - split; [intros H; eapply Hk; eauto|]. intros r' v u H. rewrite (Hr _ _ _ _ _ H).
    pose proof (span_app _ _ _ _ E) as ->. apply (safe_drop x r); [eapply all_p_nocr; eauto using span_some_all|exact Hi].
  - exfalso. eapply safe_not_nocr; eauto using all_p_nocr, span_none_all.
Qed.

Lemma esc_scan_nocr n c e : n 13 = false -> c <> 13 -> existsb (N.eqb 13) e = false ->
  forall i, (esc_scan n c e i = SInc -> nocr i) /\ (forall t r, esc_scan n c e i = SOk t r -> nocr t).
Proof.
  intros Hn Hc He. fix IH 1. intros i. destruct i as [|b i]; cbn [esc_scan].
  - split; [constructor|discriminate].
  - destruct (n b) eqn:Enb.
    + assert (Hb : b <> 13) by (intros ->; congruence).
      destruct (IH i) as [Hinc Hok]. destruct (esc_scan n c e i) as [t' r'| |] eqn:E; split; try discriminate.
      * intros t r H. injection H as <- <-. constructor; [exact Hb|exact (Hok _ _ eq_refl)].
      * intros _. constructor; [exact Hb|exact (Hinc eq_refl)].
    + destruct (N.eqb_spec b c) as [->|Hbc].
      * destruct i as [|x i]; [split; [intros _; repeat constructor; exact Hc|discriminate]|].
        destruct (existsb (N.eqb x) e) eqn:Ex; [|split; discriminate].
        assert (Hx : x <> 13) by (intros ->; congruence).
        destruct (IH i) as [Hinc Hok]. destruct (esc_scan n c e i) as [t' r'| |] eqn:E; split; try discriminate.
        -- intros t r H. injection H as <- <-. constructor; [exact Hc|]. constructor; [exact Hx|exact (Hok _ _ eq_refl)].
        -- intros _. constructor; [exact Hc|]. constructor; [exact Hx|exact (Hinc eq_refl)].
      * split; [discriminate|]. intros t r H. injection H as <- _. constructor.
Qed.

Lemma esc_good n c e : n 13 = false -> c <> 13 -> existsb (N.eqb 13) e = false ->
  good (fun i => of_scan (esc_scan n c e i)).
Proof.
  intros Hn Hc He i Hi. cbv beta. destruct (esc_scan_nocr n c e Hn Hc He i) as [Hinc Hok].
  unfold of_scan. destruct (esc_scan n c e i) as [t r| |] eqn:E.
  - split; [discriminate|]. intros r0 v u H. injection H as <- _ _.
    pose proof (esc_scan_app _ _ _ _ _ _ E) as ->. apply (safe_drop t r); [eapply Hok; reflexivity|exact Hi].
  - exfalso. eapply safe_not_nocr; eauto.
  - split; discriminate.
Qed.

Lemma digits_nocr ds : Forall (fun b => nom_is_digit b = true) ds -> nocr ds.
Proof. apply all_p_nocr. reflexivity. Qed.

Lemma number_good bits : good (number_p bits).
Proof.
  unfold number_p.
  apply (span_good nom_is_digit (fun ds r => match ds with [] => RErr | _ => if dec ds <? 2 ^ bits then ROk r (VNum (dec ds)) (nlen ds) else RErr end)).
  - reflexivity.
  - intros x r H. destruct x; [discriminate|]. destruct (_ <? _); discriminate.
  - intros x r r' v u H. destruct x; [discriminate|]. destruct (_ <? _); [|discriminate]. now injection H as <- _ _.
Qed.

(* ---- the literal: the only place where the framer's "{n}" and the parser's number must agree ---- *)
Lemma spanl_all p x y o : Forall (fun b => p b = true) x -> p o = false -> spanl p (x ++ o :: y) = (x, o :: y).
Proof.
  induction 1 as [|b x Hb Hx IH]; intros Ho; cbn.
  - now rewrite Ho.
  - rewrite Hb, (IH Ho). reflexivity.
Qed.

Lemma lit_suffix_exact ds : ds <> [] -> Forall (fun b => nom_is_digit b = true) ds ->
  lit_suffix (123 :: ds ++ [125]) = Some (dec ds).
Proof.
  intros Hne Hd. unfold lit_suffix. cbn [rev]. rewrite rev_app_distr. cbn [rev app].
  replace (125 =? 125) with true by reflexivity.
  rewrite (spanl_all nom_is_digit (rev ds) [] 123); [|apply Forall_rev; exact Hd|reflexivity].
  destruct (rev ds) as [|d t] eqn:E.
  - apply (f_equal (@rev byte)) in E. rewrite rev_involutive in E. cbn in E. contradiction.
  - replace (123 =? 123) with true by reflexivity. rewrite <- E, rev_involutive. reflexivity.
Qed.

Lemma tag1_ok c i t r : tag_scan eq_case [c] i = SOk t r -> i = c :: r /\ t = [c].
Proof.
  cbn [tag_scan]. destruct i as [|b i]; [discriminate|]. unfold eq_case. destruct (N.eqb_spec c b); [|discriminate].
  intros H. injection H as <- <-. subst. auto.
Qed.

Lemma literal_good : good literal_p.
Proof.
  intros i Hi. unfold literal_p.
  destruct (tag_good eq_case [123] eq_case_crf ltac:(repeat constructor; discriminate) i Hi) as [T1 T1ok].
  cbv beta in T1, T1ok. unfold of_scan in T1, T1ok.
  destruct (tag_scan eq_case [123] i) as [t1 r1| |] eqn:E1; [|exfalso; apply T1; reflexivity|split; discriminate].
  pose proof (T1ok _ _ _ eq_refl) as S1. destruct (tag1_ok _ _ _ _ E1) as [Hi1 _]. clear T1 T1ok.
  unfold number_p. destruct (span nom_is_digit r1) as [[ds r2]|] eqn:E2.
  2:{ exfalso. eapply safe_not_nocr; [exact S1|]. eauto using digits_nocr, span_none_all. }
  pose proof (span_app _ _ _ _ E2) as Hr1. pose proof (span_some_all _ _ _ _ E2) as Hds.
  destruct ds as [|d ds]; [split; discriminate|].
  destruct (dec (d :: ds) <? 2 ^ 32); [|split; discriminate].
  assert (S2 : safe r2) by (rewrite Hr1 in S1; eapply safe_drop; eauto using digits_nocr).
  destruct (tag_good eq_case [125] eq_case_crf ltac:(repeat constructor; discriminate) r2 S2) as [T3 T3ok].
  cbv beta in T3, T3ok. unfold of_scan in T3, T3ok.
  destruct (tag_scan eq_case [125] r2) as [t3 r3| |] eqn:E3; [|exfalso; apply T3; reflexivity|split; discriminate].
  pose proof (T3ok _ _ _ eq_refl) as S3. destruct (tag1_ok _ _ _ _ E3) as [Hr2 _]. clear T3 T3ok.
  destruct (tag_scan eq_case [13; 10] r3) as [t4 r4| |] eqn:E4; [| |split; discriminate].
  2:{ exfalso. (* CRLF tag incomplete on a safe input *)
      cbn [tag_scan] in E4. destruct r3 as [|a r3']; [exact (safe_nil S3)|].
      unfold eq_case in E4. destruct (N.eqb_spec 13 a) as [<-|]; [|discriminate].
      destruct r3' as [|b r3'']; [exact (safe_single _ S3)|].
      destruct (N.eqb_spec 10 b); discriminate. }
  assert (Hr3 : r3 = 13 :: 10 :: r4).
  { cbn [tag_scan] in E4. destruct r3 as [|a r3']; [discriminate|]. unfold eq_case in E4.
    destruct (N.eqb_spec 13 a) as [<-|]; [|discriminate]. destruct r3' as [|b r3'']; [discriminate|].
    destruct (N.eqb_spec 10 b) as [<-|]; [|discriminate]. now injection E4 as _ <-. }
  assert (Hlit : lit_suffix (123 :: (d :: ds) ++ [125]) = Some (dec (d :: ds)))
    by (apply lit_suffix_exact; [discriminate|exact Hds]).
  assert (HLn : nocr (123 :: (d :: ds) ++ [125])).
  { constructor; [discriminate|]. apply nocr_app; [apply digits_nocr; exact Hds|repeat constructor; discriminate]. }
  assert (Hiall : i = (123 :: (d :: ds) ++ [125]) ++ 13 :: 10 :: r4).
  { rewrite Hi1, Hr1, Hr2, Hr3. cbn. rewrite <- app_assoc. reflexivity. }
  remember (123 :: (d :: ds) ++ [125]) as L eqn:HL. clear HL.
  assert (Hsplit : split_crlf i = Some (L, r4)).
  { rewrite Hiall, split_crlf_app_nocr by exact HLn.
    cbn [split_crlf]. replace ((13 =? 13) && (10 =? 10)) with true by reflexivity. now rewrite app_nil_r. }
  inversion Hi as [i0 line after Hsp Hl | i0 line after k data rest Hsp Hl Htk Hrest]; subst i0.
  - assert (line = L) by congruence. subst line. congruence.
  - assert (line = L) by congruence. assert (after = r4) by congruence. subst line after.
    assert (k = dec (d :: ds)) by congruence. subst k. rewrite Htk.
    match goal with |- context[forallb ?f data] => destruct (forallb f data) end; split; try discriminate.
    intros r v u H. injection H as <- _ _. exact Hrest.
Qed.

(* ---------------------------------------------------------------- the computable side condition *)
Definition leaf_inner (l : leaf) : bool :=
  match l with
  | LTag s | LTagNC s => nocrb s
  | LTakeWhile c | LTakeWhile1 c => negb (c 13)
  | LEscaped n c e => negb (n 13) && negb (c =? 13) && negb (existsb (N.eqb 13) e)
  | LNumber _ | LLiteral | LComplete _ => true
  end.

Lemma leaf_good l : leaf_inner l = true -> good (leaf_run l).
Proof.
  destruct l as [s|s|c|c|n c e|bits| |w]; cbn [leaf_inner]; intros H.
  - apply (tag_good eq_case s eq_case_crf). now apply nocrb_ok.
  - apply (tag_good eq_nocase1 s eq_nocase1_crf). now apply nocrb_ok.
  - apply (span_good c (fun x r => ROk r (VBytes x) (nlen x))).
    + now destruct (c 13).
    + discriminate.
    + intros x r r' v u E. now injection E as <- _ _.
  - apply (span_good c (fun x r => match x with [] => RErr | _ => ROk r (VBytes x) (nlen x) end)).
    + now destruct (c 13).
    + intros x r E. destruct x; discriminate.
    + intros x r r' v u E. destruct x; [discriminate|]. now injection E as <- _ _.
  - apply andb_true_iff in H. destruct H as [H H3]. apply andb_true_iff in H. destruct H as [H1 H2].
    apply esc_good.
    + now destruct (n 13).
    + apply N.eqb_neq. now destruct (c =? 13).
    + now destruct (existsb (N.eqb 13) e).
  - apply number_good.
  - apply literal_good.
  - intros i Hi. cbn [leaf_run]. split; discriminate.
Qed.

(* ---------------------------------------------------------------- combinators *)
Lemma seq_good (self : G -> P) gs d : Forall (fun g => good (self g d)) gs ->
  forall i acc u0, safe i -> seq_run self gs d i acc u0 <> RInc /\ (forall r v u, seq_run self gs d i acc u0 = ROk r v u -> safe r).
Proof.
  induction 1 as [|g gs Hg Hgs IH]; intros i acc u0 Hi; cbn [seq_run].
  - split; [discriminate|]. intros r v u H. now injection H as <- _ _.
  - destruct (Hg i Hi) as [Hn Hok]. destruct (self g d i) as [r1 v1 u1| | | | |] eqn:E; try (split; discriminate).
    + apply IH. eapply Hok; reflexivity.
    + exfalso. apply Hn. reflexivity.
Qed.

Lemma alt_good (self : G -> P) gs d : Forall (fun g => good (self g d)) gs -> good (alt_run self gs d).
Proof.
  induction 1 as [|g gs Hg Hgs IH]; intros i Hi; cbn [alt_run].
  - split; discriminate.
  - destruct (Hg i Hi) as [Hn Hok]. destruct (self g d i) as [r1 v1 u1| | | | |] eqn:E; try (split; discriminate).
    + split; [discriminate|]. intros r v u H. injection H as <- _ _. eapply Hok; reflexivity.
    + exfalso. apply Hn. reflexivity.
    + apply IH; exact Hi.
Qed.

Lemma many_good p : good p -> forall n i acc u0, safe i ->
  many_loop p n i acc u0 <> RInc /\ (forall r v u, many_loop p n i acc u0 = ROk r v u -> safe r).
Proof.
  intros Hp n. induction n as [|n IHn]; intros i acc u0 Hi; cbn [many_loop]; [split; discriminate|].
  destruct (Hp i Hi) as [Hn Hok]. destruct (p i) as [r1 v1 u1| | | | |] eqn:E; try (split; discriminate).
  - destruct (u1 =? 0); [split; discriminate|]. apply IHn. eapply Hok; reflexivity.
  - exfalso. apply Hn. reflexivity.
  - split; [discriminate|]. intros r v u H. now injection H as <- _ _.
Qed.

Lemma sep_good s p : good s -> good p -> forall n i acc u0, safe i ->
  sep_loop s p n i acc u0 <> RInc /\ (forall r v u, sep_loop s p n i acc u0 = ROk r v u -> safe r).
Proof.
  intros Hs Hp n. induction n as [|n IHn]; intros i acc u0 Hi; cbn [sep_loop]; [split; discriminate|].
  destruct (Hs i Hi) as [Hn Hok]. destruct (s i) as [r1 v1 u1| | | | |] eqn:E; try (split; discriminate).
  - destruct (u1 =? 0); [split; discriminate|]. pose proof (Hok _ _ _ eq_refl) as S1.
    destruct (Hp r1 S1) as [Hn2 Hok2]. destruct (p r1) as [r2 v2 u2| | | | |] eqn:E2; try (split; discriminate).
    + apply IHn. eapply Hok2; reflexivity.
    + exfalso. apply Hn2. reflexivity.
    + split; [discriminate|]. intros r v u H. now injection H as <- _ _.
  - exfalso. apply Hn. reflexivity.
  - split; [discriminate|]. intros r v u H. now injection H as <- _ _.
Qed.

(* ---------------------------------------------------------------- the theorem for CR-free ("inner") grammars *)
Section RunGood.
Variable natf : string -> list val -> ares.
Variable env : N -> option G.
Variable bound : nat.
Variable is_tail_def : N -> bool.      (* the top rules, whose last element is the terminating CRLF *)

Definition node_inner (g : G) : bool :=
  match g with
  | Leaf l => leaf_inner l
  | Ref f _ => negb (is_tail_def f)
  | _ => true
  end.

Definition is_crlf_tag (g : G) : bool :=
  match g with Leaf (LTag s) => list_eqb N.eqb s [13; 10] | _ => false end.

(* tail form: everything CR-free except a terminating CRLF tag in last position *)
Fixpoint tailok (g : G) : bool :=
  all_nodes node_inner g ||
  match g with
  | Leaf _ => is_crlf_tag g
  | Ref _ _ => true
  | Seq gs => (fix sq (l : list G) : bool :=
                 match l with
                 | [] => false
                 | [x] => tailok x
                 | x :: l' => all_nodes node_inner x && sq l'
                 end) gs
  | Alt gs => (fix al (l : list G) : bool := match l with [] => true | x :: l' => tailok x && al l' end) gs
  | Map _ g' | MapRes _ g' | Guard _ g' => tailok g'
  | _ => false
  end.

Hypothesis env_ok : forall f g, env f = Some g ->
  if is_tail_def f then tailok g = true else all_nodes node_inner g = true.

Theorem run_good fuel : forall g dp, all_nodes node_inner g = true -> good (run natf env bound fuel g dp).
Proof.
  induction fuel as [|f IHf]; intros g dp Hg.
  { intros i Hi. rewrite run_0. split; discriminate. }
  revert dp Hg. induction g using G_ind'; intros dp Hg; rewrite run_S; cbn [step];
    apply all_nodes_inv in Hg; destruct Hg as [Hhere Hsub].
  - apply leaf_good. exact Hhere.
  - cbn [node_inner] in Hhere. destruct (env f0) as [g'|] eqn:E; [|intros i Hi; split; discriminate].
    apply IHf. pose proof (env_ok _ _ E) as Hk. destruct (is_tail_def f0); [discriminate|exact Hk].
  - intros i Hi. destruct (Nat.leb m dp); [split; discriminate|]. apply IHg; assumption.
  - intros i Hi. apply seq_good; [|exact Hi]. rewrite Forall_forall in *. intros g Hin. apply H; auto.
  - apply alt_good. rewrite Forall_forall in *. intros g Hin. apply H; auto.
  - intros i Hi. destruct (IHg dp Hsub i Hi) as [Hn Hok].
    destruct (run natf env bound (S f) g dp i) as [r1 v1 u1| | | | |] eqn:E; try (split; discriminate).
    + split; [discriminate|]. intros r v u H. injection H as <- _ _. eapply Hok; reflexivity.
    + exfalso. apply Hn. reflexivity.
    + split; [discriminate|]. intros r v u H. now injection H as <- _ _.
  - intros i Hi. destruct (IHg dp Hsub i Hi) as [Hn Hok].
    destruct (run natf env bound (S f) g dp i) as [r1 v1 u1| | | | |] eqn:E; try (split; discriminate).
    + split; [discriminate|]. intros r v u H. injection H as <- _ _. eapply Hok; reflexivity.
    + exfalso. apply Hn. reflexivity.
    + split; [discriminate|]. intros r v u H. now injection H as <- _ _.
  - intros i Hi. apply many_good; auto.
  - intros i Hi. destruct (IHg dp Hsub i Hi) as [Hn Hok].
    destruct (run natf env bound (S f) g dp i) as [r1 v1 u1| | | | |] eqn:E; try (split; discriminate).
    + apply many_good; auto. eapply Hok; reflexivity.
    + exfalso. apply Hn. reflexivity.
  - destruct Hsub as [Hs1 Hs2]. intros i Hi. destruct (IHg2 dp Hs2 i Hi) as [Hn Hok].
    destruct (run natf env bound (S f) g2 dp i) as [r1 v1 u1| | | | |] eqn:E; try (split; discriminate).
    + apply sep_good; auto. eapply Hok; reflexivity.
    + exfalso. apply Hn. reflexivity.
    + split; [discriminate|]. intros r v u H. now injection H as <- _ _.
  - destruct Hsub as [Hs1 Hs2]. intros i Hi. destruct (IHg2 dp Hs2 i Hi) as [Hn Hok].
    destruct (run natf env bound (S f) g2 dp i) as [r1 v1 u1| | | | |] eqn:E; try (split; discriminate).
    + apply sep_good; auto. eapply Hok; reflexivity.
    + exfalso. apply Hn. reflexivity.
  - intros i Hi. destruct (IHg dp Hsub i Hi) as [Hn Hok].
    destruct (run natf env bound (S f) g dp i) as [r1 v1 u1| | | | |] eqn:E; try (split; discriminate).
    + split; [discriminate|]. intros r v u H. injection H as <- _ _. eapply Hok; reflexivity.
    + exfalso. apply Hn. reflexivity.
  - intros i Hi. destruct (IHg dp Hsub i Hi) as [Hn Hok].
    destruct (run natf env bound (S f) g dp i) as [r1 v1 u1| | | | |] eqn:E; try (split; discriminate).
    + destruct (act natf a v1) as [w| |]; split; try discriminate.
      intros r v u H. injection H as <- _ _. eapply Hok; reflexivity.
    + exfalso. apply Hn. reflexivity.
  - intros i Hi. destruct (IHg dp Hsub i Hi) as [Hn Hok].
    destruct (run natf env bound (S f) g dp i) as [r1 v1 u1| | | | |] eqn:E; try (split; discriminate).
    + destruct (act natf a v1) as [w| |]; split; try discriminate.
      intros r v u H. injection H as <- _ _. eapply Hok; reflexivity.
    + exfalso. apply Hn. reflexivity.
  - intros i Hi. split; discriminate.
Qed.

(* ---- tail rules: never Incomplete on a safe input (nothing is claimed about the rest) ---- *)
Definition good0 (p : list byte -> res) : Prop := forall i, safe i -> p i <> RInc.

Lemma good_good0 p : good p -> good0 p.
Proof. intros H i Hi. apply (H i Hi). Qed.

Lemma crlf_tag_good0 : good0 (fun i => of_scan (tag_scan eq_case [13; 10] i)).
Proof.
  intros i Hi H. cbv beta in H. unfold of_scan in H. cbn [tag_scan] in H. unfold eq_case in H.
  destruct i as [|a i']; [exact (safe_nil Hi)|].
  destruct (N.eqb_spec 13 a) as [<-|]; [|discriminate].
  destruct i' as [|b i'']; [exact (safe_single _ Hi)|].
  destruct (N.eqb_spec 10 b); discriminate.
Qed.

Lemma list_eqb_N_eq : forall a b : list N, list_eqb N.eqb a b = true -> a = b.
Proof.
  induction a as [|x a IH]; intros [|y b] H; cbn in H; try discriminate; [reflexivity|].
  apply andb_true_iff in H. destruct H as [Hx Ha]. apply N.eqb_eq in Hx. apply IH in Ha. now subst.
Qed.

Fixpoint sq_tail (l : list G) : bool :=
  match l with
  | [] => false
  | [x] => tailok x
  | x :: l' => all_nodes node_inner x && sq_tail l'
  end.

Lemma tailok_seq gs : tailok (Seq gs) = all_nodes node_inner (Seq gs) || sq_tail gs.
Proof.
  reflexivity.
Qed.
Lemma tailok_alt gs : tailok (Alt gs) = all_nodes node_inner (Alt gs) || forallb tailok gs.
Proof.
  reflexivity.
Qed.

Lemma seq_good0 (self : G -> P) dp : (forall g, all_nodes node_inner g = true -> good (self g dp)) ->
  forall gs, Forall (fun g => tailok g = true -> good0 (self g dp)) gs -> sq_tail gs = true ->
  forall i acc u0, safe i -> seq_run self gs dp i acc u0 <> RInc.
Proof.
  intros Hinner gs. induction gs as [|x gs IHgs]; intros HF Hsq i acc u0 Hi; [discriminate|].
  inversion HF as [|? ? Hx Hgs]; subst. destruct gs as [|y gs].
  - cbn [sq_tail] in Hsq. cbn [seq_run]. pose proof (Hx Hsq i Hi) as Hn.
    destruct (self x dp i); try discriminate. exfalso. apply Hn. reflexivity.
  - cbn [sq_tail] in Hsq. apply andb_true_iff in Hsq. destruct Hsq as [Hxi Hrest].
    cbn [seq_run]. destruct (Hinner x Hxi i Hi) as [Hn Hok].
    destruct (self x dp i) as [r1 v1 u1| | | | |] eqn:E; try discriminate.
    + apply IHgs; auto. eapply Hok; reflexivity.
    + exfalso. apply Hn. reflexivity.
Qed.

Lemma alt_good0 (self : G -> P) dp : forall gs, Forall (fun g => tailok g = true -> good0 (self g dp)) gs ->
  forallb tailok gs = true -> good0 (alt_run self gs dp).
Proof.
  induction gs as [|x gs IHgs]; intros HF Hall i Hi; cbn [alt_run]; [discriminate|].
  inversion HF as [|? ? Hx Hgs]; subst. cbn [forallb] in Hall. apply andb_true_iff in Hall. destruct Hall as [Hxt Hrest].
  pose proof (Hx Hxt i Hi) as Hn.
  destruct (self x dp i); try discriminate; [exfalso; apply Hn; reflexivity|]. apply IHgs; auto.
Qed.

Theorem run_good0 fuel : forall g dp, tailok g = true -> good0 (run natf env bound fuel g dp).
Proof.
  induction fuel as [|f IHf]; intros g dp Hg.
  { intros i Hi. rewrite run_0. discriminate. }
  revert dp Hg. induction g using G_ind'; intros dp Hg.
  - (* Leaf *)
    cbn [tailok] in Hg. apply orb_true_iff in Hg. destruct Hg as [Hg|Hg]; [apply good_good0, run_good; exact Hg|].
    rewrite run_S; cbn [step]. unfold is_crlf_tag in Hg. destruct l as [s| | | | | | |]; try discriminate.
    apply list_eqb_N_eq in Hg. subst s. exact crlf_tag_good0.
  - (* Ref *)
    rewrite run_S; cbn [step]. destruct (env f0) as [g'|] eqn:E; [|intros i Hi; discriminate].
    apply IHf. pose proof (env_ok _ _ E) as Hk. destruct (is_tail_def f0); [exact Hk|].
    destruct g'; cbn [tailok]; rewrite Hk; reflexivity.
  - (* Guard *)
    cbn [tailok] in Hg. apply orb_true_iff in Hg. destruct Hg as [Hg|Hg]; [apply good_good0, run_good; exact Hg|].
    rewrite run_S; cbn [step]. intros i Hi. destruct (Nat.leb m dp); [discriminate|]. apply IHg; assumption.
  - (* Seq *)
    rewrite tailok_seq in Hg. apply orb_true_iff in Hg. destruct Hg as [Hg|Hg]; [apply good_good0, run_good; exact Hg|].
    rewrite run_S; cbn [step]. intros i Hi. apply seq_good0; auto.
    + intros g Hgi. apply run_good. exact Hgi.
    + rewrite Forall_forall in *. intros g Hin Ht. apply H; auto.
  - (* Alt *)
    rewrite tailok_alt in Hg. apply orb_true_iff in Hg. destruct Hg as [Hg|Hg]; [apply good_good0, run_good; exact Hg|].
    rewrite run_S; cbn [step]. apply alt_good0; auto.
    rewrite Forall_forall in *. intros g Hin Ht. apply H; auto.
  - cbn [tailok] in Hg. rewrite orb_false_r in Hg. apply good_good0, run_good; exact Hg.
  - cbn [tailok] in Hg. rewrite orb_false_r in Hg. apply good_good0, run_good; exact Hg.
  - cbn [tailok] in Hg. rewrite orb_false_r in Hg. apply good_good0, run_good; exact Hg.
  - cbn [tailok] in Hg. rewrite orb_false_r in Hg. apply good_good0, run_good; exact Hg.
  - cbn [tailok] in Hg. rewrite orb_false_r in Hg. apply good_good0, run_good; exact Hg.
  - cbn [tailok] in Hg. rewrite orb_false_r in Hg. apply good_good0, run_good; exact Hg.
  - cbn [tailok] in Hg. rewrite orb_false_r in Hg. apply good_good0, run_good; exact Hg.
  - (* Map *)
    cbn [tailok] in Hg. apply orb_true_iff in Hg. destruct Hg as [Hg|Hg]; [apply good_good0, run_good; exact Hg|].
    rewrite run_S; cbn [step]. intros i Hi. pose proof (IHg dp Hg i Hi) as Hn.
    destruct (run natf env bound (S f) g dp i) as [r1 v1 u1| | | | |]; try discriminate; [|exfalso; apply Hn; reflexivity].
    destruct (act natf a v1); discriminate.
  - cbn [tailok] in Hg. apply orb_true_iff in Hg. destruct Hg as [Hg|Hg]; [apply good_good0, run_good; exact Hg|].
    rewrite run_S; cbn [step]. intros i Hi. pose proof (IHg dp Hg i Hi) as Hn.
    destruct (run natf env bound (S f) g dp i) as [r1 v1 u1| | | | |]; try discriminate; [|exfalso; apply Hn; reflexivity].
    destruct (act natf a v1); discriminate.
  - cbn [tailok] in Hg. rewrite orb_false_r in Hg. apply good_good0, run_good; exact Hg.
Qed.
End RunGood.
