(* X: extraction of the executable entry points used by the correspondence check (Tie B).
   ExtrOcamlBasic only; no Extract Constant of our own. *)
From Coq Require Extraction.
From Coq Require Import ExtrOcamlBasic.
From TI Require Import Bytes Tags BodyStruct Builders Grammar Nom Interp Natives Client Owned OwnedRun Machine Frames Synth.
From TI.gen Require Import BuilderTables.
Extraction "extracted/model.ml" Bytes.bs Bytes.to_dec Bytes.dec Bytes.utf8_valid Tags.idgen_next Tags.tag_of
  BodyStruct.build_map BodyStruct.candidates BodyStruct.label
  Builders.quoted_string Builders.login Builders.list_cmd Builders.select Builders.examine Builders.encode_request
  Builders.lex_command
  Natives.parse OwnedRun.owned_parse
  Frames.fstep Frames.finit Frames.read
  Machine.run_chain BuilderTables.gen_machine Machine.read_fetch Machine.denote Machine.render_fetch Machine.generic
  Client.client_init Client.call Client.stream_poll Client.fr_poll Client.rf_init Client.decode Synth.probes Synth.sentences Synth.fn_names Synth.run_fn Synth.fn_sentences.
