(* Instances and corollaries of the round-trip theorems used by C03 / C08 / C12 / C16. *)
From TI Require Import Bytes Grammar Nom Interp InterpFacts Thm_Number Thm_Fuel Natives Proofs_C01 RoundTrip Spec RoundTripRules DecFacts.
From TI.gen Require Import ImapGrammar.
From Coq Require Import Lia.
Local Open Scope N_scope.

(* C12: two spellings of one value give the same value *)
Lemma same_value_same_parse v w1 w2 r1 r2 : enc_fetch v w1 -> enc_fetch v w2 ->
  exists u1 u2, parse (w1 ++ r1) = ROk r1 v u1 /\ parse (w2 ++ r2) = ROk r2 v u2.
Proof. intros H1 H2. eexists _, _. split; apply fetch_roundtrip; assumption. Qed.

(* C08: a FETCH carrying a message as a literal: any content without NUL, any length below 2^32 *)
Lemma fetch_literal_opaque n wn k kf ds content sp rest :
  enc_number 32 n wn -> kw " FETCH " k -> kw "RFC822 " kf -> enc_spaces sp ->
  ds <> [] -> forallb rfc_DIGIT ds = true -> dec ds = nlen content -> dec ds < 2 ^ 32 -> forallb rfc_CHAR8 content = true ->
  parse ((bs "* " ++ wn ++ k ++ [40] ++ (kf ++ ([123] ++ ds ++ [125; 13; 10] ++ content)) ++ [] ++ [41] ++ sp ++ [13; 10]) ++ rest)
  = ROk rest (VCon "Response::Fetch" [VNum n; VList [VCon "AttributeValue::Rfc822" [VSome (VBytes content)]]])
        (nlen (bs "* " ++ wn ++ k ++ [40] ++ (kf ++ ([123] ++ ds ++ [125; 13; 10] ++ content)) ++ [] ++ [41] ++ sp ++ [13; 10])).
Proof.
  intros Hn Hk Hkf Hsp Hne Hd Hlen Hlt H8. apply fetch_roundtrip.
  apply enc_fetch_intro; try assumption; [|constructor].
  apply att_rfc822; [exact Hkf|]. apply enc_nstring_some, enc_string_l. constructor; assumption.
Qed.

(* C08: the same for a body section -- BODY[section]<origin> {n} CRLF content: the commonest carrier of message data *)
Lemma body_section_literal_opaque n wn k kb sec wsec idx widx ds content sp rest :
  enc_number 32 n wn -> kw " FETCH " k -> kw "BODY" kb -> enc_section sec wsec -> enc_origin idx widx -> enc_spaces sp ->
  ds <> [] -> forallb rfc_DIGIT ds = true -> dec ds = nlen content -> dec ds < 2 ^ 32 -> forallb rfc_CHAR8 content = true ->
  parse ((bs "* " ++ wn ++ k ++ [40] ++ (kb ++ wsec ++ widx ++ SPb ++ ([123] ++ ds ++ [125; 13; 10] ++ content)) ++ [] ++ [41] ++ sp ++ [13; 10]) ++ rest)
  = ROk rest (VCon "Response::Fetch" [VNum n; VList [VRec "AttributeValue::BodySection"
                 [("section"%string, sec); ("index"%string, idx); ("data"%string, VSome (VBytes content))]]])
        (nlen (bs "* " ++ wn ++ k ++ [40] ++ (kb ++ wsec ++ widx ++ SPb ++ ([123] ++ ds ++ [125; 13; 10] ++ content)) ++ [] ++ [41] ++ sp ++ [13; 10])).
Proof.
  intros Hn Hk Hkb Hsec Hidx Hsp Hne Hd Hlen Hlt H8. apply fetch_roundtrip.
  apply enc_fetch_intro; try assumption; [|constructor].
  apply att_body_section; try assumption. apply enc_nstring_some, enc_string_l. constructor; assumption.
Qed.

(* the canonical literal header of a content *)
Lemma canonical_literal content : nlen content < 2 ^ 32 -> forallb rfc_CHAR8 content = true ->
  enc_literal content ([123] ++ to_dec (nlen content) ++ [125; 13; 10] ++ content).
Proof.
  intros Hlt H8. destruct (to_dec_nonempty (nlen content)) as (d & r & E & _ & _).
  constructor; try assumption.
  - rewrite E. discriminate.
  - apply to_dec_digits.
  - apply dec_to_dec.
  - rewrite dec_to_dec. exact Hlt.
Qed.

(* C03: set-valued items mean what the wire form means: a range written high:low is the range low:high *)
Lemma range_norm_sym a b : range_norm a b = range_norm b a.
Proof.
  unfold range_norm. destruct (N.leb_spec a b), (N.leb_spec b a); try reflexivity; try lia.
  assert (a = b) by lia. subst. reflexivity.
Qed.

(* non-vacuity: a concrete FETCH with an envelope in mixed spellings *)
Definition rt_sample : list byte :=
  bs "* 0012 fEtCh (UID 7 envelope (""d"" {3}" ++ [13; 10] ++ bs ")" ++ [13; 10] ++ bs " ((""n"" nil ""m"" ""h"")(NIL NIL ""a"" ""b"")) NIL NIL Nil NIL NIL NIL ""<id>"") RFC822.SIZE 00042 MODSEQ (18446744073709551615))  " ++ [13; 10].
Lemma rt_sample_parses : match parse (rt_sample ++ bs "* 1 EXISTS") with
  | ROk rest (VCon "Response::Fetch" [VNum 12; VList [VCon "AttributeValue::Uid" [VNum 7]; VCon "AttributeValue::Envelope" [VRec "Envelope" fs]; _; _]]) _ =>
      rest = bs "* 1 EXISTS" /\ lookup "subject" fs = VSome (VBytes [41; 13; 10])
  | _ => False end.
Proof. vm_compute. split; reflexivity. Qed.

(* C08 listed finding, reproduced on the model: a literal whose content is not UTF-8 inside a bracketed response
   code.  The code is refused, resp_text falls back to plain text, and the response "ends" at the literal header. *)
Definition c08_witness : list byte := bs "* OK [BADCHARSET ({2}" ++ [13; 10; 255; 254] ++ bs ")] x" ++ [13; 10].
Lemma c08_code_literal_fallback :
  exists rest v, parse c08_witness = ROk rest v 23 /\ rest = [255; 254] ++ bs ")] x" ++ [13; 10].
Proof. eexists _, _. split; vm_compute; reflexivity. Qed.

(* non-vacuity for body structures: a multipart with a text part carrying parameters and extension data, and a
   message/rfc822 part with its own envelope and body, is accepted with the parts in their slots *)
Definition bs_sample : list byte :=
  bs "* 1 FETCH (BODYSTRUCTURE ((""TEXT"" ""PLAIN"" (""CHARSET"" ""UTF-8"") NIL NIL ""7BIT"" 12 1 NIL NIL NIL NIL)(""MESSAGE"" ""RFC822"" NIL NIL NIL ""8BIT"" 99 (NIL ""s"" NIL NIL NIL NIL NIL NIL NIL NIL) (""TEXT"" ""HTML"" NIL NIL NIL ""BASE64"" 5 2) 7) ""MIXED"" (""BOUNDARY"" ""x"") NIL NIL))" ++ [13; 10].
Lemma bs_sample_parses : match parse bs_sample with
  | ROk [] (VCon "Response::Fetch" [VNum 1; VList [VCon "AttributeValue::BodyStructure" [VRec "BodyStructure::Multipart" fs]]]) _ =>
      match lookup "bodies" fs with VList [VRec "BodyStructure::Text" _; VRec "BodyStructure::Message" _] => True | _ => False end
  | _ => False end.
Proof. vm_compute. exact I. Qed.
