(* M10 proofs: frames keep their bytes under every event history and every capacity policy. *)
From TI Require Import Bytes Grammar Interp Natives Frames.
From Coq Require Import Lia Arith PeanoNat.
Local Open Scope nat_scope.

(* ---------------------------------------------------------------- lists *)
Lemma set_nth_length {A} (l : list A) k x : List.length (set_nth l k x) = List.length l.
Proof. revert k; induction l as [|y l IH]; intros [|k]; cbn [set_nth List.length]; try reflexivity. rewrite IH. reflexivity. Qed.

Lemma nth_set_nth_same {A} (l : list A) k x d : k < List.length l -> nth k (set_nth l k x) d = x.
Proof.
  revert k; induction l as [|y l IH]; intros [|k] H; cbn [List.length] in H; try lia; cbn [set_nth nth]; [reflexivity|].
  apply IH. lia.
Qed.

Lemma nth_set_nth_other {A} (l : list A) k j x d : j <> k -> nth j (set_nth l k x) d = nth j l d.
Proof.
  revert k j; induction l as [|y l IH]; intros [|k] [|j] H; cbn [set_nth nth]; try reflexivity; try lia.
  apply IH. lia.
Qed.

Lemma write_at_length (data chunk : list byte) pos :
  pos + List.length chunk <= List.length data -> List.length (write_at data pos chunk) = List.length data.
Proof.
  intro H. unfold write_at. rewrite !app_length, firstn_length, skipn_length. lia.
Qed.

Lemma skipn_firstn_app {A} (a b : list A) n : n <= List.length a -> skipn n (a ++ b) = skipn n a ++ b.
Proof. intro H. rewrite skipn_app. replace (n - List.length a) with 0 by lia. reflexivity. Qed.

(* a window that ends at or before `pos` does not see a write at `pos` *)
Lemma read_write_before (data chunk : list byte) pos off len :
  off + len <= pos -> pos <= List.length data ->
  firstn len (skipn off (write_at data pos chunk)) = firstn len (skipn off data).
Proof.
  intros H Hp. unfold write_at.
  rewrite skipn_firstn_app by (rewrite firstn_length; lia).
  rewrite firstn_app. rewrite skipn_length, firstn_length.
  replace (len - (Nat.min pos (List.length data) - off)) with 0 by lia. cbn [firstn]. rewrite app_nil_r.
  rewrite <- (firstn_skipn pos data) at 2. rewrite skipn_firstn_app by (rewrite firstn_length; lia).
  rewrite firstn_app. rewrite skipn_length, firstn_length.
  replace (len - (Nat.min pos (List.length data) - off)) with 0 by lia. cbn [firstn]. rewrite app_nil_r. reflexivity.
Qed.

Lemma nth_app_old {A} (l : list A) x k d : k < List.length l -> nth k (l ++ [x]) d = nth k l d.
Proof. intro H. apply app_nth1. exact H. Qed.

(* ---------------------------------------------------------------- the invariant *)
Definition ids_ok (s : fstore) : Prop := NoDup (map fst (live s)).
Definition inv (s : fstore) : Prop := store_ok s /\ ids_ok s.

Lemma finit_inv cap : inv (finit cap).
Proof.
  split; [split|]; cbn.
  - intros f [].
  - unfold view_ok. cbn. lia.
  - constructor.
Qed.

Lemma view_ok_grow h x v : view_ok h v -> view_ok (h ++ [x]) v.
Proof.
  unfold view_ok. intros [A B]. split; [rewrite app_length; cbn; lia|]. rewrite nth_app_old by exact A. exact B.
Qed.

Lemma view_ok_set h k x v : List.length x = List.length (nth k h []) -> view_ok h v -> view_ok (set_nth h k x) v.
Proof.
  unfold view_ok. intros Hl [A B]. rewrite set_nth_length. split; [exact A|].
  destruct (Nat.eq_dec (v_alloc v) k) as [E|Hne].
  - rewrite E in A, B |- *. rewrite nth_set_nth_same by exact A. rewrite Hl. exact B.
  - rewrite nth_set_nth_other by exact Hne. exact B.
Qed.

Lemma shares_false a fs : shares a fs = false -> forall f, In f fs -> v_alloc (snd f) <> a.
Proof.
  unfold shares. intros H f Hin E.
  assert (existsb (fun f0 => Nat.eqb (v_alloc (snd f0)) a) fs = true) as C.
  { apply existsb_exists. exists f. split; [exact Hin | apply Nat.eqb_eq; exact E]. }
  rewrite C in H. discriminate.
Qed.

Lemma NoDup_snoc {A} (l : list A) x : NoDup l -> ~ In x l -> NoDup (l ++ [x]).
Proof.
  induction l as [|y l IH]; intros Hn Hx; cbn [app].
  - constructor; [intros []|constructor].
  - inversion Hn as [|y' l' Hy Hl]; subst. constructor.
    + intro Hin. apply in_app_or in Hin. destruct Hin as [Hin | [E | []]]; [exact (Hy Hin) | apply Hx; left; symmetry; exact E].
    + apply IH; [exact Hl | intro Hin; apply Hx; right; exact Hin].
Qed.

Definition step_ok (s s' : fstore) (e : event) : Prop :=
  inv s' /\
  (forall f, In f (live s) -> In f (live s') -> read (heap s') (snd f) = read (heap s) (snd f)) /\
  (forall f, In f (live s) -> In f (live s') \/ e = EDrop (fst f)) /\
  next_id s <= next_id s'.

Lemma unchanged s e : inv s -> step_ok s s e.
Proof. intro H. split; [exact H|]. split; [reflexivity|]. split; [intros f Hf; left; exact Hf | apply le_n]. Qed.

Ltac parts :=
  split; [split; [split; [intros f Hf; split; [|split] | ] | ] | split; [intros f Hf Hf' | split; [intros f Hf | ]]].

(* one event: the invariant is kept, and every frame that is still live reads the same bytes *)
Lemma fstep_inv s e : inv s -> step_ok s (fstep s e) e.
Proof.
  intros Hinv. pose proof Hinv as [[Hl Hw] Hid].
  destruct e as [chunk slack | | slack | | id | ].
  - (* EWrite *)
    cbn [fstep]. destruct (rb s) as [w|] eqn:Erb; [|apply unchanged; exact Hinv].
    destruct Hw as [HwA HwB].
    destruct (Nat.leb (v_off w + v_len w + List.length chunk) (List.length (nth (v_alloc w) (heap s) []))) eqn:Ecap.
    + apply Nat.leb_le in Ecap.
      assert (Hlen : List.length (write_at (nth (v_alloc w) (heap s) []) (v_off w + v_len w) chunk) = List.length (nth (v_alloc w) (heap s) []))
        by (apply write_at_length; lia).
      parts; cbn [heap rb live next_id] in *.
      * apply view_ok_set; [exact Hlen | exact (proj1 (Hl f Hf))].
      * exact (proj1 (proj2 (Hl f Hf))).
      * intro E. pose proof (proj2 (proj2 (Hl f Hf))) as P. try rewrite Erb in P. cbn [v_alloc v_off] in *. exact (P E).
      * unfold view_ok. cbn [v_alloc v_off v_len]. rewrite set_nth_length. split; [exact HwA|].
        rewrite nth_set_nth_same by exact HwA. rewrite Hlen. lia.
      * exact Hid.
      * unfold read. destruct (Hl f Hf) as [[A B] [_ C]]. try rewrite Erb in C.
        destruct (Nat.eq_dec (v_alloc (snd f)) (v_alloc w)) as [E|Hne].
        -- rewrite E. rewrite nth_set_nth_same by exact HwA. apply read_write_before; [specialize (C E); lia | lia].
        -- rewrite nth_set_nth_other by exact Hne. reflexivity.
      * left. exact Hf.
      * apply le_n.
    + unfold fresh. parts; cbn [heap rb live next_id] in *.
      * apply view_ok_grow. exact (proj1 (Hl f Hf)).
      * exact (proj1 (proj2 (Hl f Hf))).
      * cbn [v_alloc]. intro E. destruct (Hl f Hf) as [[A _] _]. lia.
      * unfold view_ok. cbn [v_alloc v_off v_len]. rewrite app_length. cbn [List.length]. split; [lia|].
        rewrite nth_middle. rewrite !app_length, repeat_length. unfold read. rewrite firstn_length, skipn_length. lia.
      * exact Hid.
      * unfold read. destruct (Hl f Hf) as [[A _] _]. rewrite nth_app_old by exact A. reflexivity.
      * left. exact Hf.
      * apply le_n.
  - (* EFront *)
    cbn [fstep]. destruct (rb s) as [w|] eqn:Erb; [|apply unchanged; exact Hinv].
    destruct Hw as [HwA HwB].
    destruct (shares (v_alloc w) (live s)) eqn:Esh; [apply unchanged; exact Hinv|].
    pose proof (shares_false _ _ Esh) as Hns.
    assert (Hrl : List.length (read (heap s) w) = v_len w) by (unfold read; rewrite firstn_length, skipn_length; lia).
    assert (Hlen : List.length (write_at (nth (v_alloc w) (heap s) []) 0 (read (heap s) w)) = List.length (nth (v_alloc w) (heap s) []))
      by (apply write_at_length; lia).
    parts; cbn [heap rb live next_id] in *.
    + apply view_ok_set; [exact Hlen | exact (proj1 (Hl f Hf))].
    + exact (proj1 (proj2 (Hl f Hf))).
    + intro E. exfalso. exact (Hns f Hf E).
    + unfold view_ok. cbn [v_alloc v_off v_len]. rewrite set_nth_length. split; [exact HwA|].
      rewrite nth_set_nth_same by exact HwA. rewrite Hlen. lia.
    + exact Hid.
    + unfold read. rewrite nth_set_nth_other by (exact (Hns f Hf)). reflexivity.
    + left. exact Hf.
    + apply le_n.
  - (* ENew *)
    cbn [fstep]. destruct (rb s) as [w|] eqn:Erb; [|apply unchanged; exact Hinv].
    destruct Hw as [HwA HwB]. unfold fresh. parts; cbn [heap rb live next_id] in *.
    + apply view_ok_grow. exact (proj1 (Hl f Hf)).
    + exact (proj1 (proj2 (Hl f Hf))).
    + cbn [v_alloc]. intro E. destruct (Hl f Hf) as [[A _] _]. lia.
    + unfold view_ok. cbn [v_alloc v_off v_len]. rewrite app_length. cbn [List.length]. split; [lia|].
      rewrite nth_middle. rewrite !app_length, repeat_length. unfold read. rewrite firstn_length, skipn_length. cbn [List.length]. lia.
    + exact Hid.
    + unfold read. destruct (Hl f Hf) as [[A _] _]. rewrite nth_app_old by exact A. reflexivity.
    + left. exact Hf.
    + apply le_n.
  - (* EDecode *)
    cbn [fstep]. destruct (rb s) as [w|] eqn:Erb; [|apply unchanged; exact Hinv].
    destruct Hw as [HwA HwB].
    destruct (parse (read (heap s) w)) as [rest v used | | | | |]; try (apply unchanged; exact Hinv).
    destruct (Nat.leb (N.to_nat used) (v_len w)) eqn:Eu; [|apply unchanged; exact Hinv].
    apply Nat.leb_le in Eu. set (n := N.to_nat used) in *.
    parts; cbn [heap rb live next_id] in *.
    + apply in_app_or in Hf. destruct Hf as [Hf | [<- | []]]; [exact (proj1 (Hl f Hf)) | split; [exact HwA | cbn [snd v_alloc v_off v_len]; lia]].
    + apply in_app_or in Hf. destruct Hf as [Hf | [<- | []]]; [pose proof (proj1 (proj2 (Hl f Hf))); lia | cbn [fst]; lia].
    + cbn [v_alloc v_off]. apply in_app_or in Hf. destruct Hf as [Hf | [<- | []]].
      * intro E. pose proof (proj2 (proj2 (Hl f Hf))) as P. try rewrite Erb in P. specialize (P E). lia.
      * intros _. cbn [snd v_off v_len]. lia.
    + split; [exact HwA | cbn [v_alloc v_off v_len]; lia].
    + unfold ids_ok in *. cbn [live]. rewrite map_app. cbn [map fst].
      apply NoDup_snoc; [exact Hid|]. intro Hin. apply in_map_iff in Hin. destruct Hin as (g & Hg & Hin).
      pose proof (proj1 (proj2 (Hl g Hin))). lia.
    + reflexivity.
    + left. apply in_or_app. left. exact Hf.
    + lia.
  - (* EDrop *)
    cbn [fstep]. parts; cbn [heap rb live next_id] in *.
    + apply filter_In in Hf. exact (proj1 (Hl f (proj1 Hf))).
    + apply filter_In in Hf. exact (proj1 (proj2 (Hl f (proj1 Hf)))).
    + apply filter_In in Hf. exact (proj2 (proj2 (Hl f (proj1 Hf)))).
    + exact Hw.
    + unfold ids_ok in *. cbn [live]. clear - Hid. induction (live s) as [|f l IH]; [constructor|].
      cbn [map] in Hid. inversion Hid as [|x xs Hnin Hnd]; subst. cbn [filter].
      destruct (negb (Nat.eqb (fst f) id)).
      * cbn [map]. constructor; [|exact (IH Hnd)]. intro Hin. apply Hnin.
        apply in_map_iff in Hin. destruct Hin as (g & Hg & Hin). apply filter_In in Hin. destruct Hin as [Hin _].
        apply in_map_iff. exists g. split; assumption.
      * exact (IH Hnd).
    + reflexivity.
    + destruct (Nat.eq_dec (fst f) id) as [E|Hne]; [right; rewrite E; reflexivity|].
      left. apply filter_In. split; [exact Hf|]. apply Bool.negb_true_iff. apply Nat.eqb_neq. exact Hne.
    + apply le_n.
  - (* EDropConn *)
    cbn [fstep]. parts; cbn [heap rb live next_id] in *.
    + exact (proj1 (Hl f Hf)).
    + exact (proj1 (proj2 (Hl f Hf))).
    + exact I.
    + exact I.
    + exact Hid.
    + reflexivity.
    + left. exact Hf.
    + apply le_n.
Qed.

Lemma find_unique (l : list (nat * view)) f : NoDup (map fst l) -> In f l ->
  find (fun g => Nat.eqb (fst g) (fst f)) l = Some f.
Proof.
  induction l as [|g l IH]; intros Hn Hin; [destruct Hin|].
  cbn [map] in Hn. inversion Hn as [|x xs Hnin Hnd]; subst. cbn [find].
  destruct Hin as [->|Hin].
  - rewrite Nat.eqb_refl. reflexivity.
  - destruct (Nat.eqb (fst g) (fst f)) eqn:E.
    + apply Nat.eqb_eq in E. exfalso. apply Hnin. rewrite E. apply in_map. exact Hin.
    + exact (IH Hnd Hin).
Qed.

Lemma find_in (l : list (nat * view)) id f : find (fun g => Nat.eqb (fst g) id) l = Some f -> In f l /\ fst f = id.
Proof.
  intro H. apply find_some in H. destruct H as [A B]. apply Nat.eqb_eq in B. split; assumption.
Qed.

(* any history: a frame reads the same bytes until it is dropped (and is never seen again afterwards) *)
Theorem frames_keep_their_bytes : forall es s id b, inv s -> frame_bytes s id = Some b ->
  frame_bytes (fsteps s es) id = Some b \/ (In (EDrop id) es /\ frame_bytes (fsteps s es) id = None).
Proof.
  induction es as [|e es IH]; intros s id b Hinv Hb; [left; exact Hb|].
  unfold fsteps in *. cbn [fold_left].
  destruct (fstep_inv s e Hinv) as (Hinv' & Hread & Hmem & Hnext).
  unfold frame_bytes in Hb. destruct (find (fun f => Nat.eqb (fst f) id) (live s)) as [f|] eqn:Ef; [|discriminate].
  injection Hb as Hb. destruct (find_in _ _ _ Ef) as [Hin Hfid].
  destruct (Hmem f Hin) as [Hin' | He].
  - assert (Hb' : frame_bytes (fstep s e) id = Some b).
    { unfold frame_bytes. rewrite <- Hfid. rewrite (find_unique _ f (proj2 Hinv') Hin'). rewrite (Hread f Hin Hin'). rewrite Hb. reflexivity. }
    destruct (IH (fstep s e) id b Hinv' Hb') as [A | [A B]]; [left; exact A | right; split; [right; exact A | exact B]].
  - right. rewrite Hfid in He. split; [left; exact He|].
    (* once dropped, the number is never reused: ids only grow *)
    subst e. clear IH Hread Hmem.
    assert (Hgone : forall es' s', inv s' -> (forall g, In g (live s') -> fst g <> id) -> id < next_id s' ->
                      frame_bytes (fold_left fstep es' s') id = None).
    { induction es' as [|e' es' IH']; intros s' Hi Hno Hlt.
      - cbn [fold_left]. unfold frame_bytes. destruct (find _ (live s')) as [g|] eqn:Eg; [|reflexivity].
        destruct (find_in _ _ _ Eg) as [Hg Hgid]. exfalso. exact (Hno g Hg Hgid).
      - cbn [fold_left]. destruct (fstep_inv s' e' Hi) as (Hi' & _ & _ & Hn').
        apply IH'; [exact Hi' | | lia].
        intros g Hg Hgid.
        (* g is live after the step: either it was live before, or it is the frame just created (number next_id s' > id) *)
        destruct e'; cbn [fstep] in Hg; try (destruct (rb s') as [w|]; [|exact (Hno g Hg Hgid)]).
        + destruct (Nat.leb _ _); cbn [live fresh] in Hg; exact (Hno g Hg Hgid).
        + destruct (shares _ _); cbn [live] in Hg; exact (Hno g Hg Hgid).
        + cbn [live fresh] in Hg. exact (Hno g Hg Hgid).
        + destruct (parse _); try exact (Hno g Hg Hgid). destruct (Nat.leb _ _); [|exact (Hno g Hg Hgid)].
          cbn [live] in Hg. apply in_app_or in Hg. destruct Hg as [Hg | [<- | []]]; [exact (Hno g Hg Hgid) | cbn [fst] in Hgid; lia].
        + cbn [live] in Hg. apply filter_In in Hg. exact (Hno g (proj1 Hg) Hgid).
        + cbn [live] in Hg. exact (Hno g Hg Hgid). }
    apply Hgone; [exact Hinv' | | ].
    + cbn [fstep live]. intros g Hg Hgid. apply filter_In in Hg. destruct Hg as [_ Hg].
      apply Bool.negb_true_iff in Hg. apply Nat.eqb_neq in Hg. exact (Hg Hgid).
    + cbn [fstep next_id]. destruct Hinv as [[Hl _] _]. pose proof (proj1 (proj2 (Hl f Hin))). lia.
Qed.

(* a frame's bytes at delivery are the bytes the parser consumed: the leading `used` bytes of the window *)
Theorem delivered_frame_is_parsed_prefix s w rest v used :
  rb s = Some w -> parse (read (heap s) w) = ROk rest v used -> N.to_nat used <= v_len w -> inv s ->
  frame_bytes (fstep s EDecode) (next_id s) = Some (firstn (N.to_nat used) (read (heap s) w)).
Proof.
  intros Erb Hp Hu Hinv. unfold frame_bytes. cbn [fstep]. rewrite Erb, Hp.
  apply Nat.leb_le in Hu. rewrite Hu. cbn [live heap].
  assert (Hnf : find (fun f => Nat.eqb (fst f) (next_id s)) (live s) = None).
  { destruct (find _ (live s)) as [g|] eqn:Eg; [|reflexivity]. destruct (find_in _ _ _ Eg) as [Hg Hgid].
    destruct Hinv as [[Hl _] _]. pose proof (proj1 (proj2 (Hl g Hg))). lia. }
  assert (Hfind : forall l, find (fun f => Nat.eqb (fst f) (next_id s)) l = None ->
             find (fun f => Nat.eqb (fst f) (next_id s)) (l ++ [(next_id s, mk_view (v_alloc w) (v_off w) (N.to_nat used))])
             = Some (next_id s, mk_view (v_alloc w) (v_off w) (N.to_nat used))).
  { induction l as [|g l IH]; intro H; cbn [app find fst].
    - rewrite Nat.eqb_refl. reflexivity.
    - cbn [find] in H. destruct (Nat.eqb (fst g) (next_id s)); [discriminate|]. exact (IH H). }
  rewrite (Hfind _ Hnf). cbn [snd]. unfold read. cbn [v_alloc v_off v_len]. f_equal.
  rewrite firstn_firstn. apply Nat.leb_le in Hu. replace (Nat.min (N.to_nat used) (v_len w)) with (N.to_nat used) by lia. reflexivity.
Qed.

Lemma fsteps_inv : forall es s, inv s -> inv (fsteps s es).
Proof.
  induction es as [|e es IH]; intros s H; [exact H|]. unfold fsteps in *. cbn [fold_left]. apply IH. exact (proj1 (fstep_inv s e H)).
Qed.

Theorem reachable_frames_keep_their_bytes cap es1 es2 id b :
  frame_bytes (fsteps (finit cap) es1) id = Some b ->
  frame_bytes (fsteps (finit cap) (es1 ++ es2)) id = Some b \/
  (In (EDrop id) es2 /\ frame_bytes (fsteps (finit cap) (es1 ++ es2)) id = None).
Proof.
  intro H. unfold fsteps. rewrite fold_left_app. apply frames_keep_their_bytes; [apply fsteps_inv, finit_inv | exact H].
Qed.

(* non-vacuity: two responses arriving in three chunks, a reclaim, a reallocation, a drop, the connection dropped *)
Definition crlf : list byte := [13%N; 10%N].
Definition c07_history : list event :=
  [EWrite (bs "* 1 EXISTS" ++ crlf ++ bs "* 2 RE") 0; EDecode; EDecode; EFront; EWrite (bs "CENT" ++ [13%N]) 64; EWrite [10%N] 0; EDecode;
   ENew 16; EWrite (bs "* 3 EXPUNGE" ++ crlf) 8; EDrop 0; EFront; EDecode; EDropConn].
Lemma c07_history_ok :
  let s := fsteps (finit 20) c07_history in
  frame_bytes s 0 = None /\ frame_bytes s 1 = Some (bs "* 2 RECENT" ++ crlf) /\ frame_bytes s 2 = Some (bs "* 3 EXPUNGE" ++ crlf) /\
  List.length (heap s) = 3.
Proof. vm_compute. repeat split. Qed.
