(* The map semantics of an ID parameter list (RFC 2971), independent of the insertion algorithm: the result is the
   strictly key-sorted list whose members are exactly the (name, value) pairs of the LAST field with that name among the
   fields that have a value.  Facts about Natives.hm_insert / bytes_ltb showing that the modelled HashMap (kept sorted by
   key for a canonical dump) computes exactly that, and that the characterisation determines the list uniquely. *)
From TI Require Import Bytes Grammar Nom Interp Natives.
From Coq Require Import Lia Sorted.
Local Open Scope N_scope.

(* ---------------------------------------------------------------- the order on byte strings *)
Lemma bytes_eqb_refl a : bytes_eqb a a = true.
Proof. unfold bytes_eqb. induction a as [|x a IH]; [reflexivity|]. cbn [list_eqb]. rewrite N.eqb_refl. exact IH. Qed.

Lemma bytes_eqb_true a b : bytes_eqb a b = true -> a = b.
Proof.
  unfold bytes_eqb. revert b; induction a as [|x a IH]; intros [|y b] H; try discriminate; [reflexivity|].
  cbn [list_eqb] in H. apply andb_true_iff in H. destruct H as [H1 H2]. apply N.eqb_eq in H1. subst y. f_equal. exact (IH b H2).
Qed.

Lemma bytes_eqb_false a b : bytes_eqb a b = false -> a <> b.
Proof. intros H ->. rewrite bytes_eqb_refl in H. discriminate. Qed.

Lemma bytes_ltb_irrefl a : bytes_ltb a a = false.
Proof. induction a as [|x a IH]; [reflexivity|]. cbn [bytes_ltb]. rewrite N.ltb_irrefl. exact IH. Qed.

Lemma bytes_ltb_trans : forall a b c, bytes_ltb a b = true -> bytes_ltb b c = true -> bytes_ltb a c = true.
Proof.
  induction a as [|x a IH]; intros [|y b] [|z c] H1 H2; cbn [bytes_ltb] in *; try discriminate; try reflexivity.
  destruct (x <? y) eqn:Exy.
  - apply N.ltb_lt in Exy. destruct (y <? z) eqn:Eyz.
    + apply N.ltb_lt in Eyz. replace (x <? z) with true by (symmetry; apply N.ltb_lt; lia). reflexivity.
    + destruct (z <? y) eqn:Ezy; [discriminate|]. apply N.ltb_ge in Eyz, Ezy. assert (y = z) by lia. subst z.
      replace (x <? y) with true by (symmetry; apply N.ltb_lt; lia). reflexivity.
  - destruct (y <? x) eqn:Eyx; [discriminate|]. apply N.ltb_ge in Exy, Eyx. assert (x = y) by lia. subst y.
    destruct (x <? z) eqn:Exz; [reflexivity|]. destruct (z <? x) eqn:Ezx; [discriminate|]. exact (IH b c H1 H2).
Qed.

Lemma bytes_trichotomy : forall a b, bytes_eqb a b = false -> bytes_ltb a b = false -> bytes_ltb b a = true.
Proof.
  induction a as [|x a IH]; intros [|y b] He Hl; cbn [bytes_ltb] in *; try discriminate; try reflexivity.
  unfold bytes_eqb in He. cbn [list_eqb] in He.
  destruct (x <? y) eqn:Exy; [discriminate|]. destruct (y <? x) eqn:Eyx; [reflexivity|].
  apply N.ltb_ge in Exy, Eyx. assert (x = y) by lia. subst y. rewrite N.eqb_refl in He. cbn [andb] in He. exact (IH b He Hl).
Qed.

Lemma bytes_ltb_neq a b : bytes_ltb a b = true -> a <> b.
Proof. intros H ->. rewrite bytes_ltb_irrefl in H. discriminate. Qed.

(* ---------------------------------------------------------------- sorted association lists *)
Definition amap := list (list byte * list byte).
Definition key_lt (p q : list byte * list byte) : Prop := bytes_ltb (fst p) (fst q) = true.
Definition sorted (m : amap) : Prop := StronglySorted key_lt m.

Lemma sorted_tail p m : sorted (p :: m) -> sorted m.
Proof. intro H. inversion H. assumption. Qed.
Lemma sorted_head p m : sorted (p :: m) -> Forall (key_lt p) m.
Proof. intro H. inversion H. assumption. Qed.

Lemma sorted_in_lt p m q : sorted (p :: m) -> In q m -> bytes_ltb (fst p) (fst q) = true.
Proof. intros H Hin. pose proof (sorted_head p m H) as F. rewrite Forall_forall in F. exact (F q Hin). Qed.

(* membership after an insertion, on a sorted list *)
Lemma hm_insert_sorted k v : forall m, sorted m -> sorted (hm_insert k v m).
Proof.
  induction m as [|[k' v'] m IH]; intro Hs; cbn [hm_insert].
  - constructor; constructor.
  - destruct (bytes_eqb k k') eqn:Ee.
    + apply bytes_eqb_true in Ee. subst k'. constructor; [exact (sorted_tail _ _ Hs) | exact (sorted_head _ _ Hs)].
    + destruct (bytes_ltb k k') eqn:El.
      * constructor; [exact Hs|]. constructor; [exact El|].
        pose proof (sorted_head _ _ Hs) as F. rewrite Forall_forall in F |- *. intros q Hq.
        unfold key_lt in *. cbn [fst] in *. exact (bytes_ltb_trans k k' (fst q) El (F q Hq)).
      * pose proof (bytes_trichotomy k k' Ee El) as Hgt.
        constructor; [apply IH; exact (sorted_tail _ _ Hs)|].
        rewrite Forall_forall. intros q Hq. unfold key_lt. cbn [fst].
        (* q is the new pair or an old one *)
        assert (Hq' : q = (k, v) \/ In q m).
        { clear -Hq. induction m as [|[k2 v2] m IHm]; cbn [hm_insert] in Hq.
          - destruct Hq as [<- | []]. left. reflexivity.
          - destruct (bytes_eqb k k2); [destruct Hq as [<- | Hq]; [left; reflexivity | right; right; exact Hq]|].
            destruct (bytes_ltb k k2); [destruct Hq as [<- | Hq]; [left; reflexivity | right; exact Hq]|].
            destruct Hq as [<- | Hq]; [right; left; reflexivity|]. destruct (IHm Hq) as [-> | H]; [left; reflexivity | right; right; exact H]. }
        destruct Hq' as [-> | Hin]; [exact Hgt | exact (sorted_in_lt _ _ _ Hs Hin)].
Qed.

Lemma hm_insert_in k v : forall m, sorted m -> forall k0 v0,
  In (k0, v0) (hm_insert k v m) <-> (k0 = k /\ v0 = v) \/ (k0 <> k /\ In (k0, v0) m).
Proof.
  induction m as [|[k' v'] m IH]; intros Hs k0 v0; cbn [hm_insert].
  - cbn [In]. split.
    + intros [E | []]. injection E as <- <-. left. split; reflexivity.
    + intros [[-> ->] | [_ []]]. left. reflexivity.
  - destruct (bytes_eqb k k') eqn:Ee.
    + apply bytes_eqb_true in Ee. subst k'. cbn [In]. split.
      * intros [E | Hin]; [injection E as <- <-; left; split; reflexivity|]. right. split; [|right; exact Hin].
        pose proof (sorted_in_lt _ _ _ Hs Hin) as Hl. cbn [fst] in Hl. intros ->. rewrite bytes_ltb_irrefl in Hl. discriminate.
      * intros [[-> ->] | [Hne [E | Hin]]]; [left; reflexivity | injection E as <- _; contradiction | right; exact Hin].
    + pose proof (bytes_eqb_false _ _ Ee) as Hne'. destruct (bytes_ltb k k') eqn:El.
      * cbn [In]. split.
        -- intros [E | [E | Hin]]; [injection E as <- <-; left; split; reflexivity | | ].
           ++ injection E as <- <-. right. split; [intros ->; apply Hne'; reflexivity | left; reflexivity].
           ++ right. split; [|right; exact Hin]. pose proof (sorted_in_lt _ _ _ Hs Hin) as Hl. cbn [fst] in Hl.
              intros ->. pose proof (bytes_ltb_trans _ _ _ El Hl) as Hx. rewrite bytes_ltb_irrefl in Hx. discriminate.
        -- intros [[-> ->] | [Hne Hin]]; [left; reflexivity | right; exact Hin].
      * cbn [In]. rewrite (IH (sorted_tail _ _ Hs) k0 v0). split.
        -- intros [E | [[-> ->] | [Hne Hin]]].
           ++ injection E as <- <-. right. split; [intros ->; apply Hne'; reflexivity | left; reflexivity].
           ++ left. split; reflexivity.
           ++ right. split; [exact Hne | right; exact Hin].
        -- intros [[-> ->] | [Hne [E | Hin]]].
           ++ right. left. split; reflexivity.
           ++ left. exact E.
           ++ right. right. split; assumption.
Qed.

(* a sorted list is determined by its members *)
Lemma sorted_ext : forall m1 m2 : amap, sorted m1 -> sorted m2 -> (forall p, In p m1 <-> In p m2) -> m1 = m2.
Proof.
  induction m1 as [|p1 m1 IH]; intros m2 H1 H2 Hext.
  - destruct m2 as [|p2 m2]; [reflexivity|]. exfalso. apply (proj2 (Hext p2)). left. reflexivity.
  - destruct m2 as [|p2 m2]; [exfalso; apply (proj1 (Hext p1)); left; reflexivity|].
    assert (Hp : p1 = p2).
    { destruct (proj1 (Hext p1) (or_introl eq_refl)) as [E | Hin1]; [symmetry; exact E|].
      destruct (proj2 (Hext p2) (or_introl eq_refl)) as [E | Hin2]; [exact E|].
      pose proof (sorted_in_lt _ _ _ H2 Hin1) as L1. pose proof (sorted_in_lt _ _ _ H1 Hin2) as L2.
      pose proof (bytes_ltb_trans _ _ _ L1 L2) as Lx. rewrite bytes_ltb_irrefl in Lx. discriminate. }
    subst p2. f_equal. apply IH; [exact (sorted_tail _ _ H1) | exact (sorted_tail _ _ H2)|].
    intro q. split; intro Hq.
    + destruct (proj1 (Hext q) (or_intror Hq)) as [E | Hin]; [|exact Hin]. subst q.
      pose proof (sorted_in_lt _ _ _ H1 Hq) as L. rewrite bytes_ltb_irrefl in L. discriminate.
    + destruct (proj2 (Hext q) (or_intror Hq)) as [E | Hin]; [|exact Hin]. subst q.
      pose proof (sorted_in_lt _ _ _ H2 Hq) as L. rewrite bytes_ltb_irrefl in L. discriminate.
Qed.

(* ---------------------------------------------------------------- the map a field list denotes *)
Definition field := (list byte * option (list byte))%type.

(* the value of name k: that of the last field named k among the fields that have a value *)
Fixpoint id_lookup (fs : list field) (k : list byte) : option (list byte) :=
  match fs with
  | [] => None
  | (k', ov) :: t =>
    match id_lookup t k with
    | Some v => Some v
    | None => if bytes_eqb k k' then ov else None
    end
  end.

Definition denotes (fs : list field) (m : amap) : Prop :=
  sorted m /\ forall k v, In (k, v) m <-> id_lookup fs k = Some v.

Lemma id_lookup_snoc fs k' ov k :
  id_lookup (fs ++ [(k', ov)]) k =
  match (if bytes_eqb k k' then ov else None) with Some v => Some v | None => id_lookup fs k end.
Proof.
  induction fs as [|[k2 ov2] fs IH]; cbn [app id_lookup].
  - destruct (if bytes_eqb k k' then ov else None); reflexivity.
  - rewrite IH. destruct (if bytes_eqb k k' then ov else None) as [v|]; [reflexivity|]. reflexivity.
Qed.

(* the insertion step of the parser: fields without a value are skipped *)
Definition ins_field (m : amap) (f : field) : amap := match f with (k, Some v) => hm_insert k v m | (_, None) => m end.

Lemma ins_field_denotes fs m f : denotes fs m -> denotes (fs ++ [f]) (ins_field m f).
Proof.
  intros [Hs Hm]. destruct f as [k' [v'|]]; cbn [ins_field].
  - split; [apply hm_insert_sorted, Hs|]. intros k v. rewrite (hm_insert_in k' v' m Hs k v), id_lookup_snoc.
    destruct (bytes_eqb k k') eqn:E.
    + apply bytes_eqb_true in E. subst k'. split.
      * intros [[_ ->] | [Hne _]]; [reflexivity | contradiction].
      * intro H. injection H as <-. left. split; reflexivity.
    + pose proof (bytes_eqb_false _ _ E) as Hne. rewrite <- Hm. split.
      * intros [[-> _] | [_ Hin]]; [contradiction | exact Hin].
      * intro Hin. right. split; assumption.
  - split; [exact Hs|]. intros k v. rewrite id_lookup_snoc. destruct (bytes_eqb k k'); apply Hm.
Qed.

Lemma fold_ins_denotes : forall l fs m, denotes fs m -> denotes (fs ++ l) (fold_left ins_field l m).
Proof.
  induction l as [|f l IH]; intros fs m H; cbn [fold_left].
  - rewrite app_nil_r. exact H.
  - replace (fs ++ f :: l) with ((fs ++ [f]) ++ l) by (rewrite <- app_assoc; reflexivity). apply IH. apply ins_field_denotes, H.
Qed.

Theorem fold_ins_is_the_denoted_map fs : denotes fs (fold_left ins_field fs []).
Proof.
  apply (fold_ins_denotes fs [] []). split; [constructor|]. intros k v. cbn. split; [intros [] | discriminate].
Qed.

Theorem denotes_unique fs m1 m2 : denotes fs m1 -> denotes fs m2 -> m1 = m2.
Proof.
  intros [S1 M1] [S2 M2]. apply sorted_ext; [exact S1 | exact S2|]. intros [k v]. rewrite M1, M2. reflexivity.
Qed.
