(* C02 instantiated on the generated grammar. *)
From TI Require Import Bytes Grammar Nom Interp InterpFacts Thm_Sfx Thm_Stable Natives.
From TI.gen Require Import ImapGrammar.
From Coq Require Import Lia.

Definition final (r r' : res) (X : list byte) : Prop :=
  match r with
  | ROk rest v u => r' = ROk (rest ++ X) v u
  | RErr => r' = RErr
  | RFail => r' = RFail
  | _ => True
  end.

(* reflection: no complete-mode nom primitive is reachable from any definition *)
Lemma streaming_only_holds : env_all node_streaming all_defs = true.
Proof. vm_compute. reflexivity. Qed.

Lemma env_streaming : forall f g, env f = Some g -> all_nodes node_streaming g = true.
Proof. intros f g H. eapply env_all_sound; [exact streaming_only_holds|exact H]. Qed.

Lemma response_streaming : all_nodes node_streaming def_parser_x_parse_response = true.
Proof. vm_compute. reflexivity. Qed.

Theorem verdicts_final_lemma : forall B X, final (parse B) (parse (B ++ X)) X.
Proof.
  intros B X. unfold parse.
  pose proof (run_stab native_call env env_streaming (S (length B)) (S (length (B ++ X))) FUEL
                def_parser_x_parse_response 0%nat response_streaming B X ltac:(lia) ltac:(lia)) as [Hok [Herr Hfail]].
  unfold final. destruct (run native_call env (S (length B)) FUEL def_parser_x_parse_response 0%nat B) as [r v u| | | | |].
  - apply Hok. reflexivity.
  - exact I.
  - apply Herr. reflexivity.
  - apply Hfail. reflexivity.
  - exact I.
  - exact I.
Qed.

Theorem prefix_incomplete_lemma : forall A v u, parse A = ROk [] v u ->
  forall P Q, A = P ++ Q -> Q <> [] -> parse P = RInc \/ parse P = RPanic \/ parse P = RFuel.
Proof.
  intros A v u HA P Q -> HQ. pose proof (verdicts_final_lemma P Q) as F. unfold final in F.
  destruct (parse P) as [r v' u'| | | | |]; auto.
  - rewrite HA in F. injection F as F _ _. symmetry in F. apply app_eq_nil in F. destruct F as [_ F]. contradiction.
  - rewrite HA in F. discriminate.
  - rewrite HA in F. discriminate.
Qed.

(* same statement for every parser function of the grammar, at any depth, with any fuel and bounds *)
Theorem every_parser_stable_lemma : forall f g fuel dp i X r v u,
  env f = Some g ->
  run native_call env (S (length i)) fuel g dp i = ROk r v u ->
  run native_call env (S (length (i ++ X))) fuel g dp (i ++ X) = ROk (r ++ X) v u.
Proof.
  intros f g fuel dp i X r v u Hf H.
  pose proof (run_stab native_call env env_streaming (S (length i)) (S (length (i ++ X))) fuel g dp
                (env_streaming _ _ Hf) i X ltac:(lia) ltac:(lia)) as [Hok _].
  apply Hok. exact H.
Qed.

Example stable_example :
  parse (bs "* 1 EXISTS" ++ [13; 10]) = ROk [] (VCon "Response::MailboxData" [VCon "MailboxDatum::Exists" [VNum 1]]) 12
  /\ parse (bs "* 1 EXI") = RInc /\ parse (bs "* 1 EXY") = RErr.
Proof. repeat split; vm_compute; reflexivity. Qed.
