(* M12 proofs, first part (tokens, addresses, envelope, flags): every RFC spelling (Spec.v) of a value is consumed exactly and parsed to exactly that value by the
   parser functions of the grammar regenerated from the source.  One lemma per parser function, composed from the
   combinator lemmas of RoundTrip.v over the generated G terms. *)
From TI Require Import Bytes Grammar Nom Interp InterpFacts Thm_Number Thm_Fuel Natives Proofs_C01 RoundTrip Spec.
From TI.gen Require Import ImapGrammar.
From Coq Require Import Lia Arith PeanoNat.
Local Open Scope N_scope.

Notation OK := (Ok native_call env rk).
Notation REJ := (Rej native_call env rk).
Notation okref := (ok_ref native_call env rk rank_ok_all).
Notation rejref := (rej_ref native_call env rk rank_ok_all).

(* ---------------------------------------------------------------- the RFC classes are (contained in) the parser's *)
Definition all_bytes : list byte := map N.of_nat (seq 0 256).
Lemma in_all_bytes b : b < 256 -> In b all_bytes.
Proof.
  intro H. unfold all_bytes. apply in_map_iff. exists (N.to_nat b). split; [lia|]. apply in_seq. lia.
Qed.
Lemma sweep (P : byte -> bool) : forallb P all_bytes = true -> forall b, b < 256 -> P b = true.
Proof. intros H b Hb. rewrite forallb_forall in H. apply H, in_all_bytes, Hb. Qed.

Lemma rfc_char_small b : rfc_CHAR b = true -> b < 256.
Proof. unfold rfc_CHAR. intro H. apply andb_true_iff in H. destruct H as [_ H]. apply N.leb_le in H. lia. Qed.

Lemma astring_char_ok b : rfc_ASTRING_CHAR b = true -> cls_core_x_is_astring_char b = true.
Proof.
  intro H. assert (Hb : b < 256).
  { unfold rfc_ASTRING_CHAR, rfc_ATOM_CHAR, rfc_resp_specials in H. apply orb_true_iff in H. destruct H as [H|H].
    - apply andb_true_iff in H. destruct H as [H _]. apply rfc_char_small, H.
    - apply N.eqb_eq in H. lia. }
  revert H. apply (sweep (fun b => implb (rfc_ASTRING_CHAR b) (cls_core_x_is_astring_char b))) in Hb; [|vm_compute; reflexivity].
  destruct (rfc_ASTRING_CHAR b); [cbn in Hb; intros _; exact Hb | discriminate].
Qed.
Lemma quoted_plain_ok b : rfc_QUOTED_PLAIN b = true ->
  (cls_core_x_is_text_char b && negb (cls_core_x_is_quoted_specials b)) = true.
Proof.
  intro H. assert (Hb : b < 256).
  { unfold rfc_QUOTED_PLAIN, rfc_TEXT_CHAR in H. apply andb_true_iff in H. destruct H as [H _].
    apply andb_true_iff in H. destruct H as [H _]. apply andb_true_iff in H. destruct H as [H _]. apply rfc_char_small, H. }
  revert H. apply (sweep (fun b => implb (rfc_QUOTED_PLAIN b) (cls_core_x_is_text_char b && negb (cls_core_x_is_quoted_specials b)))) in Hb; [|vm_compute; reflexivity].
  destruct (rfc_QUOTED_PLAIN b); [cbn in Hb; intros _; exact Hb | discriminate].
Qed.
Lemma digit_ok b : rfc_DIGIT b = nom_is_digit b.
Proof. reflexivity. Qed.
Lemma char8_ok b : rfc_CHAR8 b = true -> negb (b =? 0) = true.
Proof.
  unfold rfc_CHAR8. intro H. apply andb_true_iff in H. destruct H as [H _]. apply N.leb_le in H.
  apply negb_true_iff, N.eqb_neq. lia.
Qed.

Lemma forallb_impl {A} (p q : A -> bool) l : (forall x, p x = true -> q x = true) -> forallb p l = true -> forallb q l = true.
Proof. intros H Hl. rewrite forallb_forall in *. intros x Hx. apply H, Hl, Hx. Qed.

Ltac app_norm := repeat rewrite <- app_assoc; rewrite ?app_nil_r; cbn [app]; reflexivity.
Ltac regroup t := match goal with |- OkSeq _ _ _ _ _ ?w _ _ => replace w with t by app_norm end.

(* ---------------------------------------------------------------- environment look-ups *)
Ltac env_lookup := vm_compute; reflexivity.
Lemma env_nil : env f_core_x_nil = Some def_core_x_nil. Proof. reflexivity. Qed.
Lemma env_number : env f_core_x_number = Some (Leaf (LNumber 32)). Proof. reflexivity. Qed.
Lemma env_number_64 : env f_core_x_number_64 = Some (Leaf (LNumber 64)). Proof. reflexivity. Qed.
Lemma env_literal : env f_core_x_literal = Some (Leaf LLiteral). Proof. reflexivity. Qed.
Lemma env_quoted : env f_core_x_quoted = Some def_core_x_quoted. Proof. reflexivity. Qed.
Lemma env_string : env f_core_x_string = Some def_core_x_string. Proof. reflexivity. Qed.
Lemma env_nstring : env f_core_x_nstring = Some def_core_x_nstring. Proof. reflexivity. Qed.
Lemma env_astring : env f_core_x_astring = Some def_core_x_astring. Proof. reflexivity. Qed.
Lemma env_address : env f_rfc3501_x_address = Some def_rfc3501_x_address. Proof. reflexivity. Qed.
Lemma env_opt_addresses : env f_rfc3501_x_opt_addresses = Some def_rfc3501_x_opt_addresses. Proof. reflexivity. Qed.
Lemma env_envelope : env f_rfc3501_x_envelope = Some def_rfc3501_x_envelope. Proof. reflexivity. Qed.

(* ---------------------------------------------------------------- tokens *)
Lemma ok_nil w d : enc_nil w -> OK (Ref f_core_x_nil DSame) d w (VBytes w) any.
Proof.
  intros [w' H]. apply (okref _ _ _ _ _ _ _ env_nil). unfold def_core_x_nil. apply ok_tag_nc. exact H.
Qed.

Lemma all_digits_of ds : forallb rfc_DIGIT ds = true -> all_digits ds.
Proof. intro H. unfold all_digits. apply Forall_forall. intros x Hx. rewrite forallb_forall in H. exact (H x Hx). Qed.

Lemma ok_number_leaf bits n w d : enc_number bits n w -> OK (Leaf (LNumber bits)) d w (VNum n) (stops_at nom_is_digit).
Proof.
  intros [ds Hne Hd Hlt]. apply ok_leaf. intros rest Hr. cbn [leaf_run].
  rewrite (number_exact_or_error_lemma bits ds rest Hne (all_digits_of ds Hd)).
  - apply N.ltb_lt in Hlt. rewrite Hlt. reflexivity.
  - destruct rest as [|c r]; [destruct Hr | exact Hr].
Qed.
Lemma ok_number n w d : enc_number 32 n w -> OK (Ref f_core_x_number DSame) d w (VNum n) (stops_at nom_is_digit).
Proof. intro H. apply (okref _ _ _ _ _ _ _ env_number). apply ok_number_leaf, H. Qed.
Lemma ok_number_64 n w d : enc_number 64 n w -> OK (Ref f_core_x_number_64 DSame) d w (VNum n) (stops_at nom_is_digit).
Proof. intro H. apply (okref _ _ _ _ _ _ _ env_number_64). apply ok_number_leaf, H. Qed.

(* quoted content without escapes: the escaped() scanner takes exactly the content and stops at the closing quote *)
Lemma esc_scan_plain normal ctl escs s c rest :
  forallb normal s = true -> normal c = false -> (c =? ctl) = false ->
  esc_scan normal ctl escs (s ++ c :: rest) = SOk s (c :: rest).
Proof.
  intros Hs Hc Hctl. induction s as [|x s IH]; cbn [app esc_scan].
  - rewrite Hc, Hctl. reflexivity.
  - cbn [forallb] in Hs. apply andb_true_iff in Hs. destruct Hs as [Hx Hs]. rewrite Hx, (IH Hs). reflexivity.
Qed.

Lemma plain_body s : forallb rfc_QUOTED_PLAIN s = true -> quoted_body s.
Proof.
  induction s as [|c s IH]; intro H; [constructor|]. cbn [forallb] in H. apply andb_true_iff in H. destruct H as [Hc Hs].
  apply qb_plain; [exact Hc | exact (IH Hs)].
Qed.
Lemma enc_quoted_intro s : forallb rfc_QUOTED_PLAIN s = true -> enc_quoted s ([34] ++ s ++ [34]).
Proof. intro H. constructor. apply plain_body, H. Qed.

Definition quoted_normal (b : byte) : bool := cls_core_x_is_text_char b && negb (cls_core_x_is_quoted_specials b).

Lemma esc_scan_body s rest : quoted_body s -> esc_scan quoted_normal 92 [92; 34] (s ++ 34 :: rest) = SOk s (34 :: rest).
Proof.
  intro H. induction H as [| c s Hc Hs IH | c s Hc Hs IH]; cbn [app esc_scan].
  - reflexivity.
  - replace (quoted_normal c) with true by (symmetry; exact (quoted_plain_ok c Hc)). rewrite IH. reflexivity.
  - change (quoted_normal 92) with false. cbn [N.eqb Pos.eqb]. destruct Hc as [-> | ->]; cbn [existsb N.eqb Pos.eqb orb]; rewrite IH; reflexivity.
Qed.

Lemma ok_quoted s w d : enc_quoted s w -> OK (Ref f_core_x_quoted DSame) d w (VBytes s) any.
Proof.
  intros [s' Hs]. apply (okref _ _ _ _ _ _ _ env_quoted). unfold def_core_x_quoted. fold quoted_normal.
  eapply ok_map.
  { apply ok_seq.
    regroup ([34] ++ (s' ++ ([34] ++ []))).
    eapply (okseq_cons _ _ _ _ _ _ _ _ _ _ any any); [apply ok_tag | | intros; exact I].
    eapply (okseq_cons _ _ _ _ _ _ _ _ _ _ (fun rest => match rest with c :: _ => c = 34 | [] => False end) any).
    - apply ok_leaf. intros rest Hr. cbn [leaf_run].
      destruct rest as [|c rest]; [destruct Hr|]. subst c. pose proof (esc_scan_body s' rest Hs) as E. change byte with N in *. rewrite E. reflexivity.
    - eapply (okseq_cons _ _ _ _ _ _ _ _ _ _ any any); [apply ok_tag | apply (okseq_nil _ _ _ _ any) | intros; exact I].
    - intros rest _. reflexivity. }
  reflexivity.
Qed.

Lemma ok_literal s w d : enc_literal s w -> OK (Ref f_core_x_literal DSame) d w (VBytes s) any.
Proof.
  intros [s' ds Hne Hd Hlen Hlt H8]. apply (okref _ _ _ _ _ _ _ env_literal).
  apply ok_leaf. intros rest _. cbn [leaf_run].
  pose proof (literal_exact_lemma ds s' rest Hne (all_digits_of ds Hd) Hlen Hlt) as L.
  assert (Hnz : Forall (fun b => b <> 0) s').
  { apply Forall_forall. intros x Hx. rewrite forallb_forall in H8. specialize (H8 x Hx). apply char8_ok in H8.
    apply negb_true_iff, N.eqb_neq in H8. exact H8. }
  specialize (L Hnz). unfold lit_header in L. cbn [app] in L |- *. repeat rewrite <- app_assoc in L |- *. cbn [app] in L |- *.
  transitivity (ROk rest (VBytes s') (nlen ds + 4 + nlen s')); [exact L|].
  f_equal. rewrite !nlen_spec. cbn [length]. rewrite !app_length. cbn [length]. lia.
Qed.

Lemma ok_string s w d : enc_string s w -> OK (Ref f_core_x_string DSame) d w (VBytes s) any.
Proof.
  intros [s' w' Hq | s' w' Hl]; apply (okref _ _ _ _ _ _ _ env_string); unfold def_core_x_string.
  - apply ok_alt_here. apply ok_quoted, Hq.
  - apply ok_alt_skip; [|apply ok_alt_here, ok_literal, Hl].
    (* quoted does not start with "{" *)
    intros rest _. destruct Hl as [s'' ds]. cbn [app].
    apply (rejref _ _ _ _ _ env_quoted). unfold def_core_x_quoted.
    apply rej_map, rej_seq_head, rej_tag. reflexivity.
Qed.

Lemma enc_string_head s w : enc_string s w -> exists c r, w = c :: r /\ (c = 34 \/ c = 123).
Proof.
  intros [s' w' [s'' H] | s' w' [s'' ds]]; cbn [app]; eexists _, _; (split; [reflexivity|]); [left | right]; reflexivity.
Qed.

Lemma ok_nstring v w d : enc_nstring v w -> OK (Ref f_core_x_nstring DSame) d w v any.
Proof.
  intros [w' Hn | s w' Hs]; apply (okref _ _ _ _ _ _ _ env_nstring); unfold def_core_x_nstring.
  - apply ok_alt_here. eapply ok_map. { apply ok_nil, Hn. } reflexivity.
  -
    apply ok_alt_skip.
    + (* NIL does not start with a quote or a brace *)
      intros rest _. destruct (enc_string_head s w' Hs) as (c & r & -> & Hc). cbn [app].
      apply rej_map. apply (rejref _ _ _ _ _ env_nil). unfold def_core_x_nil.
      destruct Hc as [-> | ->]; apply rej_tag_nc; reflexivity.
    + apply ok_alt_here. eapply ok_map. { apply ok_string, Hs. } reflexivity.
Qed.

Lemma ok_astring s w d : enc_astring s w -> OK (Ref f_core_x_astring DSame) d w (VBytes s) (stops_at cls_core_x_is_astring_char).
Proof.
  intros [s' Hne Hs | s' w' Hs]; apply (okref _ _ _ _ _ _ _ env_astring); unfold def_core_x_astring.
  - apply ok_alt_here. apply ok_take_while1; [|exact Hne].
    apply (forallb_impl rfc_ASTRING_CHAR); [apply astring_char_ok | exact Hs].
  - apply (Ok_follow _ _ _ _ _ _ _ any); [|intros; exact I]. apply ok_alt_skip; [|apply ok_alt_here, ok_string, Hs].
    intros rest _. destruct (enc_string_head s' w' Hs) as (c & r & -> & Hc). cbn [app].
    destruct Hc as [-> | ->]; apply rej_take_while1; reflexivity.
Qed.

(* ---------------------------------------------------------------- address *)
Lemma ok_address v w d : enc_address v w -> OK (Ref f_rfc3501_x_address DSame) d w v any.
Proof.
  intros [n a m h wn wa wm wh Hn Ha Hm Hh]. apply (okref _ _ _ _ _ _ _ env_address). unfold def_rfc3501_x_address.
  eapply ok_map.
  { apply ok_seq. unfold SPb.
    regroup ([40] ++ ((wn ++ ([32] ++ (wa ++ ([32] ++ (wm ++ ([32] ++ (wh ++ []))))))) ++ ([41] ++ []))).
    eapply (okseq_cons _ _ _ _ _ _ _ _ _ _ any any); [apply ok_tag | | intros; exact I].
    eapply (okseq_cons _ _ _ _ _ _ _ _ _ _ any any); [| | intros; exact I].
    - eapply ok_map.
      { apply ok_seq.
        eapply (okseq_cons _ _ _ _ _ _ _ _ _ _ any any); [apply ok_nstring, Hn | | intros; exact I].
        eapply (okseq_cons _ _ _ _ _ _ _ _ _ _ any any); [apply ok_tag | | intros; exact I].
        eapply (okseq_cons _ _ _ _ _ _ _ _ _ _ any any); [apply ok_nstring, Ha | | intros; exact I].
        eapply (okseq_cons _ _ _ _ _ _ _ _ _ _ any any); [apply ok_tag | | intros; exact I].
        eapply (okseq_cons _ _ _ _ _ _ _ _ _ _ any any); [apply ok_nstring, Hm | | intros; exact I].
        eapply (okseq_cons _ _ _ _ _ _ _ _ _ _ any any); [apply ok_tag | | intros; exact I].
        eapply (okseq_cons _ _ _ _ _ _ _ _ _ _ any any); [apply ok_nstring, Hh | apply (okseq_nil _ _ _ _ any) | intros; exact I]. }
      reflexivity.
    - eapply (okseq_cons _ _ _ _ _ _ _ _ _ _ any any); [apply ok_tag | apply (okseq_nil _ _ _ _ any) | intros; exact I]. }
  reflexivity.
Qed.

(* ---------------------------------------------------------------- address lists and the envelope *)
Lemma enc_address_head v w : enc_address v w -> exists r, w = 40 :: r.
Proof. intros [n a m h wn wa wm wh _ _ _ _]. cbn [app]. eexists. reflexivity. Qed.

Definition addr_item : G :=
  Map (mk_action (PTuple [PVar "p0"; PWild]) (AVar "p0")) (Seq [(Ref f_rfc3501_x_address DSame); (Opt (Leaf (LTag (bs " "))))]).

(* one address followed by an optional space, when what follows is "(" (next address) or ")" *)
Definition after_addr (rest : list byte) : Prop := match rest with c :: _ => c = 40 \/ c = 41 | [] => False end.

Lemma ok_addr_item_nosp v w d : enc_address v w -> OK addr_item d w v after_addr.
Proof.
  intro H. unfold addr_item. eapply ok_map.
  { apply ok_seq. regroup (w ++ ([] ++ [])).
    eapply (okseq_cons _ _ _ _ _ _ _ _ _ _ any after_addr); [apply ok_address, H | | intros; exact I].
    eapply (okseq_cons _ _ _ _ _ _ _ _ _ _ after_addr after_addr); [| apply (okseq_nil _ _ _ _ after_addr) | intros r Hr; exact Hr].
    apply ok_opt_none. intros rest Hr. destruct rest as [|c r]; [destruct Hr|].
    apply rej_tag. destruct Hr as [-> | ->]; reflexivity. }
  reflexivity.
Qed.
Lemma ok_addr_item_sp v w d : enc_address v w -> OK addr_item d (w ++ SPb) v any.
Proof.
  intro H. unfold addr_item. eapply ok_map.
  { apply ok_seq. regroup (w ++ (SPb ++ [])).
    eapply (okseq_cons _ _ _ _ _ _ _ _ _ _ any any); [apply ok_address, H | | intros; exact I].
    eapply (okseq_cons _ _ _ _ _ _ _ _ _ _ any any); [| apply (okseq_nil _ _ _ _ any) | intros; exact I].
    apply ok_opt_some. apply ok_tag. }
  reflexivity.
Qed.

Lemma rej_addr_item_close d rest : REJ addr_item d (41 :: rest).
Proof.
  unfold addr_item. apply rej_map, rej_seq_head.
  apply (fails_on_byte native_call env rk rank_ok_all 6). vm_compute. reflexivity.
Qed.

Lemma addr_seq_nonempty l w : enc_addr_seq l w -> exists r, w = 40 :: r.
Proof.
  intros [a w' H | a l' w' ws sp H _ _]; destruct (enc_address_head _ _ H) as [r ->]; cbn [app]; eexists; reflexivity.
Qed.

Lemma okmany_addrs : forall l w d, enc_addr_seq l w -> 
  OkMany native_call env rk addr_item d w l (fun rest => match rest with c :: _ => c = 41 | [] => False end).
Proof.
  intros l w d H. induction H as [a w Ha | a l w ws sp Ha Hl IH Hsp].
  - replace w with (w ++ []) by apply app_nil_r.
    eapply (okmany_cons _ _ _ _ _ _ _ _ _ after_addr).
    + apply ok_addr_item_nosp, Ha.
    + destruct (enc_address_head _ _ Ha) as [r ->]. discriminate.
    + apply okmany_nil. intros rest Hr. destruct rest as [|c r]; [destruct Hr|]. subst c. apply rej_addr_item_close.
    + intros rest Hr. destruct rest as [|c r]; [destruct Hr|]. subst c. right. reflexivity.
  - destruct Hsp as [-> | ->].
    + cbn [app]. eapply (okmany_cons _ _ _ _ _ _ _ _ _ after_addr).
      * apply ok_addr_item_nosp, Ha.
      * destruct (enc_address_head _ _ Ha) as [r ->]. discriminate.
      * exact IH.
      * intros rest _. destruct (addr_seq_nonempty _ _ Hl) as [r ->]. left. reflexivity.
    + rewrite app_assoc. eapply (okmany_cons _ _ _ _ _ _ _ _ _ any).
      * apply ok_addr_item_sp, Ha.
      * destruct (enc_address_head _ _ Ha) as [r ->]. discriminate.
      * exact IH.
      * intros; exact I.
Qed.

Definition closes (rest : list byte) : Prop := match rest with c :: _ => c = 41 | [] => False end.

Lemma ok_many1_addrs l w d : enc_addr_seq l w -> OK (Many1 addr_item) d w (VList l) closes.
Proof.
  intros [a w0 Ha | a l0 w0 ws sp Ha Hl Hsp].
  - replace w0 with (w0 ++ []) by apply app_nil_r.
    eapply (ok_many1 _ _ _ _ _ _ _ _ _ after_addr).
    + apply ok_addr_item_nosp, Ha.
    + apply okmany_nil. intros rest Hr. destruct rest as [|c r]; [destruct Hr|]. cbn in Hr. subst c. apply rej_addr_item_close.
    + intros rest Hr. destruct rest as [|c r]; [destruct Hr|]. cbn in Hr. subst c. right. reflexivity.
  - destruct Hsp as [-> | ->].
    + cbn [app]. eapply (ok_many1 _ _ _ _ _ _ _ _ _ after_addr).
      * apply ok_addr_item_nosp, Ha.
      * apply okmany_addrs, Hl.
      * intros rest _. destruct (addr_seq_nonempty _ _ Hl) as [r ->]. left. reflexivity.
    + rewrite app_assoc. eapply (ok_many1 _ _ _ _ _ _ _ _ _ any).
      * apply ok_addr_item_sp, Ha.
      * apply okmany_addrs, Hl.
      * intros; exact I.
Qed.

Lemma ok_opt_addresses v w d : enc_addr_list v w -> OK (Ref f_rfc3501_x_opt_addresses DSame) d w v any.
Proof.
  intros [w' Hn | l w' Hl]; apply (okref _ _ _ _ _ _ _ env_opt_addresses); unfold def_rfc3501_x_opt_addresses.
  - apply ok_alt_here. eapply ok_map. { apply ok_nil, Hn. } reflexivity.
  - apply ok_alt_skip.
    + intros rest _. cbn [app]. apply rej_map. apply (rejref _ _ _ _ _ env_nil). unfold def_core_x_nil. apply rej_tag_nc. reflexivity.
    + apply ok_alt_here. eapply ok_map.
      { eapply ok_map.
        { apply ok_seq. regroup ([40] ++ (w' ++ ([41] ++ []))).
          eapply (okseq_cons _ _ _ _ _ _ _ _ _ _ any any); [apply ok_tag | | intros; exact I].
          eapply (okseq_cons _ _ _ _ _ _ _ _ _ _ closes any).
          - apply (ok_many1_addrs l w' d Hl).
          - eapply (okseq_cons _ _ _ _ _ _ _ _ _ _ any any); [apply ok_tag | apply (okseq_nil _ _ _ _ any) | intros; exact I].
          - intros rest _. reflexivity. }
        reflexivity. }
      reflexivity.
Qed.

Lemma ok_envelope v w d : enc_envelope v w -> OK (Ref f_rfc3501_x_envelope DSame) d w v any.
Proof.
  intros [date subject from sender reply_to to cc bcc in_reply_to message_id w1 w2 w3 w4 w5 w6 w7 w8 w9 w10 H1 H2 H3 H4 H5 H6 H7 H8 H9 H10].
  apply (okref _ _ _ _ _ _ _ env_envelope). unfold def_rfc3501_x_envelope.
  eapply ok_map.
  { apply ok_seq. unfold SPb.
    regroup ([40] ++ ((w1 ++ ([32] ++ (w2 ++ ([32] ++ (w3 ++ ([32] ++ (w4 ++ ([32] ++ (w5 ++ ([32] ++ (w6 ++ ([32] ++ (w7 ++ ([32] ++ (w8 ++ ([32] ++ (w9 ++ ([32] ++ (w10 ++ []))))))))))))))))))) ++ ([41] ++ []))).
    eapply (okseq_cons _ _ _ _ _ _ _ _ _ _ any any); [apply ok_tag | | intros; exact I].
    eapply (okseq_cons _ _ _ _ _ _ _ _ _ _ any any); [| | intros; exact I].
    - eapply ok_map.
      { apply ok_seq.
        eapply (okseq_cons _ _ _ _ _ _ _ _ _ _ any any); [apply ok_nstring, H1 | | intros; exact I].
        eapply (okseq_cons _ _ _ _ _ _ _ _ _ _ any any); [apply ok_tag | | intros; exact I].
        eapply (okseq_cons _ _ _ _ _ _ _ _ _ _ any any); [apply ok_nstring, H2 | | intros; exact I].
        eapply (okseq_cons _ _ _ _ _ _ _ _ _ _ any any); [apply ok_tag | | intros; exact I].
        eapply (okseq_cons _ _ _ _ _ _ _ _ _ _ any any); [apply ok_opt_addresses, H3 | | intros; exact I].
        eapply (okseq_cons _ _ _ _ _ _ _ _ _ _ any any); [apply ok_tag | | intros; exact I].
        eapply (okseq_cons _ _ _ _ _ _ _ _ _ _ any any); [apply ok_opt_addresses, H4 | | intros; exact I].
        eapply (okseq_cons _ _ _ _ _ _ _ _ _ _ any any); [apply ok_tag | | intros; exact I].
        eapply (okseq_cons _ _ _ _ _ _ _ _ _ _ any any); [apply ok_opt_addresses, H5 | | intros; exact I].
        eapply (okseq_cons _ _ _ _ _ _ _ _ _ _ any any); [apply ok_tag | | intros; exact I].
        eapply (okseq_cons _ _ _ _ _ _ _ _ _ _ any any); [apply ok_opt_addresses, H6 | | intros; exact I].
        eapply (okseq_cons _ _ _ _ _ _ _ _ _ _ any any); [apply ok_tag | | intros; exact I].
        eapply (okseq_cons _ _ _ _ _ _ _ _ _ _ any any); [apply ok_opt_addresses, H7 | | intros; exact I].
        eapply (okseq_cons _ _ _ _ _ _ _ _ _ _ any any); [apply ok_tag | | intros; exact I].
        eapply (okseq_cons _ _ _ _ _ _ _ _ _ _ any any); [apply ok_opt_addresses, H8 | | intros; exact I].
        eapply (okseq_cons _ _ _ _ _ _ _ _ _ _ any any); [apply ok_tag | | intros; exact I].
        eapply (okseq_cons _ _ _ _ _ _ _ _ _ _ any any); [apply ok_nstring, H9 | | intros; exact I].
        eapply (okseq_cons _ _ _ _ _ _ _ _ _ _ any any); [apply ok_tag | | intros; exact I].
        eapply (okseq_cons _ _ _ _ _ _ _ _ _ _ any any); [apply ok_nstring, H10 | apply (okseq_nil _ _ _ _ any) | intros; exact I]. }
      reflexivity.
    - eapply (okseq_cons _ _ _ _ _ _ _ _ _ _ any any); [apply ok_tag | apply (okseq_nil _ _ _ _ any) | intros; exact I]. }
  reflexivity.
Qed.

(* ---------------------------------------------------------------- FLAGS and INTERNALDATE *)
Lemma env_flag_list : env f_rfc3501_x_flag_list = Some def_rfc3501_x_flag_list. Proof. reflexivity. Qed.
Lemma env_flag_perm : env f_rfc3501_x_flag_perm = Some def_rfc3501_x_flag_perm. Proof. reflexivity. Qed.
Lemma env_flag : env f_rfc3501_x_flag = Some def_rfc3501_x_flag. Proof. reflexivity. Qed.
Lemma env_flag_ext : env f_rfc3501_x_flag_extension = Some def_rfc3501_x_flag_extension. Proof. reflexivity. Qed.
Lemma env_att_flags : env f_rfc3501_x_msg_att_flags = Some def_rfc3501_x_msg_att_flags. Proof. reflexivity. Qed.
Lemma env_att_date : env f_rfc3501_x_msg_att_internal_date = Some def_rfc3501_x_msg_att_internal_date. Proof. reflexivity. Qed.
Lemma env_string_utf8 : env f_core_x_string_utf8 = Some def_core_x_string_utf8. Proof. reflexivity. Qed.

Lemma ascii_run : forall s, forallb (fun b => b <=? 127) s = true -> utf8_run U0 s = U0.
Proof.
  induction s as [|c s IH]; intro H; [reflexivity|]. cbn [forallb] in H. apply andb_true_iff in H. destruct H as [Hc Hs].
  unfold utf8_run. cbn [fold_left]. unfold utf8_step at 2. rewrite Hc. exact (IH Hs).
Qed.
Lemma ascii_utf8 s : forallb (fun b => b <=? 127) s = true -> utf8_valid s = true.
Proof. intro H. unfold utf8_valid. rewrite (ascii_run s H). reflexivity. Qed.

Lemma atom_char_facts b : rfc_ATOM_CHAR b = true ->
  cls_core_x_is_atom_char b = true /\ cls_core_x_is_astring_char b = true /\ (b <=? 127) = true /\ (b =? 92) = false /\ (b =? 42) = false.
Proof.
  intro H. assert (Hb : b < 256).
  { unfold rfc_ATOM_CHAR in H. apply andb_true_iff in H. destruct H as [H _]. apply rfc_char_small, H. }
  pose proof (sweep (fun b => implb (rfc_ATOM_CHAR b)
      (cls_core_x_is_atom_char b && cls_core_x_is_astring_char b && (b <=? 127) && negb (b =? 92) && negb (b =? 42))) ltac:(vm_compute; reflexivity) b Hb) as Hx.
  cbv beta in Hx. rewrite H in Hx. cbn [implb] in Hx.
  apply andb_true_iff in Hx. destruct Hx as [Hx H5]. apply andb_true_iff in Hx. destruct Hx as [Hx H4].
  apply andb_true_iff in Hx. destruct Hx as [Hx H3]. apply andb_true_iff in Hx. destruct Hx as [H1 H2].
  apply negb_true_iff in H4, H5. repeat split; assumption.
Qed.

Definition flag_follow (rest : list byte) : Prop := match rest with c :: _ => c = 32 \/ c = 41 | [] => False end.

Lemma flag_follow_stops rest : flag_follow rest ->
  stops_at cls_core_x_is_atom_char rest /\ stops_at cls_core_x_is_astring_char rest.
Proof. destruct rest as [|c r]; [intros []|]. intros [-> | ->]; split; reflexivity. Qed.

Lemma rej_tag2 a1 a2 c rest d : (a2 =? c) = false -> REJ (Leaf (LTag [a1; a2])) d (a1 :: c :: rest).
Proof.
  intros H b f Hf Hb. destruct f as [|f]; [cbn [need] in Hf; lia|]. rewrite run_S. cbn [step leaf_run tag_scan].
  unfold eq_case. rewrite N.eqb_refl, H. reflexivity.
Qed.

Definition flag_item : G := Map (mk_action (PVar "x") (AVar "x")) (Ref f_rfc3501_x_flag_perm DSame).

Lemma ok_flag f w d : enc_flag f w -> OK flag_item d w (VBytes f) flag_follow.
Proof.
  intro H. unfold flag_item. eapply ok_map; [|reflexivity].
  apply (okref _ _ _ _ _ _ _ env_flag_perm). unfold def_rfc3501_x_flag_perm.
  destruct H as [a Hne Ha | a Hne Ha].
  - (* keyword flag: an atom *)
    destruct a as [|c a]; [contradiction|]. cbn [forallb] in Ha. apply andb_true_iff in Ha. destruct Ha as [Hc Ha].
    destruct (atom_char_facts c Hc) as (_ & Hcs & _ & H92 & _).
    apply ok_alt_skip.
    { intros rest _. cbn [app]. apply rej_mapres, rej_tag. rewrite N.eqb_sym. exact H92. }
    apply ok_alt_here. apply (okref _ _ _ _ _ _ _ env_flag). unfold def_rfc3501_x_flag.
    apply ok_alt_skip.
    { intros rest _. cbn [app]. apply (rejref _ _ _ _ _ env_flag_ext). unfold def_rfc3501_x_flag_extension.
      apply rej_mapres, rej_recognize, rej_seq_head, rej_tag. rewrite N.eqb_sym. exact H92. }
    apply ok_alt_here. apply (Ok_follow _ _ _ _ _ _ _ (stops_at cls_core_x_is_astring_char)); [|intros r Hr; exact (proj2 (flag_follow_stops r Hr))].
    eapply ok_mapres.
    { apply ok_take_while1; [|discriminate]. cbn [forallb]. rewrite Hcs.
      apply (forallb_impl rfc_ATOM_CHAR); [intros x Hx; exact (proj1 (proj2 (atom_char_facts x Hx))) | exact Ha]. }
    cbn. unfold native_call. cbn. rewrite ascii_utf8; [reflexivity|].
    cbn [forallb]. rewrite (proj1 (proj2 (proj2 (atom_char_facts c Hc)))).
    apply (forallb_impl rfc_ATOM_CHAR); [intros x Hx; exact (proj1 (proj2 (proj2 (atom_char_facts x Hx)))) | exact Ha].
  - (* "\" atom *)
    destruct a as [|c a]; [contradiction|]. pose proof Ha as Ha0. cbn [forallb] in Ha. apply andb_true_iff in Ha. destruct Ha as [Hc Ha].
    destruct (atom_char_facts c Hc) as (_ & _ & _ & _ & H42).
    apply ok_alt_skip.
    { intros rest _. cbn [app]. apply rej_mapres. apply (rej_tag2 92 42). rewrite N.eqb_sym. exact H42. }
    apply ok_alt_here. apply (okref _ _ _ _ _ _ _ env_flag). unfold def_rfc3501_x_flag.
    apply ok_alt_here. apply (okref _ _ _ _ _ _ _ env_flag_ext). unfold def_rfc3501_x_flag_extension.
    apply (Ok_follow _ _ _ _ _ _ _ (stops_at cls_core_x_is_atom_char)); [|intros r Hr; exact (proj1 (flag_follow_stops r Hr))].
    eapply ok_mapres.
    { eapply ok_recognize. apply ok_seq. regroup ([92] ++ ((c :: a) ++ [])).
      eapply (okseq_cons _ _ _ _ _ _ _ _ _ _ any (stops_at cls_core_x_is_atom_char)); [apply ok_tag | | intros; exact I].
      eapply (okseq_cons _ _ _ _ _ _ _ _ _ _ (stops_at cls_core_x_is_atom_char) (stops_at cls_core_x_is_atom_char)); [| apply (okseq_nil _ _ _ _ (stops_at cls_core_x_is_atom_char)) | intros r Hr; exact Hr].
      apply ok_take_while. apply (forallb_impl rfc_ATOM_CHAR); [intros x Hx; exact (proj1 (atom_char_facts x Hx)) | exact Ha0]. }
    cbn. unfold native_call. cbn. rewrite ascii_utf8; [reflexivity|].
    change (forallb (fun b => b <=? 127) (92 :: c :: a) = true). cbn [forallb]. apply andb_true_iff. split; [reflexivity|].
    apply (forallb_impl rfc_ATOM_CHAR (fun b => b <=? 127) (c :: a)); [intros x Hx; exact (proj1 (proj2 (proj2 (atom_char_facts x Hx)))) | exact Ha0].
Qed.

Lemma oksep_flags l ws d : enc_flags_more l ws ->
  OkSep native_call env rk (Leaf (LTag (bs " "))) flag_item d ws l (fun rest => match rest with c :: _ => c = 41 | [] => False end).
Proof.
  intro H. induction H as [| f w l ws Hf Hl IH].
  - apply oksep_nil. intros rest Hr. destruct rest as [|c r]; [destruct Hr|]. subst c. apply rej_tag. reflexivity.
  - unfold SPb. eapply (oksep_cons _ _ _ _ _ _ _ _ _ _ _ _ any flag_follow).
    + apply ok_tag.
    + discriminate.
    + apply ok_flag, Hf.
    + exact IH.
    + intros rest Hr. destruct Hl; cbn [app].
      * destruct rest as [|c r]; [destruct Hr|]. subst c. right. reflexivity.
      * left. reflexivity.
    + intros; exact I.
Qed.

Lemma ok_flag_list v w d : enc_flag_list v w -> OK (Ref f_rfc3501_x_flag_list DSame) d w v any.
Proof.
  intros [| f w0 l ws Hf Hl]; apply (okref _ _ _ _ _ _ _ env_flag_list); unfold def_rfc3501_x_flag_list; fold flag_item.
  - eapply ok_map.
    { apply ok_seq. regroup ([40] ++ ([] ++ ([41] ++ []))).
      eapply (okseq_cons _ _ _ _ _ _ _ _ _ _ any any); [apply ok_tag | | intros; exact I].
      eapply (okseq_cons _ _ _ _ _ _ _ _ _ _ (fun rest => match rest with c :: _ => c = 41 | [] => False end) any).
      - apply ok_seplist0_empty. intros rest Hr. destruct rest as [|c r]; [destruct Hr|]. subst c.
        apply (fails_on_byte native_call env rk rank_ok_all 8). vm_compute. reflexivity.
      - eapply (okseq_cons _ _ _ _ _ _ _ _ _ _ any any); [apply ok_tag | apply (okseq_nil _ _ _ _ any) | intros; exact I].
      - intros rest _. reflexivity. }
    reflexivity.
  - eapply ok_map.
    { apply ok_seq. regroup ([40] ++ ((w0 ++ ws) ++ ([41] ++ []))).
      eapply (okseq_cons _ _ _ _ _ _ _ _ _ _ any any); [apply ok_tag | | intros; exact I].
      eapply (okseq_cons _ _ _ _ _ _ _ _ _ _ (fun rest => match rest with c :: _ => c = 41 | [] => False end) any).
      - eapply (ok_seplist0 _ _ _ _ _ _ _ _ _ _ flag_follow).
        + apply ok_flag, Hf.
        + apply oksep_flags, Hl.
        + intros rest Hr. destruct Hl; cbn [app].
          * destruct rest as [|c r]; [destruct Hr|]. subst c. right. reflexivity.
          * left. reflexivity.
      - eapply (okseq_cons _ _ _ _ _ _ _ _ _ _ any any); [apply ok_tag | apply (okseq_nil _ _ _ _ any) | intros; exact I].
      - intros rest _. reflexivity. }
    reflexivity.
Qed.

Lemma ok_string_utf8 s w d : enc_string s w -> utf8_valid s = true -> OK (Ref f_core_x_string_utf8 DSame) d w (VBytes s) any.
Proof.
  intros Hs Hu. apply (okref _ _ _ _ _ _ _ env_string_utf8). unfold def_core_x_string_utf8.
  eapply ok_mapres. { apply ok_string, Hs. } cbn. unfold native_call. cbn. rewrite Hu. reflexivity.
Qed.

(* ---------------------------------------------------------------- FETCH data items *)

Lemma okseq_cons' g gs d w w1 w2 v vs (F1 F2 : list byte -> Prop) : w = w1 ++ w2 ->
  OK g d w1 v F1 -> OkSeq native_call env rk gs d w2 vs F2 -> (forall rest, F2 rest -> F1 (w2 ++ rest)) ->
  OkSeq native_call env rk (g :: gs) d w (v :: vs) F2.
Proof. intros ->. apply okseq_cons. Qed.
