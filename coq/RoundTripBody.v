(* M12 proofs, second part: body structures (RFC 3501 section 9 `body`). *)
From TI Require Import Bytes Grammar Nom Interp InterpFacts Thm_Number Thm_Fuel Natives Proofs_C01 RoundTrip Spec RoundTripBase.
From TI.gen Require Import ImapGrammar.
From Coq Require Import Lia Arith PeanoNat.
Local Open Scope N_scope.

Lemma env_nstring_utf8 : env f_core_x_nstring_utf8 = Some def_core_x_nstring_utf8. Proof. reflexivity. Qed.
Lemma env_body_param : env f_body_structure_x_body_param = Some def_body_structure_x_body_param. Proof. reflexivity. Qed.
Lemma env_body_encoding : env f_body_structure_x_body_encoding = Some def_body_structure_x_body_encoding. Proof. reflexivity. Qed.
Lemma env_body_fields : env f_body_structure_x_body_fields = Some def_body_structure_x_body_fields. Proof. reflexivity. Qed.

Definition sp_or_close (rest : list byte) : Prop := match rest with c :: _ => c = 32 \/ c = 41 | [] => False end.
Lemma sp_or_close_nodigit rest : sp_or_close rest -> stops_at nom_is_digit rest.
Proof. destruct rest as [|c r]; [intros []|]. intros [-> | ->]; reflexivity. Qed.

Lemma rej_nil_on_string s w rest d : enc_string s w -> REJ (Map (mk_action (PWild) (ANone)) (Ref f_core_x_nil DSame)) d (w ++ rest).
Proof.
  intro Hs. destruct (enc_string_head s w Hs) as (c & r & -> & Hc). cbn [app].
  apply rej_map. apply (rejref _ _ _ _ _ env_nil). unfold def_core_x_nil. destruct Hc as [-> | ->]; apply rej_tag_nc; reflexivity.
Qed.

Lemma ok_nstring_utf8 v w d : enc_nstring_utf8 v w -> OK (Ref f_core_x_nstring_utf8 DSame) d w v any.
Proof.
  intros [w0 Hn | s w0 Hs Hu]; apply (okref _ _ _ _ _ _ _ env_nstring_utf8); unfold def_core_x_nstring_utf8.
  - apply ok_alt_here. eapply ok_map. { apply ok_nil, Hn. } reflexivity.
  - apply ok_alt_skip; [intros rest _; apply (rej_nil_on_string s w0 rest d Hs)|].
    apply ok_alt_here. eapply ok_map. { apply ok_string_utf8; eassumption. } reflexivity.
Qed.

Lemma enc_nil_head w : enc_nil w -> exists c r, w = c :: r /\ (c = 78 \/ c = 110).
Proof.
  intros [w0 Hk]. unfold kw in Hk. destruct w0 as [|c r]; [discriminate|]. exists c, r. split; [reflexivity|].
  change (bs "NIL") with [78; 73; 76] in Hk. cbn [same_nocase] in Hk. apply andb_true_iff in Hk. destruct Hk as [Hc _].
  destruct (lower_variants _ _ Hc) as [<- | [<- | []]]; [right | left]; reflexivity.
Qed.

(* ---------------------------------------------------------------- body-fld-param *)
Definition pair_g : G :=
  Map (mk_action (PTuple [PVar "p0"; PWild; PVar "p2"]) (ATuple [AVar "p0"; AVar "p2"]))
      (Seq [(Ref f_core_x_string_utf8 DSame); (Leaf (LTag (bs " "))); (Ref f_core_x_string_utf8 DSame)]).

Lemma ok_param_pair p w d : enc_param_pair p w -> OK pair_g d w p any.
Proof.
  intros [k wk v wv Hk Huk Hv Huv]. unfold pair_g. eapply ok_map.
  { apply ok_seq. unfold SPb. regroup (wk ++ ([32] ++ (wv ++ []))).
    eapply (okseq_cons _ _ _ _ _ _ _ _ _ _ any any); [apply ok_string_utf8; eassumption | | intros; exact I].
    eapply (okseq_cons _ _ _ _ _ _ _ _ _ _ any any); [apply ok_tag | | intros; exact I].
    eapply (okseq_cons _ _ _ _ _ _ _ _ _ _ any any); [apply ok_string_utf8; eassumption | apply (okseq_nil _ _ _ _ any) | intros; exact I]. }
  reflexivity.
Qed.

Lemma oksep_params l ws d : enc_param_more l ws -> OkSep native_call env rk (Leaf (LTag (bs " "))) pair_g d ws l closes.
Proof.
  intro H. induction H as [| p w l ws Hp Hl IH].
  - apply oksep_nil. intros rest Hr. destruct rest as [|c r]; [destruct Hr|]. cbn in Hr. subst c. apply rej_tag. reflexivity.
  - unfold SPb. eapply (oksep_cons _ _ _ _ _ _ _ _ _ _ _ _ any any).
    + apply ok_tag.
    + discriminate.
    + apply ok_param_pair, Hp.
    + exact IH.
    + intros; exact I.
    + intros; exact I.
Qed.

Lemma ok_body_param p w d : enc_body_param p w -> OK (Ref f_body_structure_x_body_param DSame) d w p any.
Proof.
  intros [w0 Hn | p0 w0 l ws Hp Hl]; apply (okref _ _ _ _ _ _ _ env_body_param); unfold def_body_structure_x_body_param; fold pair_g.
  - apply ok_alt_here. eapply ok_map. { apply ok_nil, Hn. } reflexivity.
  - apply ok_alt_skip.
    { intros rest _. cbn [app]. apply rej_map. apply (rejref _ _ _ _ _ env_nil). unfold def_core_x_nil. apply rej_tag_nc. reflexivity. }
    apply ok_alt_here. eapply ok_map.
    { eapply ok_map.
      { apply ok_seq. regroup ([40] ++ ((w0 ++ ws) ++ ([41] ++ []))).
        eapply (okseq_cons _ _ _ _ _ _ _ _ _ _ any any); [apply ok_tag | | intros; exact I].
        eapply (okseq_cons _ _ _ _ _ _ _ _ _ _ closes any).
        - eapply (ok_seplist1 _ _ _ _ _ _ _ _ _ _ any); [apply ok_param_pair, Hp | apply oksep_params, Hl | intros; exact I].
        - eapply (okseq_cons _ _ _ _ _ _ _ _ _ _ any any); [apply ok_tag | apply (okseq_nil _ _ _ _ any) | intros; exact I].
        - intros rest _. reflexivity. }
      reflexivity. }
    reflexivity.
Qed.

Lemma enc_body_param_head p w : enc_body_param p w -> exists c r, w = c :: r /\ (c = 78 \/ c = 110 \/ c = 40).
Proof.
  intros [w0 Hn | p0 w0 l ws _ _].
  - destruct (enc_nil_head w0 Hn) as (c & r & -> & [-> | ->]); eexists _, _; (split; [reflexivity|]); auto.
  - eexists _, _. split; [reflexivity|]. auto.
Qed.

Lemma skip_kw0 g gs K k w v (F : list byte -> Prop) d :
  same_nocase K k = true -> fails_on env 8 g K = true -> OK (Alt gs) d (k ++ w) v F -> OK (Alt (g :: gs)) d (k ++ w) v F.
Proof.
  intros Hk Hf H. apply ok_alt_skip; [|exact H]. intros rest _. rewrite <- app_assoc.
  apply (fails_on_sound native_call env rk rank_ok_all 8 g K Hf). exact Hk.
Qed.

(* ---------------------------------------------------------------- body-fld-enc *)
Definition enc_alts : list G :=
  [(Map (mk_action (PWild) (ACon "ContentEncoding::SevenBit" [])) (Leaf (LTagNC (bs "7BIT"))));
   (Map (mk_action (PWild) (ACon "ContentEncoding::EightBit" [])) (Leaf (LTagNC (bs "8BIT"))));
   (Map (mk_action (PWild) (ACon "ContentEncoding::Binary" [])) (Leaf (LTagNC (bs "BINARY"))));
   (Map (mk_action (PWild) (ACon "ContentEncoding::Base64" [])) (Leaf (LTagNC (bs "BASE64"))));
   (Map (mk_action (PWild) (ACon "ContentEncoding::QuotedPrintable" [])) (Leaf (LTagNC (bs "QUOTED-PRINTABLE"))))].

Lemma ok_known_enc K n k d : In (K, n) known_encodings -> kw K k -> OK (Alt enc_alts) d k (VCon n []) any.
Proof.
  intros Hin Hk. unfold kw in Hk. unfold known_encodings in Hin. cbn [In] in Hin. unfold enc_alts.
  rewrite <- (app_nil_r k).
  destruct Hin as [E | [E | [E | [E | [E | []]]]]]; injection E as <- <-.
  - apply ok_alt_here. rewrite app_nil_r. eapply ok_map; [apply ok_tag_nc, Hk | reflexivity].
  - do 1 (apply (skip_kw0 _ _ _ _ _ _ _ _ Hk); [vm_compute; reflexivity|]).
    apply ok_alt_here. rewrite app_nil_r. eapply ok_map; [apply ok_tag_nc, Hk | reflexivity].
  - do 2 (apply (skip_kw0 _ _ _ _ _ _ _ _ Hk); [vm_compute; reflexivity|]).
    apply ok_alt_here. rewrite app_nil_r. eapply ok_map; [apply ok_tag_nc, Hk | reflexivity].
  - do 3 (apply (skip_kw0 _ _ _ _ _ _ _ _ Hk); [vm_compute; reflexivity|]).
    apply ok_alt_here. rewrite app_nil_r. eapply ok_map; [apply ok_tag_nc, Hk | reflexivity].
  - do 4 (apply (skip_kw0 _ _ _ _ _ _ _ _ Hk); [vm_compute; reflexivity|]).
    apply ok_alt_here. rewrite app_nil_r. eapply ok_map; [apply ok_tag_nc, Hk | reflexivity].
Qed.

Lemma rej_enc_alts s rest d :
  forallb (fun Kn : string * string => nocase_mismatch (bs (fst Kn)) (s ++ [34])) known_encodings = true ->
  REJ (Alt enc_alts) d ((s ++ [34]) ++ rest).
Proof.
  intro H. unfold known_encodings in H. cbn [forallb fst] in H.
  apply andb_true_iff in H. destruct H as [H1 H]. apply andb_true_iff in H. destruct H as [H2 H].
  apply andb_true_iff in H. destruct H as [H3 H]. apply andb_true_iff in H. destruct H as [H4 H].
  apply andb_true_iff in H. destruct H as [H5 _]. unfold enc_alts.
  apply rej_alt_cons; [apply rej_map, rej_tag_nc_mismatch, H1|].
  apply rej_alt_cons; [apply rej_map, rej_tag_nc_mismatch, H2|].
  apply rej_alt_cons; [apply rej_map, rej_tag_nc_mismatch, H3|].
  apply rej_alt_cons; [apply rej_map, rej_tag_nc_mismatch, H4|].
  apply rej_alt_cons; [apply rej_map, rej_tag_nc_mismatch, H5|]. apply rej_alt_nil.
Qed.

Lemma nocase_plain K k : forallb (fun a => forallb rfc_QUOTED_PLAIN (variants a)) K = true -> same_nocase K k = true ->
  forallb rfc_QUOTED_PLAIN k = true.
Proof.
  revert k; induction K as [|a K IH]; intros [|b k] HK H; try discriminate; [reflexivity|].
  cbn [forallb] in HK. apply andb_true_iff in HK. destruct HK as [Ha HK].
  cbn [same_nocase] in H. apply andb_true_iff in H. destruct H as [Hab H]. cbn [forallb]. rewrite (IH k HK H), andb_true_r.
  rewrite forallb_forall in Ha. exact (Ha b (lower_variants a b Hab)).
Qed.

Lemma known_enc_plain K n k : In (K, n) known_encodings -> kw K k -> forallb rfc_QUOTED_PLAIN k = true.
Proof.
  intros Hin Hk. unfold kw in Hk. apply (nocase_plain (bs K) k); [|exact Hk].
  unfold known_encodings in Hin. cbn [In] in Hin.
  destruct Hin as [E | [E | [E | [E | [E | []]]]]]; injection E as <- _; vm_compute; reflexivity.
Qed.

Lemma quoted_body_app a b : quoted_body a -> quoted_body b -> quoted_body (a ++ b).
Proof. intros Ha Hb. induction Ha as [| c s Hc Hs IH | c s Hc Hs IH]; cbn [app]; [exact Hb | apply qb_plain; assumption | apply qb_escaped; assumption]. Qed.

Lemma quoted_body_head_not_quote t : quoted_body t -> t <> [] -> exists c r, t = c :: r /\ (34 =? c) = false.
Proof.
  intros H Hne. destruct H as [| c s Hc Hs | c s Hc Hs]; [contradiction | |].
  - exists c, s. split; [reflexivity|]. destruct (N.eqb_spec 34 c) as [<-|]; [discriminate Hc | reflexivity].
  - eexists _, _. split; reflexivity.
Qed.

Lemma ok_body_enc e w d : enc_body_enc e w -> OK (Ref f_body_structure_x_body_encoding DSame) d w e any.
Proof.
  intro H. apply (okref _ _ _ _ _ _ _ env_body_encoding). unfold def_body_structure_x_body_encoding. fold enc_alts.
  destruct H as [K n k Hin Hk | s Hs Hu Hm | K n k t Hin Hk Hne Ht Hu | s w0 Hl Hu].
  - apply ok_alt_here. eapply ok_map.
    { apply ok_seq. regroup ([34] ++ (k ++ ([34] ++ []))).
      eapply (okseq_cons _ _ _ _ _ _ _ _ _ _ any any); [apply ok_tag | | intros; exact I].
      eapply (okseq_cons _ _ _ _ _ _ _ _ _ _ any any); [apply (ok_known_enc K n k d Hin Hk) | | intros; exact I].
      eapply (okseq_cons _ _ _ _ _ _ _ _ _ _ any any); [apply ok_tag | apply (okseq_nil _ _ _ _ any) | intros; exact I]. }
    reflexivity.
  - apply ok_alt_skip.
    { intros rest _. apply rej_map. rewrite <- !app_assoc.
      eapply (rej_seq_after _ _ _ _ _ _ _ _ any); [apply ok_tag | exact I |]. apply rejseq_head.
      rewrite app_assoc. apply rej_enc_alts, Hm. }
    apply ok_alt_here. eapply ok_map.
    { apply ok_string_utf8; [apply enc_string_q, enc_quoted_intro; exact Hs | exact Hu]. }
    reflexivity.
  - (* a longer name starting with a known one: the known name is read, then the closing quote is missing *)
    destruct (quoted_body_head_not_quote t Ht Hne) as (c & r & -> & Hc).
    apply ok_alt_skip.
    { intros rest _. apply rej_map. rewrite <- !app_assoc.
      eapply (rej_seq_after _ _ _ _ _ _ _ _ any); [apply ok_tag | exact I |].
      eapply (rejseq_after _ _ _ _ _ _ _ _ any); [apply (ok_known_enc K n k d Hin Hk) | exact I |].
      apply rejseq_head. cbn [app]. apply rej_tag. exact Hc. }
    apply ok_alt_here. eapply ok_map.
    { apply ok_string_utf8; [|exact Hu]. apply enc_string_q. constructor.
      apply quoted_body_app; [apply plain_body, (known_enc_plain K n k Hin Hk) | exact Ht]. }
    reflexivity.
  - apply ok_alt_skip.
    { intros rest _. destruct Hl as [s' ds]. cbn [app]. apply rej_map, rej_seq_head, rej_tag. reflexivity. }
    apply ok_alt_here. eapply ok_map. { apply ok_string_utf8; [apply enc_string_l, Hl | exact Hu]. } reflexivity.
Qed.

Lemma ok_body_fields p id de e n w d : enc_body_fields p id de e n w ->
  OK (Ref f_body_structure_x_body_fields DSame) d w
     (VRec "BodyFields" [("param"%string, p); ("id"%string, id); ("description"%string, de); ("transfer_encoding"%string, e); ("octets"%string, VNum n)])
     (stops_at nom_is_digit).
Proof.
  intros [p0 wp id0 wi de0 wd e0 we n0 wn Hp Hi Hd He Hn]. apply (okref _ _ _ _ _ _ _ env_body_fields). unfold def_body_structure_x_body_fields.
  eapply ok_map.
  { apply ok_seq. unfold SPb. regroup (wp ++ ([32] ++ (wi ++ ([32] ++ (wd ++ ([32] ++ (we ++ ([32] ++ (wn ++ []))))))))).
    eapply (okseq_cons _ _ _ _ _ _ _ _ _ _ any (stops_at nom_is_digit)); [apply ok_body_param, Hp | | intros; exact I].
    eapply (okseq_cons _ _ _ _ _ _ _ _ _ _ any (stops_at nom_is_digit)); [apply ok_tag | | intros; exact I].
    eapply (okseq_cons _ _ _ _ _ _ _ _ _ _ any (stops_at nom_is_digit)); [apply ok_nstring_utf8, Hi | | intros; exact I].
    eapply (okseq_cons _ _ _ _ _ _ _ _ _ _ any (stops_at nom_is_digit)); [apply ok_tag | | intros; exact I].
    eapply (okseq_cons _ _ _ _ _ _ _ _ _ _ any (stops_at nom_is_digit)); [apply ok_nstring_utf8, Hd | | intros; exact I].
    eapply (okseq_cons _ _ _ _ _ _ _ _ _ _ any (stops_at nom_is_digit)); [apply ok_tag | | intros; exact I].
    eapply (okseq_cons _ _ _ _ _ _ _ _ _ _ any (stops_at nom_is_digit)); [apply ok_body_enc, He | | intros; exact I].
    eapply (okseq_cons _ _ _ _ _ _ _ _ _ _ any (stops_at nom_is_digit)); [apply ok_tag | | intros; exact I].
    eapply (okseq_cons _ _ _ _ _ _ _ _ _ _ (stops_at nom_is_digit) (stops_at nom_is_digit));
      [apply ok_number, Hn | apply (okseq_nil _ _ _ _ (stops_at nom_is_digit)) | intros r Hr; exact Hr]. }
  reflexivity.
Qed.

(* ---------------------------------------------------------------- disposition, language, extension data *)
Lemma env_body_dsp : env f_body_structure_x_body_disposition = Some def_body_structure_x_body_disposition. Proof. reflexivity. Qed.
Lemma env_body_lang : env f_body_structure_x_body_lang = Some def_body_structure_x_body_lang. Proof. reflexivity. Qed.
Lemma env_body_ext : env f_body_structure_x_body_extension = Some def_body_structure_x_body_extension. Proof. reflexivity. Qed.
Lemma env_body_ext_at : env f_body_structure_x_body_extension_at = Some def_body_structure_x_body_extension_at. Proof. reflexivity. Qed.

Lemma ok_body_dsp v w d : enc_body_dsp v w -> OK (Ref f_body_structure_x_body_disposition DSame) d w v any.
Proof.
  intros [w0 Hn | ty wty p wp Hty Hu Hp]; apply (okref _ _ _ _ _ _ _ env_body_dsp); unfold def_body_structure_x_body_disposition.
  - apply ok_alt_here. eapply ok_map. { apply ok_nil, Hn. } reflexivity.
  - apply ok_alt_skip.
    { intros rest _. cbn [app]. apply rej_map. apply (rejref _ _ _ _ _ env_nil). unfold def_core_x_nil. apply rej_tag_nc. reflexivity. }
    apply ok_alt_here. eapply ok_map.
    { apply ok_seq. unfold SPb. regroup ([40] ++ ((wty ++ [32] ++ wp) ++ ([41] ++ []))).
      eapply (okseq_cons _ _ _ _ _ _ _ _ _ _ any any); [apply ok_tag | | intros; exact I].
      eapply (okseq_cons _ _ _ _ _ _ _ _ _ _ any any); [| | intros; exact I].
      - eapply ok_map.
        { apply ok_seq. regroup (wty ++ ([32] ++ (wp ++ []))).
          eapply (okseq_cons _ _ _ _ _ _ _ _ _ _ any any); [apply ok_string_utf8; eassumption | | intros; exact I].
          eapply (okseq_cons _ _ _ _ _ _ _ _ _ _ any any); [apply ok_tag | | intros; exact I].
          eapply (okseq_cons _ _ _ _ _ _ _ _ _ _ any any); [apply ok_body_param, Hp | apply (okseq_nil _ _ _ _ any) | intros; exact I]. }
        reflexivity.
      - eapply (okseq_cons _ _ _ _ _ _ _ _ _ _ any any); [apply ok_tag | apply (okseq_nil _ _ _ _ any) | intros; exact I]. }
    reflexivity.
Qed.

Definition lang_item : G := Map (mk_action (PVar "x") (AVar "x")) (Ref f_core_x_string_utf8 DSame).

Lemma oksep_langs l ws d : enc_lang_more l ws -> OkSep native_call env rk (Leaf (LTag (bs " "))) lang_item d ws l closes.
Proof.
  intro H. induction H as [| s w l ws Hs Hu Hl IH].
  - apply oksep_nil. intros rest Hr. destruct rest as [|c r]; [destruct Hr|]. cbn in Hr. subst c. apply rej_tag. reflexivity.
  - unfold SPb. eapply (oksep_cons _ _ _ _ _ _ _ _ _ _ _ _ any any).
    + apply ok_tag.
    + discriminate.
    + unfold lang_item. eapply ok_map; [apply ok_string_utf8; eassumption | reflexivity].
    + exact IH.
    + intros; exact I.
    + intros; exact I.
Qed.

Lemma ok_body_lang v w d : enc_body_lang v w -> OK (Ref f_body_structure_x_body_lang DSame) d w v any.
Proof.
  intro H. apply (okref _ _ _ _ _ _ _ env_body_lang). unfold def_body_structure_x_body_lang. fold lang_item.
  destruct H as [w0 Hn | s w0 Hs Hu | s w0 l ws Hs Hu Hl].
  - apply ok_alt_here. eapply ok_map. { apply ok_nstring_utf8. apply nsu_nil, Hn. } reflexivity.
  - apply ok_alt_here. eapply ok_map. { apply ok_nstring_utf8. apply nsu_some; eassumption. } reflexivity.
  - apply ok_alt_skip.
    { intros rest _. cbn [app]. apply (fails_on_byte native_call env rk rank_ok_all 8). vm_compute. reflexivity. }
    apply ok_alt_here. eapply ok_map.
    { eapply ok_map.
      { apply ok_seq. regroup ([40] ++ ((w0 ++ ws) ++ ([41] ++ []))).
        eapply (okseq_cons _ _ _ _ _ _ _ _ _ _ any any); [apply ok_tag | | intros; exact I].
        eapply (okseq_cons _ _ _ _ _ _ _ _ _ _ closes any).
        - eapply (ok_seplist1 _ _ _ _ _ _ _ _ _ _ any); [| apply oksep_langs, Hl | intros; exact I].
          unfold lang_item. eapply ok_map; [apply ok_string_utf8; eassumption | reflexivity].
        - eapply (okseq_cons _ _ _ _ _ _ _ _ _ _ any any); [apply ok_tag | apply (okseq_nil _ _ _ _ any) | intros; exact I].
        - intros rest _. reflexivity. }
      reflexivity. }
    reflexivity.
Qed.

Lemma rej_number_nd c i d : nom_is_digit c = false -> REJ (Ref f_core_x_number DSame) d (c :: i).
Proof.
  intro H. apply (rejref _ _ _ _ _ env_number). intros b f Hf Hb. destruct f as [|f]; [cbn [need] in Hf; lia|].
  rewrite run_S. cbn [step leaf_run]. unfold number_p. cbn [span]. rewrite H. reflexivity.
Qed.

Scheme enc_body_ext_mut := Induction for enc_body_ext Sort Prop
  with enc_body_exts_mut := Induction for enc_body_exts Sort Prop.
Combined Scheme enc_body_ext_both from enc_body_ext_mut, enc_body_exts_mut.

Definition ext_item : G := Ref f_body_structure_x_body_extension_at DSucc.

Lemma ok_body_ext_both :
  (forall d x w, enc_body_ext d x w -> OK def_body_structure_x_body_extension_at d w x sp_or_close) /\
  (forall d l ws, enc_body_exts d l ws -> forall d0, d = S d0 -> OkSep native_call env rk (Leaf (LTag (bs " "))) ext_item d0 ws l closes).
Proof.
  apply enc_body_ext_both.
  - (* number *)
    intros d n w Hd Hn. unfold def_body_structure_x_body_extension_at. apply ok_guard; [exact Hd|].
    apply ok_alt_here. eapply ok_map; [|reflexivity].
    apply (Ok_follow _ _ _ _ _ _ _ (stops_at nom_is_digit)); [apply ok_number, Hn | exact sp_or_close_nodigit].
  - (* nstring *)
    intros d v w Hd Hv. unfold def_body_structure_x_body_extension_at. apply ok_guard; [exact Hd|].
    apply (Ok_follow _ _ _ _ _ _ _ any); [|intros; exact I].
    apply ok_alt_skip.
    { intros rest _. apply rej_map. destruct Hv as [w0 Hn | s w0 Hs _].
      - destruct (enc_nil_head w0 Hn) as (c & r & -> & [-> | ->]); cbn [app]; apply rej_number_nd; reflexivity.
      - destruct (enc_string_head s w0 Hs) as (c & r & -> & [-> | ->]); cbn [app]; apply rej_number_nd; reflexivity. }
    apply ok_alt_here. eapply ok_map; [apply ok_nstring_utf8, Hv | reflexivity].
  - (* list *)
    intros d x w l ws Hd Hx IHx Hl IHl. unfold def_body_structure_x_body_extension_at. fold ext_item. apply ok_guard; [exact Hd|].
    apply (Ok_follow _ _ _ _ _ _ _ any); [|intros; exact I].
    apply ok_alt_skip. { intros rest _. cbn [app]. apply rej_map, rej_number_nd. reflexivity. }
    apply ok_alt_skip. { intros rest _. cbn [app]. apply (fails_on_byte native_call env rk rank_ok_all 8). vm_compute. reflexivity. }
    apply ok_alt_here. eapply ok_map.
    { eapply ok_map.
      { apply ok_seq. regroup ([40] ++ ((w ++ ws) ++ ([41] ++ []))).
        eapply (okseq_cons _ _ _ _ _ _ _ _ _ _ any any); [apply ok_tag | | intros; exact I].
        eapply (okseq_cons _ _ _ _ _ _ _ _ _ _ closes any).
        - eapply (ok_seplist1 _ _ _ _ _ _ _ _ _ _ sp_or_close).
          + unfold ext_item. apply (okref _ _ _ _ _ _ _ env_body_ext_at). cbn [apply_darg]. exact IHx.
          + exact (IHl d eq_refl).
          + intros rest Hr. destruct Hl; cbn [app].
            * destruct rest as [|c r]; [destruct Hr|]. cbn in Hr. subst c. right. reflexivity.
            * left. reflexivity.
        - eapply (okseq_cons _ _ _ _ _ _ _ _ _ _ any any); [apply ok_tag | apply (okseq_nil _ _ _ _ any) | intros; exact I].
        - intros rest _. reflexivity. }
      reflexivity. }
    reflexivity.
  - (* no more *)
    intros d d0 _. apply oksep_nil. intros rest Hr. destruct rest as [|c r]; [destruct Hr|]. cbn in Hr. subst c. apply rej_tag. reflexivity.
  - (* one more *)
    intros d x w l ws Hx IHx Hl IHl d0 ->. unfold SPb. eapply (oksep_cons _ _ _ _ _ _ _ _ _ _ _ _ any sp_or_close).
    + apply ok_tag.
    + discriminate.
    + unfold ext_item. apply (okref _ _ _ _ _ _ _ env_body_ext_at). cbn [apply_darg]. exact IHx.
    + exact (IHl d0 eq_refl).
    + intros rest Hr. destruct Hl; cbn [app].
      * destruct rest as [|c r]; [destruct Hr|]. cbn in Hr. subst c. right. reflexivity.
      * left. reflexivity.
    + intros; exact I.
Qed.

Lemma ok_body_extension x w d : enc_body_ext 0 x w -> OK (Ref f_body_structure_x_body_extension DSame) d w x sp_or_close.
Proof.
  intro H. apply (okref _ _ _ _ _ _ _ env_body_ext). unfold def_body_structure_x_body_extension.
  apply (okref _ _ _ _ _ _ _ env_body_ext_at). cbn [apply_darg]. exact (proj1 ok_body_ext_both 0%nat x w H).
Qed.

(* ---------------------------------------------------------------- body-ext-1part / body-ext-mpart *)
Lemma env_ext_1part : env f_body_structure_x_body_ext_1part = Some def_body_structure_x_body_ext_1part. Proof. reflexivity. Qed.
Lemma env_ext_mpart : env f_body_structure_x_body_ext_mpart = Some def_body_structure_x_body_ext_mpart. Proof. reflexivity. Qed.

Definition proj12b : action := mk_action (PTuple [PWild; PVar "p1"]) (AVar "p1").
Definition sp_item (g : G) : G := Map proj12b (Seq [(Leaf (LTag (bs " "))); g]).

Lemma rej_sp_item g rest d : closes rest -> REJ (sp_item g) d rest.
Proof. destruct rest as [|c r]; [intros []|]. cbn. intros ->. unfold sp_item. apply rej_map, rej_seq_head, rej_tag. reflexivity. Qed.

Lemma ok_sp_item g w v (F : list byte -> Prop) d : OK g d w v F -> OK (sp_item g) d (SPb ++ w) v F.
Proof.
  intro H. unfold sp_item. eapply ok_map.
  { apply ok_seq. unfold SPb. regroup ([32] ++ (w ++ [])).
    eapply (okseq_cons _ _ _ _ _ _ _ _ _ _ any F); [apply ok_tag | | intros; exact I].
    eapply (okseq_cons _ _ _ _ _ _ _ _ _ _ F F); [exact H | apply (okseq_nil _ _ _ _ F) | intros r Hr; exact Hr]. }
  reflexivity.
Qed.

Definition ext_tail_gs : list G :=
  [OptOpt (sp_item (Ref f_body_structure_x_body_disposition DSame)); OptOpt (sp_item (Ref f_body_structure_x_body_lang DSame));
   OptOpt (sp_item (Ref f_core_x_nstring_utf8 DSame)); Opt (sp_item (Ref f_body_structure_x_body_extension DSame))].

Lemma closes_any_sp (w : list byte) rest : closes rest -> sp_or_close (w ++ rest) \/ True.
Proof. intros _. right. exact I. Qed.

Lemma okseq_ext_tail dsp lang loc ext wt d : enc_ext_tail dsp lang loc ext wt ->
  OkSeq native_call env rk ext_tail_gs d wt [dsp; lang; loc; ext] closes.
Proof.
  intro H. unfold ext_tail_gs.
  assert (N0 : forall g, OK (OptOpt (sp_item g)) d [] VNone closes) by (intro g; apply ok_optopt_none; intros rest Hr; apply rej_sp_item, Hr).
  assert (N1 : forall g, OK (Opt (sp_item g)) d [] VNone closes) by (intro g; apply ok_opt_none; intros rest Hr; apply rej_sp_item, Hr).
  destruct H as [| dsp w1 H1 | dsp w1 lang w2 H1 H2 | dsp w1 lang w2 loc w3 H1 H2 H3 | dsp w1 lang w2 loc w3 x w4 H1 H2 H3 H4].
  - regroup ((@nil byte) ++ ((@nil byte) ++ ((@nil byte) ++ ((@nil byte) ++ (@nil byte))))).
    eapply (okseq_cons _ _ _ _ _ _ _ _ _ _ closes closes); [apply N0 | | intros r Hr; exact Hr].
    eapply (okseq_cons _ _ _ _ _ _ _ _ _ _ closes closes); [apply N0 | | intros r Hr; exact Hr].
    eapply (okseq_cons _ _ _ _ _ _ _ _ _ _ closes closes); [apply N0 | | intros r Hr; exact Hr].
    eapply (okseq_cons _ _ _ _ _ _ _ _ _ _ closes closes); [apply N1 | apply (okseq_nil _ _ _ _ closes) | intros r Hr; exact Hr].
  - regroup ((SPb ++ w1) ++ ([] ++ ([] ++ ([] ++ [])))).
    eapply (okseq_cons _ _ _ _ _ _ _ _ _ _ any closes); [apply ok_optopt_some, ok_sp_item, ok_body_dsp, H1 | | intros; exact I].
    eapply (okseq_cons _ _ _ _ _ _ _ _ _ _ closes closes); [apply N0 | | intros r Hr; exact Hr].
    eapply (okseq_cons _ _ _ _ _ _ _ _ _ _ closes closes); [apply N0 | | intros r Hr; exact Hr].
    eapply (okseq_cons _ _ _ _ _ _ _ _ _ _ closes closes); [apply N1 | apply (okseq_nil _ _ _ _ closes) | intros r Hr; exact Hr].
  - regroup ((SPb ++ w1) ++ ((SPb ++ w2) ++ ([] ++ ([] ++ [])))).
    eapply (okseq_cons _ _ _ _ _ _ _ _ _ _ any closes); [apply ok_optopt_some, ok_sp_item, ok_body_dsp, H1 | | intros; exact I].
    eapply (okseq_cons _ _ _ _ _ _ _ _ _ _ any closes); [apply ok_optopt_some, ok_sp_item, ok_body_lang, H2 | | intros; exact I].
    eapply (okseq_cons _ _ _ _ _ _ _ _ _ _ closes closes); [apply N0 | | intros r Hr; exact Hr].
    eapply (okseq_cons _ _ _ _ _ _ _ _ _ _ closes closes); [apply N1 | apply (okseq_nil _ _ _ _ closes) | intros r Hr; exact Hr].
  - regroup ((SPb ++ w1) ++ ((SPb ++ w2) ++ ((SPb ++ w3) ++ ([] ++ [])))).
    eapply (okseq_cons _ _ _ _ _ _ _ _ _ _ any closes); [apply ok_optopt_some, ok_sp_item, ok_body_dsp, H1 | | intros; exact I].
    eapply (okseq_cons _ _ _ _ _ _ _ _ _ _ any closes); [apply ok_optopt_some, ok_sp_item, ok_body_lang, H2 | | intros; exact I].
    eapply (okseq_cons _ _ _ _ _ _ _ _ _ _ any closes); [apply ok_optopt_some, ok_sp_item, ok_nstring_utf8, H3 | | intros; exact I].
    eapply (okseq_cons _ _ _ _ _ _ _ _ _ _ closes closes); [apply N1 | apply (okseq_nil _ _ _ _ closes) | intros r Hr; exact Hr].
  - regroup ((SPb ++ w1) ++ ((SPb ++ w2) ++ ((SPb ++ w3) ++ ((SPb ++ w4) ++ [])))).
    eapply (okseq_cons _ _ _ _ _ _ _ _ _ _ any closes); [apply ok_optopt_some, ok_sp_item, ok_body_dsp, H1 | | intros; exact I].
    eapply (okseq_cons _ _ _ _ _ _ _ _ _ _ any closes); [apply ok_optopt_some, ok_sp_item, ok_body_lang, H2 | | intros; exact I].
    eapply (okseq_cons _ _ _ _ _ _ _ _ _ _ any closes); [apply ok_optopt_some, ok_sp_item, ok_nstring_utf8, H3 | | intros; exact I].
    eapply (okseq_cons _ _ _ _ _ _ _ _ _ _ sp_or_close closes); [apply ok_opt_some, ok_sp_item, ok_body_extension, H4 | apply (okseq_nil _ _ _ _ closes) |].
    intros rest Hr. destruct rest as [|c r]; [destruct Hr|]. cbn in Hr. subst c. right. reflexivity.
Qed.

Lemma ok_ext_1part md5 dsp lang loc ext w d : enc_ext_1part md5 dsp lang loc ext w ->
  OK (Ref f_body_structure_x_body_ext_1part DSame) d w
     (VRec "BodyExt1Part" [("md5"%string, md5); ("disposition"%string, dsp); ("language"%string, lang); ("location"%string, loc); ("extension"%string, ext)])
     closes.
Proof.
  intro H. apply (okref _ _ _ _ _ _ _ env_ext_1part). unfold def_body_structure_x_body_ext_1part.
  fold proj12b. fold (sp_item (Ref f_core_x_nstring_utf8 DSame)). fold (sp_item (Ref f_body_structure_x_body_disposition DSame)).
  fold (sp_item (Ref f_body_structure_x_body_lang DSame)). fold (sp_item (Ref f_body_structure_x_body_extension DSame)).
  change [OptOpt (sp_item (Ref f_core_x_nstring_utf8 DSame)); OptOpt (sp_item (Ref f_body_structure_x_body_disposition DSame));
          OptOpt (sp_item (Ref f_body_structure_x_body_lang DSame)); OptOpt (sp_item (Ref f_core_x_nstring_utf8 DSame));
          Opt (sp_item (Ref f_body_structure_x_body_extension DSame))]
    with (OptOpt (sp_item (Ref f_core_x_nstring_utf8 DSame)) :: ext_tail_gs).
  destruct H as [| md5 w0 dsp lang loc ext wt H0 Ht].
  - eapply ok_map.
    { apply ok_seq. eapply (okseq_cons' _ _ _ _ [] [] _ _ closes closes); [reflexivity | | apply okseq_ext_tail; constructor | intros r Hr; exact Hr].
      apply ok_optopt_none. intros rest Hr. apply rej_sp_item, Hr. }
    reflexivity.
  - eapply ok_map.
    { apply ok_seq. regroup ((SPb ++ w0) ++ wt).
      eapply (okseq_cons _ _ _ _ _ _ _ _ _ _ any closes); [apply ok_optopt_some, ok_sp_item, ok_nstring_utf8, H0 | apply okseq_ext_tail, Ht | intros; exact I]. }
    reflexivity.
Qed.

Lemma ok_ext_mpart p dsp lang loc ext w d : enc_ext_mpart p dsp lang loc ext w ->
  OK (Ref f_body_structure_x_body_ext_mpart DSame) d w
     (VRec "BodyExtMPart" [("param"%string, p); ("disposition"%string, dsp); ("language"%string, lang); ("location"%string, loc); ("extension"%string, ext)])
     closes.
Proof.
  intro H. apply (okref _ _ _ _ _ _ _ env_ext_mpart). unfold def_body_structure_x_body_ext_mpart.
  fold proj12b. fold (sp_item (Ref f_core_x_nstring_utf8 DSame)). fold (sp_item (Ref f_body_structure_x_body_disposition DSame)).
  fold (sp_item (Ref f_body_structure_x_body_lang DSame)). fold (sp_item (Ref f_body_structure_x_body_extension DSame)).
  fold (sp_item (Ref f_body_structure_x_body_param DSame)).
  change [OptOpt (sp_item (Ref f_body_structure_x_body_param DSame)); OptOpt (sp_item (Ref f_body_structure_x_body_disposition DSame));
          OptOpt (sp_item (Ref f_body_structure_x_body_lang DSame)); OptOpt (sp_item (Ref f_core_x_nstring_utf8 DSame));
          Opt (sp_item (Ref f_body_structure_x_body_extension DSame))]
    with (OptOpt (sp_item (Ref f_body_structure_x_body_param DSame)) :: ext_tail_gs).
  destruct H as [| p0 w0 dsp lang loc ext wt H0 Ht].
  - eapply ok_map.
    { apply ok_seq. eapply (okseq_cons' _ _ _ _ [] [] _ _ closes closes); [reflexivity | | apply okseq_ext_tail; constructor | intros r Hr; exact Hr].
      apply ok_optopt_none. intros rest Hr. apply rej_sp_item, Hr. }
    reflexivity.
  - eapply ok_map.
    { apply ok_seq. regroup ((SPb ++ w0) ++ wt).
      eapply (okseq_cons _ _ _ _ _ _ _ _ _ _ any closes); [apply ok_optopt_some, ok_sp_item, ok_body_param, H0 | apply okseq_ext_tail, Ht | intros; exact I]. }
    reflexivity.
Qed.

(* ---------------------------------------------------------------- body *)
Lemma env_body : env f_body_structure_x_body = Some def_body_structure_x_body. Proof. reflexivity. Qed.
Lemma env_body_at : env f_body_structure_x_body_at = Some def_body_structure_x_body_at. Proof. reflexivity. Qed.
Lemma env_type_text : env f_body_structure_x_body_type_text = Some def_body_structure_x_body_type_text. Proof. reflexivity. Qed.
Lemma env_type_message : env f_body_structure_x_body_type_message = Some def_body_structure_x_body_type_message. Proof. reflexivity. Qed.
Lemma env_type_basic : env f_body_structure_x_body_type_basic = Some def_body_structure_x_body_type_basic. Proof. reflexivity. Qed.
Lemma env_type_multipart : env f_body_structure_x_body_type_multipart = Some def_body_structure_x_body_type_multipart. Proof. reflexivity. Qed.

Scheme enc_body_mut := Minimality for enc_body Sort Prop
  with enc_bodies_mut := Minimality for enc_bodies Sort Prop.
Combined Scheme enc_body_both from enc_body_mut, enc_bodies_mut.

Lemma enc_body_head d b w : enc_body d b w -> exists r, w = 40 :: r.
Proof. intros []; eexists; reflexivity. Qed.

Definition at_sp (rest : list byte) : Prop := match rest with c :: _ => c = 32 | [] => False end.
Definition body_item : G := Ref f_body_structure_x_body_at DSucc.

Lemma closes_sp_or_close rest : closes rest -> sp_or_close rest.
Proof. destruct rest as [|c r]; [intros []|]. cbn. intros ->. right. reflexivity. Qed.

Lemma ext1_head_follow md5 dsp lang loc ext wx rest : enc_ext_1part md5 dsp lang loc ext wx -> closes rest -> sp_or_close (wx ++ rest).
Proof. intros [| ? ? ? ? ? ? ? _ _] Hr; cbn [app]; [apply closes_sp_or_close, Hr | left; reflexivity]. Qed.

Lemma extm_head_follow p dsp lang loc ext wx rest : enc_ext_mpart p dsp lang loc ext wx -> closes rest -> sp_or_close (wx ++ rest).
Proof. intros [| ? ? ? ? ? ? ? _ _] Hr; cbn [app]; [apply closes_sp_or_close, Hr | left; reflexivity]. Qed.

Definition type_alts : list G :=
  [(Ref f_body_structure_x_body_type_text DSame); (Ref f_body_structure_x_body_type_message DSame);
   (Ref f_body_structure_x_body_type_basic DSame); (Ref f_body_structure_x_body_type_multipart DSame)].

(* "(" one of the four body types ")" under the nesting guard *)
Lemma ok_body_wrap d w v : (d < 32)%nat -> OK (Alt type_alts) d w v closes -> OK def_body_structure_x_body_at d ([40] ++ w ++ [41]) v any.
Proof.
  intros Hd H. unfold def_body_structure_x_body_at. fold type_alts. apply ok_guard; [exact Hd|].
  eapply ok_map.
  { apply ok_seq. regroup ([40] ++ (w ++ ([41] ++ []))).
    eapply (okseq_cons _ _ _ _ _ _ _ _ _ _ any any); [apply ok_tag | | intros; exact I].
    eapply (okseq_cons _ _ _ _ _ _ _ _ _ _ closes any); [exact H | | intros rest _; reflexivity].
    eapply (okseq_cons _ _ _ _ _ _ _ _ _ _ any any); [apply ok_tag | apply (okseq_nil _ _ _ _ any) | intros; exact I]. }
  reflexivity.
Qed.

Lemma ok_body_both :
  (forall d b w, enc_body d b w -> OK def_body_structure_x_body_at d w b any) /\
  (forall d l ws, enc_bodies d l ws -> forall d0, d = S d0 -> OkMany native_call env rk body_item d0 ws l at_sp).
Proof.
  apply enc_body_both.
  - (* text *)
    intros d k sub wsub p id de e n wf lines wl md5 dsp lang loc ext wx Hd Hk Hsub Hu Hf Hl Hx. unfold kw in Hk.
    apply ok_body_wrap; [exact Hd|]. unfold type_alts. apply ok_alt_here.
    apply (okref _ _ _ _ _ _ _ env_type_text). unfold def_body_structure_x_body_type_text.
    eapply ok_map.
    { apply ok_seq. unfold SPb. regroup (k ++ ([32] ++ (wsub ++ ([32] ++ (wf ++ ([32] ++ (wl ++ (wx ++ [])))))))).
      eapply (okseq_cons _ _ _ _ _ _ _ _ _ _ any closes); [apply ok_tag_nc, Hk | | intros; exact I].
      eapply (okseq_cons _ _ _ _ _ _ _ _ _ _ any closes); [apply ok_tag | | intros; exact I].
      eapply (okseq_cons _ _ _ _ _ _ _ _ _ _ any closes); [apply ok_string_utf8; eassumption | | intros; exact I].
      eapply (okseq_cons _ _ _ _ _ _ _ _ _ _ any closes); [apply ok_tag | | intros; exact I].
      eapply (okseq_cons _ _ _ _ _ _ _ _ _ _ (stops_at nom_is_digit) closes); [apply ok_body_fields, Hf | | intros rest _; reflexivity].
      eapply (okseq_cons _ _ _ _ _ _ _ _ _ _ any closes); [apply ok_tag | | intros; exact I].
      eapply (okseq_cons _ _ _ _ _ _ _ _ _ _ (stops_at nom_is_digit) closes); [apply ok_number, Hl | |].
      - eapply (okseq_cons _ _ _ _ _ _ _ _ _ _ closes closes); [apply ok_ext_1part, Hx | apply (okseq_nil _ _ _ _ closes) | intros r Hr; exact Hr].
      - intros rest Hr. rewrite app_nil_r. apply sp_or_close_nodigit. eapply ext1_head_follow; eassumption. }
    reflexivity.
  - (* message/rfc822 *)
    intros d k p id de e n wf env0 wenv b wb lines wl md5 dsp lang loc ext wx Hd Hk Hf Henv Hb IHb Hl Hx. unfold kw in Hk.
    apply ok_body_wrap; [exact Hd|]. unfold type_alts.
    apply (skip_kw0 _ _ _ _ _ _ _ _ Hk); [vm_compute; reflexivity|].
    apply ok_alt_here. apply (okref _ _ _ _ _ _ _ env_type_message). unfold def_body_structure_x_body_type_message. fold body_item.
    eapply ok_map.
    { apply ok_seq. unfold SPb. regroup (k ++ ([32] ++ (wf ++ ([32] ++ (wenv ++ ([32] ++ (wb ++ ([32] ++ (wl ++ (wx ++ [])))))))))).
      eapply (okseq_cons _ _ _ _ _ _ _ _ _ _ any closes); [apply ok_tag_nc, Hk | | intros; exact I].
      eapply (okseq_cons _ _ _ _ _ _ _ _ _ _ any closes); [apply ok_tag | | intros; exact I].
      eapply (okseq_cons _ _ _ _ _ _ _ _ _ _ (stops_at nom_is_digit) closes); [apply ok_body_fields, Hf | | intros rest _; reflexivity].
      eapply (okseq_cons _ _ _ _ _ _ _ _ _ _ any closes); [apply ok_tag | | intros; exact I].
      eapply (okseq_cons _ _ _ _ _ _ _ _ _ _ any closes); [apply ok_envelope, Henv | | intros; exact I].
      eapply (okseq_cons _ _ _ _ _ _ _ _ _ _ any closes); [apply ok_tag | | intros; exact I].
      eapply (okseq_cons _ _ _ _ _ _ _ _ _ _ any closes); [| | intros; exact I].
      { unfold body_item. apply (okref _ _ _ _ _ _ _ env_body_at). cbn [apply_darg]. exact IHb. }
      eapply (okseq_cons _ _ _ _ _ _ _ _ _ _ any closes); [apply ok_tag | | intros; exact I].
      eapply (okseq_cons _ _ _ _ _ _ _ _ _ _ (stops_at nom_is_digit) closes); [apply ok_number, Hl | |].
      - eapply (okseq_cons _ _ _ _ _ _ _ _ _ _ closes closes); [apply ok_ext_1part, Hx | apply (okseq_nil _ _ _ _ closes) | intros r Hr; exact Hr].
      - intros rest Hr. rewrite app_nil_r. apply sp_or_close_nodigit. eapply ext1_head_follow; eassumption. }
    reflexivity.
  - (* basic *)
    intros d ty wty sub wsub p id de e n wf md5 dsp lang loc ext wx Hd Hty Huty Hsub Husub Hm1 Hm2 Hf Hx.
    apply ok_body_wrap; [exact Hd|]. unfold type_alts.
    apply ok_alt_skip.
    { intros rest _. apply (rejref _ _ _ _ _ env_type_text). unfold def_body_structure_x_body_type_text.
      apply rej_map, rej_seq_head.
      replace ((wty ++ SPb ++ wsub ++ SPb ++ wf ++ wx) ++ rest) with ((wty ++ SPb ++ wsub) ++ (SPb ++ wf ++ wx) ++ rest) by (rewrite <- !app_assoc; reflexivity).
      apply rej_tag_nc_mismatch. exact Hm1. }
    apply ok_alt_skip.
    { intros rest _. apply (rejref _ _ _ _ _ env_type_message). unfold def_body_structure_x_body_type_message.
      apply rej_map, rej_seq_head.
      replace ((wty ++ SPb ++ wsub ++ SPb ++ wf ++ wx) ++ rest) with ((wty ++ SPb ++ wsub) ++ (SPb ++ wf ++ wx) ++ rest) by (rewrite <- !app_assoc; reflexivity).
      apply rej_tag_nc_mismatch. exact Hm2. }
    apply ok_alt_here. apply (okref _ _ _ _ _ _ _ env_type_basic). unfold def_body_structure_x_body_type_basic.
    eapply ok_map.
    { apply ok_seq. unfold SPb. regroup (wty ++ ([32] ++ (wsub ++ ([32] ++ (wf ++ (wx ++ [])))))).
      eapply (okseq_cons _ _ _ _ _ _ _ _ _ _ any closes); [apply ok_string_utf8; eassumption | | intros; exact I].
      eapply (okseq_cons _ _ _ _ _ _ _ _ _ _ any closes); [apply ok_tag | | intros; exact I].
      eapply (okseq_cons _ _ _ _ _ _ _ _ _ _ any closes); [apply ok_string_utf8; eassumption | | intros; exact I].
      eapply (okseq_cons _ _ _ _ _ _ _ _ _ _ any closes); [apply ok_tag | | intros; exact I].
      eapply (okseq_cons _ _ _ _ _ _ _ _ _ _ (stops_at nom_is_digit) closes); [apply ok_body_fields, Hf | |].
      - eapply (okseq_cons _ _ _ _ _ _ _ _ _ _ closes closes); [apply ok_ext_1part, Hx | apply (okseq_nil _ _ _ _ closes) | intros r Hr; exact Hr].
      - intros rest Hr. rewrite app_nil_r. apply sp_or_close_nodigit. eapply ext1_head_follow; eassumption. }
    reflexivity.
  - (* multipart *)
    intros d b wb l wl sub wsub p dsp lang loc ext wx Hd Hb IHb Hl IHl Hsub Hu Hx.
    destruct (enc_body_head _ _ _ Hb) as (r0 & E0).
    apply ok_body_wrap; [exact Hd|]. unfold type_alts.
    do 3 (apply ok_alt_skip; [intros rest _; rewrite E0; cbn [app]; apply (fails_on_byte native_call env rk rank_ok_all 8); vm_compute; reflexivity|]).
    apply ok_alt_here. apply (okref _ _ _ _ _ _ _ env_type_multipart). unfold def_body_structure_x_body_type_multipart. fold body_item.
    eapply ok_map.
    { apply ok_seq. unfold SPb. regroup ((wb ++ wl) ++ ([32] ++ (wsub ++ (wx ++ [])))).
      eapply (okseq_cons _ _ _ _ _ _ _ _ _ _ at_sp closes).
      - eapply (ok_many1 _ _ _ _ _ _ _ _ _ any at_sp).
        + unfold body_item. apply (okref _ _ _ _ _ _ _ env_body_at). cbn [apply_darg]. exact IHb.
        + exact (IHl d eq_refl).
        + intros; exact I.
      - eapply (okseq_cons _ _ _ _ _ _ _ _ _ _ any closes); [apply ok_tag | | intros; exact I].
        eapply (okseq_cons _ _ _ _ _ _ _ _ _ _ any closes); [apply ok_string_utf8; eassumption | | intros; exact I].
        eapply (okseq_cons _ _ _ _ _ _ _ _ _ _ closes closes); [apply ok_ext_mpart, Hx | apply (okseq_nil _ _ _ _ closes) | intros r Hr; exact Hr].
      - intros rest _. reflexivity. }
    reflexivity.
  - (* no more parts *)
    intros d d0 _. apply okmany_nil. intros rest Hr. destruct rest as [|c r]; [destruct Hr|]. cbn in Hr. subst c.
    unfold body_item. apply (fails_on_byte native_call env rk rank_ok_all 8). vm_compute. reflexivity.
  - (* one more part *)
    intros d b w l ws Hb IHb Hl IHl d0 ->. eapply (okmany_cons _ _ _ _ _ _ _ _ _ any).
    + unfold body_item. apply (okref _ _ _ _ _ _ _ env_body_at). cbn [apply_darg]. exact IHb.
    + destruct (enc_body_head _ _ _ Hb) as (r0 & ->). discriminate.
    + exact (IHl d0 eq_refl).
    + intros; exact I.
Qed.

Theorem ok_body b w d : enc_body 0 b w -> OK (Ref f_body_structure_x_body DSame) d w b any.
Proof.
  intro H. apply (okref _ _ _ _ _ _ _ env_body). unfold def_body_structure_x_body.
  apply (okref _ _ _ _ _ _ _ env_body_at). cbn [apply_darg]. exact (proj1 ok_body_both 0%nat b w H).
Qed.
