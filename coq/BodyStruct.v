(* M8 (part): hand model of imap-proto/src/parser/bodystructure.rs (BodyStructParser).
   A body structure is seen by the walker as a tree: Multipart nodes have children, every other
   kind (Basic, Text, Message) is a leaf -- the walker does not descend into a message/rfc822 body.
   Every node carries a label so that predicates can select nodes.  Definitions only. *)
From TI Require Import Bytes.

Inductive tree :=
| Leaf (lbl : N)
| Multi (lbl : N) (cs : list tree).

Definition label (t : tree) : N := match t with Leaf l => l | Multi l _ => l end.

(* BodyStructParser::parse: insert (prefix.clone(), node); for (i, n) in bodies.enumerate():
   iter = i + 1; prefix.push(iter); parse(n); prefix.pop().   The map is rendered as the list of
   insertions in order. *)
Fixpoint walk (prefix : list N) (t : tree) : list (list N * tree) :=
  (prefix, t) ::
  match t with
  | Leaf _ => []
  | Multi _ cs =>
    (fix wc (i : N) (cs : list tree) : list (list N * tree) :=
       match cs with
       | [] => []
       | c :: cs' => walk (prefix ++ [i + 1]) c ++ wc (i + 1) cs'
       end) 0 cs
  end.

Fixpoint walk_children (prefix : list N) (i : N) (cs : list tree) : list (list N * tree) :=
  match cs with
  | [] => []
  | c :: cs' => walk (prefix ++ [i + 1]) c ++ walk_children prefix (i + 1) cs'
  end.

(* HashMap::insert keeps the last value per key *)
Fixpoint map_insert (k : list N) (v : tree) (m : list (list N * tree)) : list (list N * tree) :=
  match m with
  | [] => [(k, v)]
  | (k', v') :: m' => if list_eqb N.eqb k k' then (k, v) :: m' else (k', v') :: map_insert k v m'
  end.
Definition build_map (t : tree) : list (list N * tree) :=
  fold_left (fun m kv => map_insert (fst kv) (snd kv) m) (walk [] t) [].

(* search: any key whose value satisfies the predicate (HashMap iteration order is arbitrary):
   the model returns all candidates; the implementation must return one of them, or None iff there is none *)
Definition candidates (pred : tree -> bool) (t : tree) : list (list N) :=
  map fst (filter (fun kv => pred (snd kv)) (build_map t)).

(* the specification: IMAP part specifiers are the 1-based child indices from the root *)
Fixpoint node_at (t : tree) (path : list N) : option tree :=
  match path with
  | [] => Some t
  | k :: p =>
    match t with
    | Leaf _ => None
    | Multi _ cs =>
      if k =? 0 then None else
      match nth_error cs (N.to_nat (k - 1)) with
      | Some c => node_at c p
      | None => None
      end
    end
  end.

(* the child counter is a u32: i as u32 + 1 *)
Fixpoint max_width (t : tree) : N :=
  match t with
  | Leaf _ => 0
  | Multi _ cs => N.max (N.of_nat (length cs)) (fold_right (fun c m => N.max (max_width c) m) 0 cs)
  end.
