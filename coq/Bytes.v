(* M0: bytes, decimal numerals, small list utilities. Definitions only. *)
From Coq Require Export List NArith Bool Ascii String.
Export ListNotations.
Open Scope N_scope.
(* String is exported for byte-string literals only; keep the list functions in front. *)
Notation length := List.length (only parsing).

Definition byte := N.

(* Byte strings are written as Coq strings and converted once. *)
Fixpoint bs (s : string) : list byte :=
  match s with
  | EmptyString => []
  | String a r => N_of_ascii a :: bs r
  end.

Definition CR : byte := 13.
Definition LF : byte := 10.
Definition SP : byte := 32.
Definition DQ : byte := 34.
Definition BSL : byte := 92.

Definition is_digit (c : byte) : bool := (48 <=? c) && (c <=? 57).
Definition is_upper (c : byte) : bool := (65 <=? c) && (c <=? 90).
Definition lower (c : byte) : byte := if is_upper c then c + 32 else c.

(* value of a decimal numeral, most significant digit first *)
Definition dec_step (acc : N) (c : byte) : N := acc * 10 + (c - 48).
Definition dec (ds : list byte) : N := fold_left dec_step ds 0.

Definition digit_of (k : N) : byte := 48 + k.

(* canonical decimal rendering (u32/u64::to_string): fuel-driven, most significant first *)
Fixpoint to_dec_aux (fuel : nat) (n : N) (acc : list byte) : list byte :=
  match fuel with
  | O => acc
  | S f => let acc' := digit_of (n mod 10) :: acc in
           if n / 10 =? 0 then acc' else to_dec_aux f (n / 10) acc'
  end.
Definition to_dec (n : N) : list byte := to_dec_aux (S (N.to_nat (N.log2 n))) n [].

Fixpoint list_eqb {A} (eqb : A -> A -> bool) (a b : list A) : bool :=
  match a, b with
  | [], [] => true
  | x :: a', y :: b' => eqb x y && list_eqb eqb a' b'
  | _, _ => false
  end.

Definition bytes_eqb : list byte -> list byte -> bool := list_eqb N.eqb.
Definition eq_nocase (a b : list byte) : bool := list_eqb (fun x y => lower x =? lower y) a b.

(* RFC 3629 UTF-8 validity (what core::str::from_utf8 accepts), as a byte-at-a-time automaton. *)
Inductive u8st := U0 | U1 | U2 | U3 | UE0 | UED | UF0 | UF4 | UBad.
Definition is_cont (c : byte) : bool := (128 <=? c) && (c <=? 191).
Definition utf8_step (q : u8st) (c : byte) : u8st :=
  match q with
  | U0 => if c <=? 127 then U0
          else if (194 <=? c) && (c <=? 223) then U1
          else if c =? 224 then UE0
          else if ((225 <=? c) && (c <=? 236)) || ((238 <=? c) && (c <=? 239)) then U2
          else if c =? 237 then UED
          else if c =? 240 then UF0
          else if (241 <=? c) && (c <=? 243) then U3
          else if c =? 244 then UF4
          else UBad
  | U1 => if is_cont c then U0 else UBad
  | U2 => if is_cont c then U1 else UBad
  | U3 => if is_cont c then U2 else UBad
  | UE0 => if (160 <=? c) && (c <=? 191) then U1 else UBad
  | UED => if (128 <=? c) && (c <=? 159) then U1 else UBad
  | UF0 => if (144 <=? c) && (c <=? 191) then U2 else UBad
  | UF4 => if (128 <=? c) && (c <=? 143) then U2 else UBad
  | UBad => UBad
  end.
Definition utf8_run (q : u8st) (l : list byte) : u8st := fold_left utf8_step l q.
Definition utf8_valid (l : list byte) : bool := match utf8_run U0 l with U0 => true | _ => false end.
