(* M0: bytes, decimal numerals, small list utilities. Definitions only. *)
From Coq Require Export List NArith Bool Ascii String.
Export ListNotations.
Open Scope N_scope.
(* String is exported for byte-string literals only; keep the list functions in front. *)
Notation length := List.length (only parsing).

Definition byte := N.

(* Byte strings are written as Coq strings and converted once. *)
Fixpoint bs (s : string) : list byte :=
  match s with
  | EmptyString => []
  | String a r => N_of_ascii a :: bs r
  end.

Definition CR : byte := 13.
Definition LF : byte := 10.
Definition SP : byte := 32.
Definition DQ : byte := 34.
Definition BSL : byte := 92.

Definition is_digit (c : byte) : bool := (48 <=? c) && (c <=? 57).
Definition is_upper (c : byte) : bool := (65 <=? c) && (c <=? 90).
Definition lower (c : byte) : byte := if is_upper c then c + 32 else c.

(* value of a decimal numeral, most significant digit first *)
Definition dec_step (acc : N) (c : byte) : N := acc * 10 + (c - 48).
Definition dec (ds : list byte) : N := fold_left dec_step ds 0.

Definition digit_of (k : N) : byte := 48 + k.

(* canonical decimal rendering (u32/u64::to_string): fuel-driven, most significant first *)
Fixpoint to_dec_aux (fuel : nat) (n : N) (acc : list byte) : list byte :=
  match fuel with
  | O => acc
  | S f => let acc' := digit_of (n mod 10) :: acc in
           if n / 10 =? 0 then acc' else to_dec_aux f (n / 10) acc'
  end.
Definition to_dec (n : N) : list byte := to_dec_aux (S (N.to_nat (N.log2 n))) n [].

Fixpoint list_eqb {A} (eqb : A -> A -> bool) (a b : list A) : bool :=
  match a, b with
  | [], [] => true
  | x :: a', y :: b' => eqb x y && list_eqb eqb a' b'
  | _, _ => false
  end.

Definition bytes_eqb : list byte -> list byte -> bool := list_eqb N.eqb.
Definition eq_nocase (a b : list byte) : bool := list_eqb (fun x y => lower x =? lower y) a b.

(* RFC 3629 UTF-8 validity: what core::str::from_utf8 accepts. *)
Definition is_cont (c : byte) : bool := (128 <=? c) && (c <=? 191).
Fixpoint utf8_valid_aux (fuel : nat) (l : list byte) : bool :=
  match fuel with
  | O => match l with [] => true | _ => false end
  | S f =>
    match l with
    | [] => true
    | c :: r =>
      if c <=? 127 then utf8_valid_aux f r
      else if (194 <=? c) && (c <=? 223) then
        match r with c1 :: r' => is_cont c1 && utf8_valid_aux f r' | _ => false end
      else if c =? 224 then
        match r with c1 :: c2 :: r' => (160 <=? c1) && (c1 <=? 191) && is_cont c2 && utf8_valid_aux f r' | _ => false end
      else if ((225 <=? c) && (c <=? 236)) || ((238 <=? c) && (c <=? 239)) then
        match r with c1 :: c2 :: r' => is_cont c1 && is_cont c2 && utf8_valid_aux f r' | _ => false end
      else if c =? 237 then
        match r with c1 :: c2 :: r' => (128 <=? c1) && (c1 <=? 159) && is_cont c2 && utf8_valid_aux f r' | _ => false end
      else if c =? 240 then
        match r with c1 :: c2 :: c3 :: r' => (144 <=? c1) && (c1 <=? 191) && is_cont c2 && is_cont c3 && utf8_valid_aux f r' | _ => false end
      else if (241 <=? c) && (c <=? 243) then
        match r with c1 :: c2 :: c3 :: r' => is_cont c1 && is_cont c2 && is_cont c3 && utf8_valid_aux f r' | _ => false end
      else if c =? 244 then
        match r with c1 :: c2 :: c3 :: r' => (128 <=? c1) && (c1 <=? 143) && is_cont c2 && is_cont c3 && utf8_valid_aux f r' | _ => false end
      else false
    end
  end.
Definition utf8_valid (l : list byte) : bool := utf8_valid_aux (List.length l) l.
