(* C16 instance: the builder's attribute table against the parser's msg_att dispatch. *)
From TI Require Import Bytes Grammar Nom Interp InterpFacts Thm_Fuel Natives Proofs_C01 RoundTrip Spec RoundTripRules Builders Machine.
From TI.gen Require Import ImapGrammar BuilderTables.
Local Open Scope string_scope.

(* RFC 3501 7.4.2 (and RFC 4551, Gmail): the reply keyword of each data item the builder can request *)
Definition reply_kw : list (string * string) :=
  [("Attribute::Body", "BODY "); ("Attribute::Envelope", "ENVELOPE "); ("Attribute::Flags", "FLAGS ");
   ("Attribute::InternalDate", "INTERNALDATE "); ("Attribute::ModSeq", "MODSEQ "); ("Attribute::Rfc822", "RFC822 ");
   ("Attribute::Rfc822Size", "RFC822.SIZE "); ("Attribute::Rfc822Text", "RFC822.TEXT "); ("Attribute::Uid", "UID ");
   ("Attribute::GmailLabels", "X-GM-LABELS "); ("Attribute::GmailMsgId", "X-GM-MSGID ")].

(* what the macros stand for (RFC 3501 6.4.5) *)
Definition macro_items : list (string * list string) :=
  [("AttrMacro::All", ["Attribute::Flags"; "Attribute::InternalDate"; "Attribute::Rfc822Size"; "Attribute::Envelope"]);
   ("AttrMacro::Fast", ["Attribute::Flags"; "Attribute::InternalDate"; "Attribute::Rfc822Size"]);
   ("AttrMacro::Full", ["Attribute::Flags"; "Attribute::InternalDate"; "Attribute::Rfc822Size"; "Attribute::Envelope"; "Attribute::Body"])].

Definition builder_attrs : list string := match assoc "Attribute" gen_kw with Some t => map fst t | None => [] end.
Definition builder_macros : list string := match assoc "AttrMacro" gen_kw with Some t => map fst t | None => [] end.

(* the reply to this item is not turned away by msg_att: some alternative starts with its keyword *)
Definition dispatched (a : string) : bool :=
  match assoc a reply_kw with
  | Some k => negb (fails_on env 8 (Ref f_rfc3501_x_msg_att DSame) (bs k))
  | None => false
  end.

Lemma every_item_dispatched :
  forallb dispatched builder_attrs = true /\
  forallb (fun m => match assoc m macro_items with Some its => forallb dispatched its | None => false end) builder_macros = true.
Proof. split; vm_compute; reflexivity. Qed.

(* the items whose replies are covered by the round-trip theorem today *)
Definition proved_items : list (string * string) :=
  [("Attribute::Envelope", "AttributeValue::Envelope"); ("Attribute::ModSeq", "AttributeValue::ModSeq");
   ("Attribute::Rfc822", "AttributeValue::Rfc822"); ("Attribute::Rfc822Size", "AttributeValue::Rfc822Size");
   ("Attribute::Rfc822Text", "AttributeValue::Rfc822Text"); ("Attribute::Uid", "AttributeValue::Uid");
   ("Attribute::GmailMsgId", "AttributeValue::GmailMsgId"); ("Attribute::Flags", "AttributeValue::Flags");
   ("Attribute::InternalDate", "AttributeValue::InternalDate"); ("Attribute::GmailLabels", "AttributeValue::GmailLabels");
   ("Attribute::Body", "AttributeValue::BodyStructure")].
Definition not_yet_proved : list string := [].

Lemma items_partition :
  forallb (fun a => existsb (String.eqb a) (map fst proved_items ++ not_yet_proved)) builder_attrs = true.
Proof. vm_compute. reflexivity. Qed.

(* a reply carrying values for requested items parses and returns exactly those values, in order *)
Lemma reply_parses v w : enc_fetch v w -> forall rest, parse (w ++ rest) = ROk rest v (nlen w).
Proof. exact (fetch_roundtrip v w). Qed.
