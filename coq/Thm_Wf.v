(* Generic theorem: every value a parser returns is well-formed (every record has distinct field names), for a
   grammar whose actions build records with distinct literal field names, bind flat patterns only, and whose
   natives preserve well-formedness.  Used to discharge the wf_val hypothesis of the C15 theorems. *)
From TI Require Import Bytes Grammar Nom Interp InterpFacts Thm_NoPanic Owned OwnedProofs.
From Coq Require Import Lia Bool.

Section Wf.
Variable natf : string -> list val -> ares.
Hypothesis natf_wf : forall n vs v, forallb wf_val vs = true -> natf n vs = AVal v -> wf_val v = true.

Fixpoint aexp_wf (e : aexp) : bool :=
  match e with
  | AVar _ | ABytes _ | ANumLit _ | ABoolLit _ | ANone => true
  | AField e1 _ | AProj e1 _ | ASome e1 | AIsSome e1 | AUnwrap e1 | AIndex e1 _ | ASliceFrom e1 _ => aexp_wf e1
  | AOptMap _ b e1 => aexp_wf b && aexp_wf e1
  | ACon _ args | ATuple args | AVec args | ACall _ args => forallb aexp_wf args
  | ARec _ fields => str_nodup (map fst fields) && forallb (fun fa => aexp_wf (snd fa)) fields
  end.

Lemma eval_list_wf (ev : aexp -> venv -> ares) args env :
  Forall (fun a => forall v, ev a env = AVal v -> wf_val v = true) args ->
  forall vs, eval_list ev args env = LVal vs -> forallb wf_val vs = true.
Proof.
  induction 1 as [|a args Ha Hargs IH]; intros vs H; cbn [eval_list] in H.
  - injection H as <-. reflexivity.
  - destruct (ev a env) as [v| |] eqn:E; try discriminate.
    destruct (eval_list ev args env) as [vs'| |] eqn:E2; try discriminate. injection H as <-.
    cbn [forallb]. rewrite (Ha v eq_refl), (IH vs' eq_refl). reflexivity.
Qed.

Lemma eval_fields_wf (ev : aexp -> venv -> ares) fields env :
  Forall (fun fa => forall v, ev (snd fa) env = AVal v -> wf_val v = true) fields ->
  forall fs, eval_fields ev fields env = FVal fs -> map fst fs = map fst fields /\ forallb (fun kv => wf_val (snd kv)) fs = true.
Proof.
  induction 1 as [|[f a] fields Ha Hf IH]; intros fs H; cbn [eval_fields] in H.
  - injection H as <-. split; reflexivity.
  - cbn [snd] in Ha. destruct (ev a env) as [v| |] eqn:E; try discriminate.
    destruct (eval_fields ev fields env) as [fs'| |] eqn:E2; try discriminate. injection H as <-.
    destruct (IH fs' eq_refl) as [I1 I2]. cbn [map fst forallb snd]. rewrite I1, (Ha v eq_refl), I2. split; reflexivity.
Qed.

Lemma nth_wf vs k : forallb wf_val vs = true -> wf_val (nth k vs VUnit) = true.
Proof.
  revert k; induction vs as [|v vs IH]; intros [|k] H; try reflexivity; cbn [forallb] in H; apply andb_true_iff in H; destruct H as [Hv Hvs]; cbn [nth];
    [exact Hv | exact (IH k Hvs)].
Qed.

Theorem eval_wf : forall e, aexp_wf e = true -> forall env v, env_wf env = true -> eval natf e env = AVal v -> wf_val v = true.
Proof.
  induction e using aexp_ind'; intros Hw env v He Hv; cbn [aexp_wf] in Hw; cbn [eval] in Hv.
  - injection Hv as <-. apply lookup_wf, He.
  - destruct (eval natf e env) as [v0| |] eqn:E; try discriminate. injection Hv as <-.
    pose proof (IHe Hw env v0 He E) as H0. destruct v0; try reflexivity. cbn [field_of].
    rewrite wf_rec in H0. apply andb_true_iff in H0. destruct H0 as [_ H0]. apply lookup_wf. exact H0.
  - destruct (eval natf e env) as [v0| |] eqn:E; try discriminate. injection Hv as <-.
    pose proof (IHe Hw env v0 He E) as H0. destruct v0; try reflexivity. cbn [proj_of].
    rewrite wf_tuple in H0. apply nth_wf, H0.
  - destruct (eval_list (eval natf) args env) as [vs| |] eqn:E; cbn [of_lres] in Hv; try discriminate. injection Hv as <-.
    rewrite wf_con. apply (eval_list_wf (eval natf) args env); [|exact E].
    apply Forall_forall. intros a Ha v0 Hv0. rewrite Forall_forall in H. rewrite forallb_forall in Hw. exact (H a Ha (Hw a Ha) env v0 He Hv0).
  - apply andb_true_iff in Hw. destruct Hw as [Hnd Hw].
    destruct (eval_fields (eval natf) fields env) as [fs| |] eqn:E; try discriminate. injection Hv as <-.
    rewrite wf_rec.
    assert (HF : Forall (fun fa => forall v0, eval natf (snd fa) env = AVal v0 -> wf_val v0 = true) fields).
    { apply Forall_forall. intros fa Hfa v0 Hv0. rewrite Forall_forall in H. rewrite forallb_forall in Hw. exact (H fa Hfa (Hw fa Hfa) env v0 He Hv0). }
    destruct (eval_fields_wf (eval natf) fields env HF fs E) as [I1 I2]. rewrite I1, Hnd, I2. reflexivity.
  - destruct (eval_list (eval natf) es env) as [vs| |] eqn:E; cbn [of_lres] in Hv; try discriminate. injection Hv as <-.
    rewrite wf_tuple. apply (eval_list_wf (eval natf) es env); [|exact E].
    apply Forall_forall. intros a Ha v0 Hv0. rewrite Forall_forall in H. rewrite forallb_forall in Hw. exact (H a Ha (Hw a Ha) env v0 He Hv0).
  - destruct (eval_list (eval natf) es env) as [vs| |] eqn:E; cbn [of_lres] in Hv; try discriminate. injection Hv as <-.
    rewrite wf_list. apply (eval_list_wf (eval natf) es env); [|exact E].
    apply Forall_forall. intros a Ha v0 Hv0. rewrite Forall_forall in H. rewrite forallb_forall in Hw. exact (H a Ha (Hw a Ha) env v0 He Hv0).
  - injection Hv as <-. reflexivity.
  - injection Hv as <-. reflexivity.
  - injection Hv as <-. reflexivity.
  - destruct (eval natf e env) as [v0| |] eqn:E; try discriminate. injection Hv as <-. exact (IHe Hw env v0 He E).
  - injection Hv as <-. reflexivity.
  - apply andb_true_iff in Hw. destruct Hw as [Hb He2].
    destruct (eval natf e2 env) as [v0| |] eqn:E; try discriminate.
    pose proof (IHe2 He2 env v0 He E) as H0.
    destruct v0; try (injection Hv as <-; reflexivity).
    destruct (eval natf e1 ((x, v0) :: env)) as [v1| |] eqn:E1; try discriminate. injection Hv as <-.
    apply (IHe1 Hb ((x, v0) :: env) v1); [|exact E1]. cbn [env_wf forallb snd]. cbn [wf_val] in H0. rewrite H0. exact He.
  - destruct (eval natf e env) as [v0| |] eqn:E; try discriminate. destruct v0; injection Hv as <-; reflexivity.
  - destruct (eval natf e env) as [v0| |] eqn:E; try discriminate. pose proof (IHe Hw env v0 He E) as H0.
    destruct v0; try discriminate. injection Hv as <-. exact H0.
  - destruct (eval natf e env) as [v0| |] eqn:E; try discriminate. destruct v0; try discriminate.
    destruct (nth_error b (N.to_nat k)); try discriminate. injection Hv as <-. reflexivity.
  - destruct (eval natf e env) as [v0| |] eqn:E; try discriminate. destruct v0; try discriminate.
    destruct (k <=? nlen b)%N; try discriminate. injection Hv as <-. reflexivity.
  - destruct (eval_list (eval natf) args env) as [vs| |] eqn:E; cbn [of_lres] in Hv; try discriminate.
    apply (natf_wf n vs v); [|exact Hv]. apply (eval_list_wf (eval natf) args env); [|exact E].
    apply Forall_forall. intros a Ha v0 Hv0. rewrite Forall_forall in H. rewrite forallb_forall in Hw. exact (H a Ha (Hw a Ha) env v0 He Hv0).
Qed.

(* flat patterns: a variable, a wildcard, or a tuple of variables and wildcards *)
Definition pat_flat (p : pat) : bool :=
  match p with
  | PTuple ps => forallb (fun q => match q with PTuple _ => false | _ => true end) ps
  | _ => true
  end.

Lemma bind_flat_wf p v : pat_flat p = true -> wf_val v = true -> env_wf (bind p v []) = true.
Proof.
  intros Hp Hv. destruct p as [| x | ps]; cbn [bind].
  - reflexivity.
  - cbn [env_wf forallb snd]. rewrite Hv. reflexivity.
  - destruct v; try reflexivity. rewrite wf_tuple in Hv. cbn [pat_flat] in Hp.
    assert (G : forall ps l e, forallb (fun q => match q with PTuple _ => false | _ => true end) ps = true -> forallb wf_val l = true -> env_wf e = true ->
              env_wf ((fix bl (ps : list pat) (vs : list val) (e : venv) : venv :=
                         match ps, vs with p :: ps', v :: vs' => bl ps' vs' (bind p v e) | _, _ => e end) ps l e) = true).
    { induction ps0 as [|q ps0 IH]; intros l0 e Hq Hl He; [exact He|]. destruct l0 as [|v0 l0]; [exact He|].
      cbn [forallb] in Hq, Hl. apply andb_true_iff in Hq, Hl. destruct Hq as [Hq Hps]. destruct Hl as [Hv0 Hl].
      apply IH; [exact Hps | exact Hl |]. destruct q; try discriminate; cbn [bind]; [exact He|].
      cbn [env_wf forallb snd]. rewrite Hv0. exact He. }
    apply G; [exact Hp | exact Hv | reflexivity].
Qed.

Variable env : N -> option G.
Variable bound : nat.

Definition node_wf (g : G) : bool :=
  match g with
  | Map a _ | MapRes a _ => aexp_wf (a_body a) && pat_flat (a_pat a)
  | _ => true
  end.

Definition wf_res (r : res) : Prop := match r with ROk _ v _ => wf_val v = true | _ => True end.

Lemma leaf_wf l i : wf_res (leaf_run l i).
Proof.
  destruct l as [s|s|c|c|n c e|bits| |w]; cbn [leaf_run].
  - destruct (tag_scan eq_case s i); exact I || reflexivity.
  - destruct (tag_scan eq_nocase1 s i); exact I || reflexivity.
  - destruct (span c i) as [[x r]|]; exact I || reflexivity.
  - destruct (span c i) as [[[|b x] r]|]; exact I || reflexivity.
  - destruct (esc_scan n c e i); exact I || reflexivity.
  - unfold number_p. destruct (span nom_is_digit i) as [[[|d ds] r]|]; try exact I. destruct (_ <? _)%N; exact I || reflexivity.
  - unfold literal_p. destruct (tag_scan eq_case [123%N] i) as [t1 r1| |]; try exact I.
    unfold number_p. destruct (span nom_is_digit r1) as [[[|d ds] r2]|]; try exact I.
    destruct (_ <? _)%N; try exact I.
    destruct (tag_scan eq_case [125%N] r2) as [t3 r3| |]; try exact I.
    destruct (tag_scan eq_case [13%N; 10%N] r3) as [t4 r4| |]; try exact I.
    destruct (take_n _ r4) as [[data rest]|]; try exact I.
    match goal with |- context[forallb ?f data] => destruct (forallb f data) end; exact I || reflexivity.
  - exact I.
Qed.

Lemma seq_wf (self : G -> P) gs d : Forall (fun g => forall i, wf_res (self g d i)) gs ->
  forall i acc u0, forallb wf_val acc = true -> wf_res (seq_run self gs d i acc u0).
Proof.
  induction 1 as [|g gs Hg Hgs IH]; intros i acc u0 Hacc; cbn [seq_run].
  - cbn [wf_res]. rewrite wf_tuple. rewrite forallb_forall in *. intros x Hx. apply Hacc. apply in_rev. exact Hx.
  - specialize (Hg i). destruct (self g d i) as [r v u| | | | |]; try exact I. apply IH. cbn [forallb]. cbn [wf_res] in Hg. rewrite Hg, Hacc. reflexivity.
Qed.
Lemma alt_wf (self : G -> P) gs d : Forall (fun g => forall i, wf_res (self g d i)) gs -> forall i, wf_res (alt_run self gs d i).
Proof.
  induction 1 as [|g gs Hg Hgs IH]; intros i; cbn [alt_run]; [exact I|].
  specialize (Hg i). destruct (self g d i); try exact I; [exact Hg | apply IH].
Qed.
Lemma many_wf p : (forall i, wf_res (p i)) -> forall n i acc u0, forallb wf_val acc = true -> wf_res (many_loop p n i acc u0).
Proof.
  intros Hp n. induction n as [|n IHn]; intros i acc u0 Hacc; cbn [many_loop]; [exact I|].
  specialize (Hp i). destruct (p i) as [r v u| | | | |]; try exact I.
  - destruct (u =? 0)%N; [exact I|]. apply IHn. cbn [forallb]. cbn [wf_res] in Hp. rewrite Hp, Hacc. reflexivity.
  - cbn [wf_res]. rewrite wf_list. rewrite forallb_forall in *. intros x Hx. apply Hacc. apply in_rev. exact Hx.
Qed.
Lemma sep_wf s p : (forall i, wf_res (p i)) -> forall n i acc u0, forallb wf_val acc = true -> wf_res (sep_loop s p n i acc u0).
Proof.
  intros Hp n. induction n as [|n IHn]; intros i acc u0 Hacc; cbn [sep_loop]; [exact I|].
  assert (Hdone : wf_res (ROk i (VList (rev acc)) u0)).
  { cbn [wf_res]. rewrite wf_list. rewrite forallb_forall in *. intros x Hx. apply Hacc. apply in_rev. exact Hx. }
  destruct (s i) as [r1 v1 u1| | | | |]; try exact I; [|exact Hdone].
  destruct (u1 =? 0)%N; [exact I|]. pose proof (Hp r1) as Hpr.
  destruct (p r1) as [r2 v2 u2| | | | |]; try exact I; [|exact Hdone].
  apply IHn. cbn [forallb]. cbn [wf_res] in Hpr. rewrite Hpr, Hacc. reflexivity.
Qed.

Hypothesis env_wf_nodes : forall f g, env f = Some g -> all_nodes node_wf g = true.

Lemma act_wf a v v' : aexp_wf (a_body a) && pat_flat (a_pat a) = true -> wf_val v = true -> act natf a v = AVal v' -> wf_val v' = true.
Proof.
  intros H Hv Ha. apply andb_true_iff in H. destruct H as [H1 H2]. unfold act in Ha.
  apply (eval_wf (a_body a) H1 (bind (a_pat a) v []) v'); [apply bind_flat_wf; assumption | exact Ha].
Qed.

Lemma run_wf_nodes n : (forall f' g' d' i', env f' = Some g' -> wf_res (run natf env bound n g' d' i')) ->
  forall g, all_nodes node_wf g = true -> forall d i, wf_res (run natf env bound (S n) g d i).
Proof.
  intros Hcallee. induction g using G_ind'; intros Hg dp i; rewrite run_S; cbn [step];
    apply all_nodes_inv in Hg; destruct Hg as [Hhere Hsub].
  - apply leaf_wf.
  - destruct (env f) as [g'|] eqn:E; [|exact I]. eapply Hcallee; eauto.
  - destruct (Nat.leb m dp); [exact I|]. apply IHg; assumption.
  - apply seq_wf; [|reflexivity]. rewrite Forall_forall in *. intros g Hin j. apply H; auto.
  - apply alt_wf. rewrite Forall_forall in *. intros g Hin j. apply H; auto.
  - pose proof (IHg Hsub dp i) as Hr. destruct (run natf env bound (S n) g dp i); try exact I; [exact Hr | reflexivity].
  - pose proof (IHg Hsub dp i) as Hr. destruct (run natf env bound (S n) g dp i); try exact I; [exact Hr | reflexivity].
  - apply many_wf; [|reflexivity]. intros j. apply IHg; assumption.
  - pose proof (IHg Hsub dp i) as Hr. destruct (run natf env bound (S n) g dp i); try exact I.
    apply many_wf; [intros j; apply IHg; assumption|]. cbn [forallb]. cbn [wf_res] in Hr. rewrite Hr. reflexivity.
  - destruct Hsub as [Hs1 Hs2]. pose proof (IHg2 Hs2 dp i) as Hr.
    destruct (run natf env bound (S n) g2 dp i); try exact I; [|reflexivity].
    apply sep_wf; [intros j; apply IHg2; assumption|]. cbn [forallb]. cbn [wf_res] in Hr. rewrite Hr. reflexivity.
  - destruct Hsub as [Hs1 Hs2]. pose proof (IHg2 Hs2 dp i) as Hr.
    destruct (run natf env bound (S n) g2 dp i); try exact I.
    apply sep_wf; [intros j; apply IHg2; assumption|]. cbn [forallb]. cbn [wf_res] in Hr. rewrite Hr. reflexivity.
  - pose proof (IHg Hsub dp i) as Hr. destruct (run natf env bound (S n) g dp i); try exact I. reflexivity.
  - pose proof (IHg Hsub dp i) as Hr. destruct (run natf env bound (S n) g dp i) as [r1 v1 u1| | | | |]; try exact I.
    cbn [node_wf] in Hhere. destruct (act natf a v1) as [v'| |] eqn:Ea; try exact I. exact (act_wf a v1 v' Hhere Hr Ea).
  - pose proof (IHg Hsub dp i) as Hr. destruct (run natf env bound (S n) g dp i) as [r1 v1 u1| | | | |]; try exact I.
    cbn [node_wf] in Hhere. destruct (act natf a v1) as [v'| |] eqn:Ea; try exact I. exact (act_wf a v1 v' Hhere Hr Ea).
  - exact I.
Qed.

Theorem run_wf : forall n f g d i, env f = Some g -> wf_res (run natf env bound n g d i).
Proof.
  induction n as [|n IHn]; intros f g d i Hf; [rewrite run_0; exact I|].
  apply run_wf_nodes; [|exact (env_wf_nodes f g Hf)]. intros f' g' d' i' Hf'. eapply IHn; eauto.
Qed.
End Wf.
