(* Reflection on the regenerated text of `TlsClient::call` / `connect` and of the hooks the checks drive
   (gen/ClientTables.v).  The properties decided through the hook (C05, C06) stand on it. *)
From TI.gen Require Import ClientTables.
From Coq Require Import String List.
Import ListNotations.
(* the checks drive the client through the hook `Client::call_generic` over `Client::from_transport` (any transport)
   instead of `TlsClient::call` over `TlsClient::connect` (TLS only): the hook's body is `call`'s body token for token,
   and both build the same `Client { .. }` around `ImapCodec::default().framed(<transport>)` *)
Lemma hook_is_call_verbatim_lemma :
  gen_call_body = gen_call_generic_body /\ gen_connect_client = gen_hook_client /\
  gen_call_body <> "<missing>"%string /\ gen_connect_client <> [].
Proof. repeat split; try reflexivity; discriminate. Qed.
