(* M6 (part): hand model of tokio-imap/src/client.rs IdGenerator.
   next: u64, initial 0;  next(): self.next += 1; RequestId(format!("A{:04}", self.next % 10_000)).
   Definitions only. *)
From TI Require Import Bytes.

Definition U64_MAX : N := 18446744073709551615.

(* format!("{:04}", k): at least four digits, zero padded *)
Definition pad4 (k : N) : list byte :=
  if k <? 10000 then
    [digit_of (k / 10 / 10 / 10 mod 10); digit_of (k / 10 / 10 mod 10); digit_of (k / 10 mod 10); digit_of (k mod 10)]
  else to_dec k.

Definition tag_of (n : N) : list byte := 65 :: pad4 (n mod 10000).

(* One call of Iterator::next.  None = the u64 increment overflows (debug: panic, release: wrap);
   the theorems exclude it by hypothesis and say so. *)
Definition idgen_next (s : N) : option (N * list byte) :=
  if s <? U64_MAX then Some (s + 1, tag_of (s + 1)) else None.

Fixpoint idgen_run (k : nat) (s : N) : option (N * list (list byte)) :=
  match k with
  | O => Some (s, [])
  | S k' => match idgen_next s with
            | None => None
            | Some (s', t) => match idgen_run k' s' with
                              | None => None
                              | Some (s'', ts) => Some (s'', t :: ts)
                              end
            end
  end.

(* The tag class of RFC 3501 as the parser spells it (rfc3501/mod.rs is_tag_char, core.rs classes);
   tied to the generated classes by reflection in Properties/C11.v once gen/Classes.v exists. *)
Definition is_char (c : byte) : bool := (1 <=? c) && (c <=? 127).
Definition is_list_wildcards (c : byte) : bool := (c =? 37) || (c =? 42).
Definition is_quoted_specials (c : byte) : bool := (c =? 34) || (c =? 92).
Definition is_resp_specials (c : byte) : bool := c =? 93.
Definition is_atom_specials (c : byte) : bool :=
  (c =? 40) || (c =? 41) || (c =? 123) || (c =? 32) || (c <? 32)
  || is_list_wildcards c || is_quoted_specials c || is_resp_specials c.
Definition is_atom_char (c : byte) : bool := is_char c && negb (is_atom_specials c).
Definition is_astring_char (c : byte) : bool := is_atom_char c || is_resp_specials c.
Definition is_tag_char (c : byte) : bool := negb (c =? 43) && is_astring_char c.
