(* M9: the typed command builders (imap-proto/src/builders/command.rs) as a table-driven typestate machine.
   rs2coq regenerates the tables (gen/BuilderTables.v); this file holds the table language, its interpreter,
   the hand-written reference tables, and the specification side: requests, their RFC rendering, the RFC
   grammar as inductive relations, and an independent reader.  Definitions only. *)
From TI Require Import Bytes Builders DecFacts.
Local Open Scope string_scope.
Local Open Scope N_scope.
Local Open Scope list_scope.

(* ---------------------------------------------------------------- table language *)
Inductive piece :=
| PLit (b : string)                       (* extend(b"..") / push(b'.') / the literal parts of format! *)
| PDec (var comp : string)                (* <var>[.start|.end].to_string() *)
| PKw (table var : string)                (* match <var> { T::A => "KW", .. } *)
| PQuoted (var : string)                  (* quoted_string(<var>).unwrap() *)
| PUnknown (why : string).                (* a body the translator does not recognise *)

Record trans := mk_trans { t_ty : string; t_from : string; t_meth : string;
                           t_params : list (string * string); t_pieces : list piece; t_to : string }.
Record final := mk_final { f_ty : string; f_state : string; f_pieces : list piece; f_next : string }.
Record ctor := mk_ctor { c_name : string; c_params : list (string * string); c_pieces : list piece;
                         c_ty : string; c_state : string; c_next : string }.

Inductive carg := ANum (n : N) | ARange (a b : N) | ARangeFrom (a : N) | AKw (k : string) | AStr (s : list byte).

Fixpoint assoc {A} (k : string) (l : list (string * A)) : option A :=
  match l with [] => None | (k', v) :: l' => if String.eqb k k' then Some v else assoc k l' end.

Definition kwtables := list (string * list (string * string)).

Definition kw_lookup (kw : kwtables) (table k : string) : option string :=
  match assoc table kw with Some t => assoc k t | None => None end.

Definition eval_piece (kw : kwtables) (env : list (string * carg)) (p : piece) : option (list byte) :=
  match p with
  | PLit b => Some (bs b)
  | PDec var comp =>
    match assoc var env with
    | Some (ANum n) => if String.eqb comp "" then Some (to_dec n) else None
    | Some (ARange a b) => if String.eqb comp "start" then Some (to_dec a) else if String.eqb comp "end" then Some (to_dec b) else None
    | Some (ARangeFrom a) => if String.eqb comp "start" then Some (to_dec a) else None
    | _ => None
    end
  | PKw table var =>
    match assoc var env with
    | Some (AKw k) => match kw_lookup kw table k with Some s => Some (bs s) | None => None end
    | _ => None
    end
  | PQuoted var =>
    match assoc var env with
    | Some (AStr s) => match quoted_string s with QOk q => Some q | _ => None end
    | _ => None
    end
  | PUnknown _ => None
  end.

Fixpoint emit (kw : kwtables) (env : list (string * carg)) (ps : list piece) : option (list byte) :=
  match ps with
  | [] => Some []
  | p :: ps' =>
    match eval_piece kw env p, emit kw env ps' with
    | Some a, Some b => Some (a ++ b)
    | _, _ => None
    end
  end.

Fixpoint bind_params (ps : list (string * string)) (args : list carg) : option (list (string * carg)) :=
  match ps, args with
  | [], [] => Some []
  | (x, _) :: ps', a :: args' => match bind_params ps' args' with Some e => Some ((x, a) :: e) | None => None end
  | _, _ => None
  end.

Record machine := mk_machine { m_ctors : list ctor; m_trans : list trans; m_finals : list final; m_kw : kwtables }.

Fixpoint find_trans (ty st meth : string) (l : list trans) : option trans :=
  match l with
  | [] => None
  | t :: l' => if String.eqb ty (t_ty t) && String.eqb st (t_from t) && String.eqb meth (t_meth t) then Some t else find_trans ty st meth l'
  end.
Fixpoint find_final (ty st : string) (l : list final) : option final :=
  match l with
  | [] => None
  | f :: l' => if String.eqb ty (f_ty f) && String.eqb st (f_state f) then Some f else find_final ty st l'
  end.
Fixpoint find_ctor (name : string) (l : list ctor) : option ctor :=
  match l with [] => None | c :: l' => if String.eqb name (c_name c) then Some c else find_ctor name l' end.

(* a builder value: (type, typestate, bytes so far) *)
Definition bstate : Type := string * string * list byte.

Definition step_call (m : machine) (s : bstate) (call : string * list carg) : option bstate :=
  let '(ty, st, args) := s in
  match find_trans ty st (fst call) (m_trans m) with
  | Some t =>
    match bind_params (t_params t) (snd call) with
    | Some env => match emit (m_kw m) env (t_pieces t) with
                  | Some out => Some (ty, t_to t, args ++ out)
                  | None => None
                  end
    | None => None
    end
  | None => None                            (* the method is not offered in this typestate *)
  end.

Fixpoint run_calls (m : machine) (s : bstate) (calls : list (string * list carg)) : option bstate :=
  match calls with
  | [] => Some s
  | c :: cs => match step_call m s c with Some s' => run_calls m s' cs | None => None end
  end.

(* Command::from(..): close the command; (args, next_state) *)
Definition finish (m : machine) (s : bstate) : option (list byte * string) :=
  let '(ty, st, args) := s in
  match find_final ty st (m_finals m) with
  | Some f => match emit (m_kw m) [] (f_pieces f) with Some out => Some (args ++ out, f_next f) | None => None end
  | None => None
  end.

Definition start (m : machine) (name : string) (cargs : list carg) : option (bstate + (list byte * string)) :=
  match find_ctor name (m_ctors m) with
  | Some c =>
    match bind_params (c_params c) cargs with
    | Some env =>
      match emit (m_kw m) env (c_pieces c) with
      | Some out => if String.eqb (c_ty c) "Command" then Some (inr (out, c_next c)) else Some (inl (c_ty c, c_state c, out))
      | None => None
      end
    | None => None
    end
  | None => None
  end.

(* a whole chain: CommandBuilder::<name>(cargs) .m1(..) .m2(..) ... .into() *)
Definition run_chain (m : machine) (name : string) (cargs : list carg) (calls : list (string * list carg)) : option (list byte * string) :=
  match start m name cargs with
  | Some (inl s) => match run_calls m s calls with Some s' => finish m s' | None => None end
  | Some (inr r) => match calls with [] => Some r | _ => None end
  | None => None
  end.

(* ---------------------------------------------------------------- reference tables (hand-written) *)
Definition ref_kw : kwtables :=
  [("AttrMacro", [("AttrMacro::All", "ALL"); ("AttrMacro::Fast", "FAST"); ("AttrMacro::Full", "FULL")]);
   ("Attribute", [("Attribute::Body", "BODY"); ("Attribute::Envelope", "ENVELOPE"); ("Attribute::Flags", "FLAGS");
                  ("Attribute::InternalDate", "INTERNALDATE"); ("Attribute::ModSeq", "MODSEQ"); ("Attribute::Rfc822", "RFC822");
                  ("Attribute::Rfc822Size", "RFC822.SIZE"); ("Attribute::Rfc822Text", "RFC822.TEXT"); ("Attribute::Uid", "UID");
                  ("Attribute::GmailLabels", "X-GM-LABELS"); ("Attribute::GmailMsgId", "X-GM-MSGID")])].

Definition ref_ctors : list ctor :=
  [mk_ctor "check" [] [PLit "CHECK"] "Command" "" "None";
   mk_ctor "close" [] [PLit "CLOSE"] "Command" "" "Some(State::Authenticated)";
   mk_ctor "examine" [("mailbox", "&str")] [PLit "EXAMINE """; PQuoted "mailbox"; PLit """"] "SelectCommand" "NoParams" "";
   mk_ctor "fetch" [] [PLit "FETCH "] "FetchCommand" "Empty" "";
   mk_ctor "list" [("reference", "&str"); ("glob", "&str")]
           [PLit "LIST """; PQuoted "reference"; PLit """ """; PQuoted "glob"; PLit """"] "Command" "" "None";
   mk_ctor "login" [("user_name", "&str"); ("password", "&str")]
           [PLit "LOGIN """; PQuoted "user_name"; PLit """ """; PQuoted "password"; PLit """"] "Command" "" "Some(State::Authenticated)";
   mk_ctor "select" [("mailbox", "&str")] [PLit "SELECT """; PQuoted "mailbox"; PLit """"] "SelectCommand" "NoParams" "";
   mk_ctor "uid_fetch" [] [PLit "UID FETCH "] "FetchCommand" "Empty" ""].

Definition ref_trans : list trans :=
  [mk_trans "FetchCommand" "Attributes" "attr" [("attr", "Attribute")] [PLit " "; PKw "Attribute" "attr"] "Attributes";
   mk_trans "FetchCommand" "Attributes" "changed_since" [("seq", "u64")] [PLit ") (CHANGEDSINCE "; PDec "seq" ""; PLit ")"] "ChangedSince";
   mk_trans "FetchCommand" "Empty" "num" [("num", "u32")] [PDec "num" ""] "Messages";
   mk_trans "FetchCommand" "Empty" "range" [("range", "RangeInclusive<u32>")] [PDec "range" "start"; PLit ":"; PDec "range" "end"] "Messages";
   mk_trans "FetchCommand" "Empty" "range_from" [("range", "RangeFrom<u32>")] [PDec "range" "start"; PLit ":*"] "Messages";
   mk_trans "FetchCommand" "Messages" "attr" [("attr", "Attribute")] [PLit " ("; PKw "Attribute" "attr"] "Attributes";
   mk_trans "FetchCommand" "Messages" "attr_macro" [("named", "AttrMacro")] [PLit " "; PKw "AttrMacro" "named"] "Modifiers";
   mk_trans "FetchCommand" "Messages" "num" [("num", "u32")] [PLit ","; PDec "num" ""] "Messages";
   mk_trans "FetchCommand" "Messages" "range" [("range", "RangeInclusive<u32>")] [PLit ","; PDec "range" "start"; PLit ":"; PDec "range" "end"] "Messages";
   mk_trans "FetchCommand" "Messages" "range_from" [("range", "RangeFrom<u32>")] [PLit ","; PDec "range" "start"; PLit ":*"] "Messages";
   mk_trans "FetchCommand" "Modifiers" "changed_since" [("seq", "u64")] [PLit " (CHANGEDSINCE "; PDec "seq" ""; PLit ")"] "ChangedSince";
   mk_trans "SelectCommand" "NoParams" "cond_store" [] [PLit " (CONDSTORE"] "Params"].

Definition ref_finals : list final :=
  [mk_final "FetchCommand" "Attributes" [PLit ")"] "None";
   mk_final "FetchCommand" "ChangedSince" [] "None";
   mk_final "FetchCommand" "Modifiers" [] "None";
   mk_final "SelectCommand" "NoParams" [] "Some(State::Selected)";
   mk_final "SelectCommand" "Params" [PLit ")"] "Some(State::Selected)"].

Definition ref_machine : machine := mk_machine ref_ctors ref_trans ref_finals ref_kw.

(* ---------------------------------------------------------------- what was asked for: FETCH requests *)
Inductive set_item := SNum (n : N) | SRange (a b : N) | SFrom (a : N).
Inductive items := IMacro (m : string) | IAttrs (a : string) (more : list string).
Record fetch_req := mk_fetch_req { fr_uid : bool; fr_first : set_item; fr_more : list set_item; fr_items : items; fr_cs : option N }.

Inductive call := CNum (n : N) | CRange (a b : N) | CRangeFrom (a : N) | CAttr (a : string) | CMacro (m : string) | CChangedSince (n : N).

Definition generic (c : call) : string * list carg :=
  match c with
  | CNum n => ("num", [ANum n])
  | CRange a b => ("range", [ARange a b])
  | CRangeFrom a => ("range_from", [ARangeFrom a])
  | CAttr a => ("attr", [AKw a])
  | CMacro m => ("attr_macro", [AKw m])
  | CChangedSince n => ("changed_since", [ANum n])
  end.

(* the intended typestate machine, carrying the request assembled so far (lists in call order) *)
Inductive fstate :=
| FEmpty
| FMsgs (first : set_item) (more : list set_item)
| FAttrs (first : set_item) (more : list set_item) (a : string) (attrs : list string)
| FMods (first : set_item) (more : list set_item) (m : string)
| FCS (first : set_item) (more : list set_item) (it : items) (cs : N).

Definition known (table k : string) : bool :=
  match kw_lookup ref_kw table k with Some _ => true | None => false end.

Definition astep (s : fstate) (c : call) : option fstate :=
  match s, c with
  | FEmpty, CNum n => Some (FMsgs (SNum n) [])
  | FEmpty, CRange a b => Some (FMsgs (SRange a b) [])
  | FEmpty, CRangeFrom a => Some (FMsgs (SFrom a) [])
  | FMsgs f more, CNum n => Some (FMsgs f (more ++ [SNum n]))
  | FMsgs f more, CRange a b => Some (FMsgs f (more ++ [SRange a b]))
  | FMsgs f more, CRangeFrom a => Some (FMsgs f (more ++ [SFrom a]))
  | FMsgs f more, CMacro m => if known "AttrMacro" m then Some (FMods f more m) else None
  | FMsgs f more, CAttr a => if known "Attribute" a then Some (FAttrs f more a []) else None
  | FAttrs f more a attrs, CAttr b => if known "Attribute" b then Some (FAttrs f more a (attrs ++ [b])) else None
  | FAttrs f more a attrs, CChangedSince n => Some (FCS f more (IAttrs a attrs) n)
  | FMods f more m, CChangedSince n => Some (FCS f more (IMacro m) n)
  | _, _ => None
  end.

Fixpoint asteps (s : fstate) (cs : list call) : option fstate :=
  match cs with [] => Some s | c :: cs' => match astep s c with Some s' => asteps s' cs' | None => None end end.

Definition afinish (uid : bool) (s : fstate) : option fetch_req :=
  match s with
  | FAttrs f more a attrs => Some (mk_fetch_req uid f more (IAttrs a attrs) None)
  | FMods f more m => Some (mk_fetch_req uid f more (IMacro m) None)
  | FCS f more it n => Some (mk_fetch_req uid f more it (Some n))
  | _ => None
  end.

(* what a chain of calls asks for: None when the typestates do not admit the chain *)
Definition denote (uid : bool) (cs : list call) : option fetch_req :=
  match asteps FEmpty cs with Some s => afinish uid s | None => None end.

(* ---------------------------------------------------------------- RFC rendering of a request *)
Definition kw_of (table k : string) : list byte :=
  match kw_lookup ref_kw table k with Some s => bs s | None => [] end.

Definition render_item (i : set_item) : list byte :=
  match i with
  | SNum n => to_dec n
  | SRange a b => to_dec a ++ [58] ++ to_dec b
  | SFrom a => to_dec a ++ [58; 42]
  end.
Fixpoint render_more (l : list set_item) : list byte :=
  match l with [] => [] | i :: l' => [44] ++ render_item i ++ render_more l' end.
Fixpoint render_attrs (l : list string) : list byte :=
  match l with [] => [] | a :: l' => [32] ++ kw_of "Attribute" a ++ render_attrs l' end.
Definition render_items (i : items) : list byte :=
  match i with
  | IMacro m => kw_of "AttrMacro" m
  | IAttrs a more => [40] ++ kw_of "Attribute" a ++ render_attrs more ++ [41]
  end.
Definition render_cs (c : option N) : list byte :=
  match c with None => [] | Some n => bs " (CHANGEDSINCE " ++ to_dec n ++ [41] end.
Definition verb (uid : bool) : list byte := if uid then bs "UID FETCH " else bs "FETCH ".
Definition render_fetch (r : fetch_req) : list byte :=
  verb (fr_uid r) ++ render_item (fr_first r) ++ render_more (fr_more r) ++ [32] ++ render_items (fr_items r) ++ render_cs (fr_cs r).

(* bytes held by a builder value in each typestate *)
Definition render_state (uid : bool) (s : fstate) : list byte :=
  match s with
  | FEmpty => verb uid
  | FMsgs f more => verb uid ++ render_item f ++ render_more more
  | FAttrs f more a attrs => verb uid ++ render_item f ++ render_more more ++ [32; 40] ++ kw_of "Attribute" a ++ render_attrs attrs
  | FMods f more m => verb uid ++ render_item f ++ render_more more ++ [32] ++ kw_of "AttrMacro" m
  | FCS f more it n => verb uid ++ render_item f ++ render_more more ++ [32] ++ render_items it ++ render_cs (Some n)
  end.
Definition state_name (s : fstate) : string :=
  match s with FEmpty => "Empty" | FMsgs _ _ => "Messages" | FAttrs _ _ _ _ => "Attributes" | FMods _ _ _ => "Modifiers" | FCS _ _ _ _ => "ChangedSince" end.

(* ---------------------------------------------------------------- the RFC grammar, as relations on byte strings
   RFC 3501 section 9 (fetch, sequence-set, fetch-att), RFC 4466 (fetch-modifiers), RFC 4551 (CHANGEDSINCE, MODSEQ),
   plus the two Gmail data items the library offers (X-GM-LABELS, X-GM-MSGID: not in any RFC, listed as an extension). *)

Inductive nz_number : list byte -> Prop :=
| nz_intro d ds : is_digit_nz d = true -> forallb is_digit ds = true -> nz_number (d :: ds).
Inductive digits1 : list byte -> Prop :=
| digits1_intro d ds : is_digit d = true -> forallb is_digit ds = true -> digits1 (d :: ds).
Inductive seq_number : list byte -> Prop :=
| sn_nz s : nz_number s -> seq_number s
| sn_star : seq_number [42].
Inductive seq_elem : list byte -> Prop :=
| se_one s : seq_number s -> seq_elem s
| se_range a b : seq_number a -> seq_number b -> seq_elem (a ++ [58] ++ b).
Inductive sequence_set : list byte -> Prop :=
| ss_one e : seq_elem e -> sequence_set e
| ss_cons e s : seq_elem e -> sequence_set s -> sequence_set (e ++ [44] ++ s).

(* fetch-att without the section forms (the builder offers none of them) *)
Definition rfc_fetch_att : list string :=
  ["ENVELOPE"; "FLAGS"; "INTERNALDATE"; "RFC822"; "RFC822.HEADER"; "RFC822.SIZE"; "RFC822.TEXT"; "BODY"; "BODYSTRUCTURE"; "UID";
   "MODSEQ";                                (* RFC 4551 fetch-att =/ "MODSEQ" *)
   "X-GM-LABELS"; "X-GM-MSGID"; "X-GM-THRID"]. (* Gmail extension *)
Inductive fetch_att : list byte -> Prop :=
| fa_intro s : In s rfc_fetch_att -> fetch_att (bs s).
Inductive fetch_att_list : list byte -> Prop :=
| fal_one a : fetch_att a -> fetch_att_list a
| fal_cons a l : fetch_att a -> fetch_att_list l -> fetch_att_list (a ++ [32] ++ l).
Inductive fetch_what : list byte -> Prop :=
| fw_all : fetch_what (bs "ALL") | fw_full : fetch_what (bs "FULL") | fw_fast : fetch_what (bs "FAST")
| fw_att a : fetch_att a -> fetch_what a
| fw_list l : fetch_att_list l -> fetch_what ([40] ++ l ++ [41]).
Inductive fetch_modifier : list byte -> Prop :=
| fm_cs v : digits1 v -> fetch_modifier (bs "CHANGEDSINCE " ++ v).
Inductive fetch_modifiers : list byte -> Prop :=   (* "(" fetch-modifier *(SP fetch-modifier) ")"; one modifier is all the builder emits *)
| fms_one m : fetch_modifier m -> fetch_modifiers ([40] ++ m ++ [41]).
Inductive fetch_cmd : list byte -> Prop :=
| fc_plain s w : sequence_set s -> fetch_what w -> fetch_cmd (bs "FETCH " ++ s ++ [32] ++ w)
| fc_mod s w m : sequence_set s -> fetch_what w -> fetch_modifiers m -> fetch_cmd (bs "FETCH " ++ s ++ [32] ++ w ++ [32] ++ m).
Inductive uid_or_fetch_cmd : list byte -> Prop :=
| uf_plain c : fetch_cmd c -> uid_or_fetch_cmd c
| uf_uid c : fetch_cmd c -> uid_or_fetch_cmd (bs "UID " ++ c).

(* well-formed requests: message numbers are nz-numbers, names are the library's *)
Definition item_ok (i : set_item) : bool :=
  match i with SNum n => 0 <? n | SRange a b => (0 <? a) && (0 <? b) | SFrom a => 0 <? a end.
Definition req_ok (r : fetch_req) : bool :=
  item_ok (fr_first r) && forallb item_ok (fr_more r) &&
  match fr_items r with
  | IMacro m => known "AttrMacro" m
  | IAttrs a more => known "Attribute" a && forallb (known "Attribute") more
  end.

(* ---------------------------------------------------------------- an independent reader of FETCH commands *)
Fixpoint span_digits (l : list byte) : list byte * list byte :=
  match l with
  | b :: l' => if is_digit b then let (ds, r) := span_digits l' in (b :: ds, r) else ([], l)
  | [] => ([], [])
  end.
Definition read_number (l : list byte) : option (N * list byte) :=
  match span_digits l with
  | ([], _) => None
  | (ds, r) => Some (dec ds, r)
  end.

Definition read_item (l : list byte) : option (set_item * list byte) :=
  match read_number l with
  | Some (a, c1 :: r1) =>
    if c1 =? 58 then
      match r1 with
      | c2 :: r2 => if c2 =? 42 then Some (SFrom a, r2)
                    else match read_number r1 with Some (b, r') => Some (SRange a b, r') | None => None end
      | [] => None
      end
    else Some (SNum a, c1 :: r1)
  | Some (a, []) => Some (SNum a, [])
  | None => None
  end.

Fixpoint read_more (fuel : nat) (l : list byte) : option (list set_item * list byte) :=
  match fuel with
  | O => None
  | S f =>
    match l with
    | c :: r => if c =? 44 then
                  match read_item r with
                  | Some (i, r') => match read_more f r' with Some (is, r'') => Some (i :: is, r'') | None => None end
                  | None => None
                  end
                else Some ([], l)
    | [] => Some ([], l)
    end
  end.

(* a keyword: up to SP or ")" or the end *)
Fixpoint span_word (l : list byte) : list byte * list byte :=
  match l with
  | b :: l' => if (b =? 32) || (b =? 41) then ([], l) else let (w, r) := span_word l' in (b :: w, r)
  | [] => ([], [])
  end.

Fixpoint name_of_kw (t : list (string * string)) (w : list byte) : option string :=
  match t with
  | [] => None
  | (k, s) :: t' => if bytes_eqb (bs s) w then Some k else name_of_kw t' w
  end.
Definition read_kw (table : string) (l : list byte) : option (string * list byte) :=
  let (w, r) := span_word l in
  match assoc table ref_kw with
  | Some t => match name_of_kw t w with Some k => Some (k, r) | None => None end
  | None => None
  end.

Fixpoint read_attrs (fuel : nat) (l : list byte) : option (list string * list byte) :=
  match fuel with
  | O => None
  | S f =>
    match l with
    | c :: r => if c =? 32 then
                  match read_kw "Attribute" r with
                  | Some (a, r') => match read_attrs f r' with Some (as_, r'') => Some (a :: as_, r'') | None => None end
                  | None => None
                  end
                else if c =? 41 then Some ([], r) else None
    | [] => None
    end
  end.

Definition read_items (l : list byte) : option (items * list byte) :=
  match l with
  | c :: r =>
    if c =? 40 then
      match read_kw "Attribute" r with
      | Some (a, r') => match read_attrs (S (List.length r')) r' with Some (more, r'') => Some (IAttrs a more, r'') | None => None end
      | None => None
      end
    else match read_kw "AttrMacro" l with Some (m, r) => Some (IMacro m, r) | None => None end
  | [] => None
  end.

Fixpoint strip (p l : list byte) : option (list byte) :=
  match p, l with
  | [], _ => Some l
  | x :: p', y :: l' => if x =? y then strip p' l' else None
  | _, [] => None
  end.

Definition read_cs (l : list byte) : option (option N) :=
  match l with
  | [] => Some None
  | _ => match strip (bs " (CHANGEDSINCE ") l with
         | Some r => match read_number r with
                     | Some (n, [c]) => if c =? 41 then Some (Some n) else None
                     | _ => None
                     end
         | None => None
         end
  end.

Definition read_fetch (l : list byte) : option fetch_req :=
  let '(uid, l1) := match strip (bs "UID ") l with Some r => (true, r) | None => (false, l) end in
  match strip (bs "FETCH ") l1 with
  | Some l2 =>
    match read_item l2 with
    | Some (f, l3) =>
      match read_more (S (List.length l3)) l3 with
      | Some (more, c :: l4) =>
        if c =? 32 then
          match read_items l4 with
          | Some (it, l5) => match read_cs l5 with Some cs => Some (mk_fetch_req uid f more it cs) | None => None end
          | None => None
          end
        else None
      | _ => None
      end
    | None => None
    end
  | None => None
  end.

(* ---------------------------------------------------------------- SELECT / EXAMINE and the simple commands *)
(* RFC 3501: select = "SELECT" SP mailbox; RFC 4466: select = "SELECT" SP mailbox [SP "(" select-param *(SP select-param) ")"];
   RFC 4551: select-param =/ "CONDSTORE".  mailbox = astring; the builder always writes a quoted string. *)
Definition is_text_char (b : byte) : bool := (1 <=? b) && (b <=? 127) && negb (b =? 13) && negb (b =? 10).
Inductive quoted_body : list byte -> Prop :=
| qb_nil : quoted_body []
| qb_plain c r : is_text_char c = true -> is_qspecial c = false -> quoted_body r -> quoted_body (c :: r)
| qb_esc c r : is_qspecial c = true -> quoted_body r -> quoted_body (92 :: c :: r).
Inductive quoted : list byte -> Prop :=
| q_intro b : quoted_body b -> quoted ([34] ++ b ++ [34]).
Inductive select_cmd : list byte -> Prop :=
| sel_plain v mb : v = bs "SELECT" \/ v = bs "EXAMINE" -> quoted mb -> select_cmd (v ++ [32] ++ mb)
| sel_param v mb : v = bs "SELECT" \/ v = bs "EXAMINE" -> quoted mb -> select_cmd (v ++ [32] ++ mb ++ bs " (CONDSTORE)").
Inductive two_string_cmd (v : list byte) : list byte -> Prop :=
| ts_intro a b : quoted a -> quoted b -> two_string_cmd v (v ++ [32] ++ a ++ [32] ++ b).
