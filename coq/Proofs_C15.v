(* C15 instance: the table generated from types.rs / types/acls.rs passes the computable check. *)
From TI Require Import Bytes Grammar Interp Owned OwnedProofs Natives OwnedRun Proofs_Wf.
From TI.gen Require Import Tables PanicSites.

Lemma table_ok_gen : table_ok gen_into_owned gen_own_helpers = true.
Proof. vm_compute. reflexivity. Qed.

Lemma covered_gen : covered gen_types gen_into_owned = true.
Proof. vm_compute. reflexivity. Qed.

Lemma no_problems_gen : gen_own_problems = [].
Proof. reflexivity. Qed.

(* no `unsafe` anywhere in imap-proto: an owned ('static) value cannot borrow from the parsed buffer *)
Definition proto_unsafe_sites : list (string * string * string * N) :=
  filter (fun s => let '(file, _, kind, _) := s in
                   String.eqb kind "unsafe" && prefix "imap-proto/" file) gen_panic_sites.
Lemma no_unsafe_in_proto : proto_unsafe_sites = [].
Proof. vm_compute. reflexivity. Qed.

Lemma into_owned_identity_gen : forall fuel v, wf_val v = true ->
  into_owned_val fuel gen_into_owned gen_own_helpers v = v.
Proof. exact (into_owned_identity gen_into_owned gen_own_helpers table_ok_gen). Qed.

Lemma owned_parse_identity : forall i rest v used,
  parse i = ROk rest v used -> wf_val v = true -> fst (owned_parse i) = ROk rest v used.
Proof.
  intros i rest v used Hp Hw. unfold owned_parse. rewrite Hp. cbn [fst]. f_equal.
  unfold into_owned. apply into_owned_identity_gen. exact Hw.
Qed.

(* ... and every parsed value is well-formed (Thm_Wf / Proofs_Wf), so for parsed values there is no side condition *)
Lemma owned_parse_identity_all : forall i rest v used,
  parse i = ROk rest v used -> owned_parse i = (ROk rest v used, true).
Proof.
  intros i rest v used Hp. pose proof (parse_wf i rest v used Hp) as Hw.
  unfold owned_parse. rewrite Hp, Hw. f_equal. f_equal. unfold into_owned. apply into_owned_identity_gen. exact Hw.
Qed.

(* non-vacuity: a parsed FETCH with an envelope and a body structure is well-formed and has rows at several levels *)
Definition c15_sample : list byte :=
  bs "* 1 FETCH (ENVELOPE (""d"" ""s"" ((""n"" NIL ""m"" ""h"")) NIL ((""r"" NIL ""m"" ""h"")) NIL NIL NIL ""i"" ""<id>"") BODYSTRUCTURE (""TEXT"" ""PLAIN"" (""a"" ""b"") NIL NIL ""7BIT"" 1 2 ""md"" (""inline"" (""k"" ""v"")) ""en"" ""loc""))" ++ [13; 10].
Lemma c15_sample_ok :
  match owned_parse c15_sample with
  | (ROk rest v _, wf) => rest = [] /\ wf = true /\ fst (owned_parse c15_sample) = parse c15_sample /\
                          match v with VCon name [_; VList (_ :: _ :: _)] => name = "Response::Fetch"%string | _ => False end
  | _ => False
  end.
Proof. vm_compute. repeat split. Qed.
