(* Facts about the canonical decimal rendering to_dec (u32/u64::to_string) and its inverse dec. *)
From TI Require Import Bytes.
From Coq Require Import ZArith Lia.
Ltac Zify.zify_post_hook ::= Z.div_mod_to_equations.
Local Open Scope N_scope.

Definition is_digit_nz (b : byte) : bool := (49 <=? b) && (b <=? 57).

Lemma dec_snoc ds d : dec (ds ++ [d]) = dec ds * 10 + (d - 48).
Proof. unfold dec. rewrite fold_left_app. reflexivity. Qed.

Lemma to_dec_aux_acc : forall fuel n acc, to_dec_aux fuel n acc = to_dec_aux fuel n [] ++ acc.
Proof.
  induction fuel as [|f IH]; intros n acc; [reflexivity|].
  cbn [to_dec_aux]. destruct (n / 10 =? 0).
  - reflexivity.
  - rewrite IH, (IH _ [digit_of (n mod 10)]). rewrite <- app_assoc. reflexivity.
Qed.

Lemma to_dec_aux_unfold f n :
  to_dec_aux (S f) n [] = (if n / 10 =? 0 then [] else to_dec_aux f (n / 10) []) ++ [digit_of (n mod 10)].
Proof.
  cbn [to_dec_aux]. destruct (n / 10 =? 0); [reflexivity|]. apply to_dec_aux_acc.
Qed.

Lemma digit_of_is_digit k : k < 10 -> is_digit (digit_of k) = true.
Proof. intro H. unfold is_digit, digit_of. apply andb_true_iff. split; apply N.leb_le; lia. Qed.

Lemma digit_of_nz k : 0 < k -> k < 10 -> is_digit_nz (digit_of k) = true.
Proof. intros H0 H. unfold is_digit_nz, digit_of. apply andb_true_iff. split; apply N.leb_le; lia. Qed.

Lemma nz_is_digit b : is_digit_nz b = true -> is_digit b = true.
Proof.
  unfold is_digit_nz, is_digit. intro H. apply andb_true_iff in H. destruct H as [A B].
  apply N.leb_le in A. apply andb_true_iff. split; [apply N.leb_le; lia | exact B].
Qed.

Lemma half_fuel f n : n < 2 ^ N.of_nat (S f) -> n / 10 < 2 ^ N.of_nat f.
Proof.
  intro H. replace (N.of_nat (S f)) with (N.succ (N.of_nat f)) in H by lia. rewrite N.pow_succ_r' in H.
  assert (n / 10 <= n / 2).
  { pose proof (N.div_mod n 10 ltac:(lia)). pose proof (N.div_mod n 2 ltac:(lia)).
    pose proof (N.mod_lt n 10 ltac:(lia)). pose proof (N.mod_lt n 2 ltac:(lia)). lia. }
  assert (n / 2 < 2 ^ N.of_nat f) by (apply N.div_lt_upper_bound; lia). lia.
Qed.

Lemma to_dec_aux_spec : forall f n, n < 2 ^ N.of_nat f ->
  forallb is_digit (to_dec_aux f n []) = true /\ dec (to_dec_aux f n []) = n.
Proof.
  induction f as [|f IH]; intros n Hn.
  - cbn in Hn. assert (n = 0) by lia. subst n. split; reflexivity.
  - rewrite to_dec_aux_unfold.
    pose proof (N.div_mod n 10 ltac:(lia)) as Hdm. pose proof (N.mod_lt n 10 ltac:(lia)) as Hlt.
    destruct (n / 10 =? 0) eqn:E.
    + apply N.eqb_eq in E. cbn [app]. split.
      * cbn [forallb]. rewrite digit_of_is_digit by exact Hlt. reflexivity.
      * unfold dec. cbn [fold_left]. unfold dec_step, digit_of. lia.
    + destruct (IH (n / 10) (half_fuel f n Hn)) as [Hd Hv]. split.
      * rewrite forallb_app, Hd. cbn [forallb]. rewrite digit_of_is_digit by exact Hlt. reflexivity.
      * rewrite dec_snoc, Hv. unfold digit_of. lia.
Qed.

Lemma to_dec_aux_head : forall f n, n < 2 ^ N.of_nat f -> 0 < n ->
  exists d ds, to_dec_aux f n [] = d :: ds /\ is_digit_nz d = true /\ forallb is_digit ds = true.
Proof.
  induction f as [|f IH]; intros n Hn Hpos.
  - cbn in Hn. lia.
  - rewrite to_dec_aux_unfold.
    pose proof (N.div_mod n 10 ltac:(lia)) as Hdm. pose proof (N.mod_lt n 10 ltac:(lia)) as Hlt.
    destruct (n / 10 =? 0) eqn:E.
    + apply N.eqb_eq in E. exists (digit_of (n mod 10)), []. cbn [app]. split; [reflexivity|]. split; [|reflexivity].
      apply digit_of_nz; lia.
    + apply N.eqb_neq in E. destruct (IH (n / 10) (half_fuel f n Hn) ltac:(lia)) as (d & ds & Heq & Hd & Hds).
      exists d, (ds ++ [digit_of (n mod 10)]). rewrite Heq. split; [reflexivity|]. split; [exact Hd|].
      rewrite forallb_app, Hds. cbn [forallb]. rewrite digit_of_is_digit by exact Hlt. reflexivity.
Qed.

Lemma to_dec_fuel n : n < 2 ^ N.of_nat (S (N.to_nat (N.log2 n))).
Proof.
  replace (N.of_nat (S (N.to_nat (N.log2 n)))) with (N.succ (N.log2 n)) by lia.
  destruct n as [|p]; [cbn; lia|]. apply N.log2_spec. lia.
Qed.

Lemma to_dec_digits n : forallb is_digit (to_dec n) = true.
Proof. exact (proj1 (to_dec_aux_spec _ n (to_dec_fuel n))). Qed.
Lemma dec_to_dec n : dec (to_dec n) = n.
Proof. exact (proj2 (to_dec_aux_spec _ n (to_dec_fuel n))). Qed.
Lemma to_dec_nonempty n : exists d ds, to_dec n = d :: ds /\ is_digit d = true /\ forallb is_digit ds = true.
Proof.
  unfold to_dec. rewrite to_dec_aux_unfold. pose proof (to_dec_digits n) as H. unfold to_dec in H. rewrite to_dec_aux_unfold in H.
  destruct ((if n / 10 =? 0 then [] else to_dec_aux (N.to_nat (N.log2 n)) (n / 10) []) ++ [digit_of (n mod 10)]) as [|d ds] eqn:E.
  - destruct (if n / 10 =? 0 then [] else _); discriminate.
  - exists d, ds. cbn [forallb] in H. apply andb_true_iff in H. destruct H. repeat split; assumption.
Qed.
Lemma to_dec_nz n : 0 < n -> exists d ds, to_dec n = d :: ds /\ is_digit_nz d = true /\ forallb is_digit ds = true.
Proof. intro H. exact (to_dec_aux_head _ n (to_dec_fuel n) H). Qed.
