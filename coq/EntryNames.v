(* RFC 5464 entry names: the names of section 3.2 (/shared/admin..., /private|/shared /comment..., /vendor/<name>...)
   written as an inductive language, and the proof that the modelled checker (Natives.check_entry_name, the loop of
   rfc5464.rs with its stages) accepts every one of them unchanged. *)
From TI Require Import Bytes Grammar Nom Interp Natives.
From TI.gen Require Import ImapGrammar.
From Coq Require Import Lia Arith PeanoNat.
Local Open Scope N_scope.

Notation comp := cls_rfc5464_x_is_entry_component_char.

(* *( "/" *component-char ) *)
Inductive rfc_path : list byte -> Prop :=
| path_nil : rfc_path []
| path_seg c r : forallb comp c = true -> rfc_path r -> rfc_path ([47] ++ c ++ r).

Inductive rfc_entry : list byte -> Prop :=
| entry_shared_admin p : rfc_path p -> rfc_entry (bs "/shared/admin" ++ p)
| entry_private_comment p : rfc_path p -> rfc_entry (bs "/private/comment" ++ p)
| entry_shared_comment p : rfc_path p -> rfc_entry (bs "/shared/comment" ++ p)
| entry_private_vendor c0 c p : comp c0 = true -> forallb comp c = true -> rfc_path p -> rfc_entry (bs "/private/vendor/" ++ (c0 :: c) ++ p)
| entry_shared_vendor c0 c p : comp c0 = true -> forallb comp c = true -> rfc_path p -> rfc_entry (bs "/shared/vendor/" ++ (c0 :: c) ++ p).

Lemma check_loop_done f i l : check_loop f i (StDone l) = StDone l.
Proof. destruct f; reflexivity. Qed.

Lemma scan_seg : forall c rest pos len, forallb comp c = true ->
  check_path_scan (c ++ rest) pos len = check_path_scan rest (pos + length c)%nat len.
Proof.
  induction c as [|x c IH]; intros rest pos len H; cbn [app length].
  - rewrite Nat.add_0_r. reflexivity.
  - cbn [forallb] in H. apply andb_true_iff in H. destruct H as [Hx Hc]. cbn [check_path_scan]. rewrite Hx. cbn [negb].
    rewrite (IH rest (S pos) len Hc). f_equal. lia.
Qed.

Lemma rfc_path_head r : rfc_path r -> r = [] \/ exists t, r = 47 :: t.
Proof. intros [| c r0 _ _]; [left; reflexivity | right; eexists; reflexivity]. Qed.

Lemma nth_error_app_len {A} (pre : list A) x t : nth_error (pre ++ x :: t) (length pre) = Some x.
Proof. induction pre as [|a pre IH]; [reflexivity | exact IH]. Qed.

Lemma skipn_app_len {A} (pre t : list A) : skipn (length pre) (pre ++ t) = t.
Proof. induction pre as [|a pre IH]; [reflexivity | exact IH]. Qed.

Lemma skipn_app_len_S {A} (pre : list A) x t : skipn (S (length pre)) (pre ++ x :: t) = t.
Proof. induction pre as [|a pre IH]; [reflexivity | exact IH]. Qed.

Lemma check_path_end pre : check_path pre (length pre) = StDone (length pre).
Proof. unfold check_path. rewrite Nat.eqb_refl. reflexivity. Qed.

Lemma check_path_seg pre c r : forallb comp c = true -> rfc_path r ->
  check_path (pre ++ [47] ++ c ++ r) (length pre) =
  match r with [] => StDone (length (pre ++ [47] ++ c ++ r)) | _ => StPath (length (pre ++ [47] ++ c)) end.
Proof.
  intros Hc Hr. unfold check_path.
  assert (Hlen : Nat.eqb (length (pre ++ [47] ++ c ++ r)) (length pre) = false).
  { apply Nat.eqb_neq. rewrite !app_length. cbn [length]. lia. }
  change byte with N in *. rewrite Hlen. cbn [app]. rewrite nth_error_app_len. cbn [N.eqb orb negb Pos.eqb].
  rewrite skipn_app_len_S. rewrite (scan_seg c r _ _ Hc).
  destruct (rfc_path_head r Hr) as [-> | (t & ->)].
  - cbn [check_path_scan]. reflexivity.
  - cbn [check_path_scan]. change (comp 47) with false. cbn [negb]. f_equal. rewrite !app_length. cbn [length]. unfold byte in *. lia.
Qed.

Lemma path_loop : forall p, rfc_path p -> forall pre fuel, (length p < fuel)%nat ->
  check_loop fuel (pre ++ p) (StPath (length pre)) = StDone (length (pre ++ p)).
Proof.
  intros p Hp. induction Hp as [| c r Hc Hr IH]; intros pre fuel Hf.
  - destruct fuel as [|f]; [lia|]. cbn [check_loop]. rewrite app_nil_r. pose proof (check_path_end pre) as E. change byte with N in *. rewrite E. apply check_loop_done.
  - destruct fuel as [|f]; [lia|]. cbn [check_loop]. pose proof (check_path_seg pre c r Hc Hr) as E. change byte with N in *. rewrite E. clear E.
    destruct r as [|x r'].
    + apply check_loop_done.
    + replace (pre ++ [47] ++ c ++ x :: r') with ((pre ++ [47] ++ c) ++ x :: r') by (rewrite <- !app_assoc; reflexivity).
      apply IH. rewrite !app_length in Hf. cbn [length] in Hf |- *. lia.
Qed.

Lemma check_loop_from_path pre p fuel : rfc_path p -> (length p < fuel)%nat ->
  check_loop fuel (pre ++ p) (StPath (length pre)) = StDone (length (pre ++ p)).
Proof. intros Hp Hf. exact (path_loop p Hp pre fuel Hf). Qed.

Lemma check_loop_from_path' pre p fuel l : rfc_path p -> l = length pre -> (length p < fuel)%nat ->
  check_loop fuel (pre ++ p) (StPath l) = StDone (length (pre ++ p)).
Proof. intros Hp -> Hf. exact (path_loop p Hp pre fuel Hf). Qed.

Ltac refold_path :=
  try match goal with |- check_loop ?F ?i (check_path ?i ?l) = ?r => change (check_loop (S F) i (StPath l) = r) end.

(* the stages before the path, on the concrete prefixes *)
Lemma s1_ps p : check_private_shared (bs "/shared/admin" ++ p) = StAdmin 7. Proof. vm_compute. reflexivity. Qed.
Lemma s1_ad p : check_admin (bs "/shared/admin" ++ p) 7 = StPath 13. Proof. vm_compute. reflexivity. Qed.
Lemma s2_ps p : check_private_shared (bs "/private/comment" ++ p) = StVendorComment 8. Proof. vm_compute. reflexivity. Qed.
Lemma s2_vc p : check_vendor_comment (bs "/private/comment" ++ p) 8 = StPath 16. Proof. vm_compute. reflexivity. Qed.
Lemma s3_ps p : check_private_shared (bs "/shared/comment" ++ p) = StAdmin 7. Proof. vm_compute. reflexivity. Qed.
Lemma s3_ad p : check_admin (bs "/shared/comment" ++ p) 7 = StVendorComment 7. Proof. vm_compute. reflexivity. Qed.
Lemma s3_vc p : check_vendor_comment (bs "/shared/comment" ++ p) 7 = StPath 15. Proof. vm_compute. reflexivity. Qed.
Lemma s4_ps t : check_private_shared (bs "/private/vendor/" ++ t) = StVendorComment 8. Proof. vm_compute. reflexivity. Qed.
Lemma s4_vc c0 t : comp c0 = true -> check_vendor_comment (bs "/private/vendor/" ++ c0 :: t) 8 = StPath 15.
Proof. intro H. cbv -[cls_rfc5464_x_is_entry_component_char]. rewrite H. reflexivity. Qed.
Lemma s5_ps t : check_private_shared (bs "/shared/vendor/" ++ t) = StAdmin 7. Proof. vm_compute. reflexivity. Qed.
Lemma s5_ad t : check_admin (bs "/shared/vendor/" ++ t) 7 = StVendorComment 7. Proof. vm_compute. reflexivity. Qed.
Lemma s5_vc c0 t : comp c0 = true -> check_vendor_comment (bs "/shared/vendor/" ++ c0 :: t) 7 = StPath 14.
Proof. intro H. cbv -[cls_rfc5464_x_is_entry_component_char]. rewrite H. reflexivity. Qed.

Lemma accept_done i : check_loop (length i + 4) i StPrivateShared = StDone (length i) -> check_entry_name i = AVal (VBytes i).
Proof. intro E. unfold check_entry_name. rewrite E, Nat.leb_refl. reflexivity. Qed.

Theorem entry_names_accepted i : rfc_entry i -> check_entry_name i = AVal (VBytes i).
Proof.
  intro H. apply accept_done. destruct H as [p Hp | p Hp | p Hp | c0 c p H0 Hc Hp | c0 c p H0 Hc Hp].
  - replace (length (bs "/shared/admin" ++ p) + 4)%nat with (S (S (S (length p + 14)))) by (rewrite app_length; cbn [length bs]; lia).
    cbn [check_loop]. rewrite s1_ps. cbn [check_loop]. rewrite s1_ad. refold_path; apply (check_loop_from_path' (bs "/shared/admin") p _ 13%nat Hp); [reflexivity | lia].
  - replace (length (bs "/private/comment" ++ p) + 4)%nat with (S (S (length p + 18))) by (rewrite app_length; cbn [length bs]; lia).
    cbn [check_loop]. rewrite s2_ps. cbn [check_loop]. rewrite s2_vc. refold_path; apply (check_loop_from_path' (bs "/private/comment") p _ 16%nat Hp); [reflexivity | lia].
  - replace (length (bs "/shared/comment" ++ p) + 4)%nat with (S (S (S (length p + 16)))) by (rewrite app_length; cbn [length bs]; lia).
    cbn [check_loop]. rewrite s3_ps. cbn [check_loop]. rewrite s3_ad. cbn [check_loop]. rewrite s3_vc.
    refold_path; apply (check_loop_from_path' (bs "/shared/comment") p _ 15%nat Hp); [reflexivity | lia].
  - replace (length (bs "/private/vendor/" ++ (c0 :: c) ++ p) + 4)%nat with (S (S (length c + length p + 19))) by (rewrite !app_length; cbn [length bs]; lia).
    cbn [check_loop]. rewrite s4_ps. cbn [check_loop]. change ((c0 :: c) ++ p) with (c0 :: (c ++ p)). rewrite (s4_vc c0 (c ++ p) H0).
    change (bs "/private/vendor/" ++ c0 :: c ++ p) with (bs "/private/vendor" ++ ([47] ++ (c0 :: c) ++ p)).
    refold_path; apply (check_loop_from_path' (bs "/private/vendor") ([47] ++ (c0 :: c) ++ p) _ 15%nat).
    + apply path_seg; [cbn [forallb]; rewrite H0, Hc; reflexivity | exact Hp].
    + reflexivity.
    + rewrite !app_length. cbn [length]. lia.
  - replace (length (bs "/shared/vendor/" ++ (c0 :: c) ++ p) + 4)%nat with (S (S (S (length c + length p + 17)))) by (rewrite !app_length; cbn [length bs]; lia).
    cbn [check_loop]. rewrite s5_ps. cbn [check_loop]. rewrite s5_ad. cbn [check_loop].
    change ((c0 :: c) ++ p) with (c0 :: (c ++ p)). rewrite (s5_vc c0 (c ++ p) H0).
    change (bs "/shared/vendor/" ++ c0 :: c ++ p) with (bs "/shared/vendor" ++ ([47] ++ (c0 :: c) ++ p)).
    refold_path; apply (check_loop_from_path' (bs "/shared/vendor") ([47] ++ (c0 :: c) ++ p) _ 14%nat).
    + apply path_seg; [cbn [forallb]; rewrite H0, Hc; reflexivity | exact Hp].
    + reflexivity.
    + rewrite !app_length. cbn [length]. lia.
Qed.
