(* M1: nom 7.1.3 primitives with their exact end-of-input behaviour (streaming flavour), and the
   hand-modelled leaves number / number_64 / literal of imap-proto/src/parser/core.rs.
   Definitions only. *)
From TI Require Import Bytes Grammar.

Definition nom_is_digit (c : byte) : bool := (48 <=? c) && (c <=? 57).   (* AsChar::is_dec_digit *)
Definition nom_is_space (c : byte) : bool := (c =? 32) || (c =? 9).      (* space0/space1: ' ' | '\t' *)

Fixpoint nlen_aux {A} (l : list A) (acc : N) : N :=
  match l with [] => acc | _ :: r => nlen_aux r (N.succ acc) end.
Definition nlen {A} (l : list A) : N := nlen_aux l 0.

Inductive scan := SOk (taken rest : list byte) | SInc | SErr.

(* tag / tag_no_case: a mismatch among the bytes present is an Error even when the input is shorter
   than the tag; otherwise a short input is Incomplete *)
Fixpoint tag_scan (eq : byte -> byte -> bool) (s i : list byte) : scan :=
  match s with
  | [] => SOk [] i
  | a :: s' =>
    match i with
    | [] => SInc
    | b :: i' => if eq a b then
                   match tag_scan eq s' i' with SOk t r => SOk (b :: t) r | e => e end
                 else SErr
    end
  end.
Definition eq_case (a b : byte) : bool := a =? b.
Definition eq_nocase1 (a b : byte) : bool := lower a =? lower b.   (* lowercase_byte folds only A-Z *)

(* split_at_position (streaming): None = no terminating byte in the buffer *)
Fixpoint span (p : cls) (i : list byte) : option (list byte * list byte) :=
  match i with
  | [] => None
  | b :: i' => if p b then match span p i' with Some (x, r) => Some (b :: x, r) | None => None end
               else Some ([], i)
  end.

(* escaped(take_while1(normal), ctl, one_of(escs)), streaming *)
Fixpoint esc_scan (normal : cls) (ctl : byte) (escs : list byte) (i : list byte) : scan :=
  match i with
  | [] => SInc
  | c :: r =>
    if normal c then
      match esc_scan normal ctl escs r with SOk t rest => SOk (c :: t) rest | e => e end
    else if c =? ctl then
      match r with
      | [] => SInc
      | e :: r' =>
        if existsb (N.eqb e) escs then
          match esc_scan normal ctl escs r' with SOk t rest => SOk (c :: e :: t) rest | x => x end
        else SErr
      end
    else SOk [] i
  end.

Definition of_scan (s : scan) : res :=
  match s with SOk t r => ROk r (VBytes t) (nlen t) | SInc => RInc | SErr => RErr end.

(* number / number_64: digit1 (streaming), then u32::from_str / u64::from_str on the digits:
   leading zeros accepted, failure exactly on overflow -> Error(MapRes) *)
Definition number_p (bits : N) (i : list byte) : res :=
  match span nom_is_digit i with
  | None => RInc
  | Some ([], _) => RErr
  | Some (ds, r) => if dec ds <? 2 ^ bits then ROk r (VNum (dec ds)) (nlen ds) else RErr
  end.

(* bytes::streaming::take(n): walks the list while decrementing a binary counter *)
Fixpoint take_n (n : N) (i : list byte) : option (list byte * list byte) :=
  if n =? 0 then Some ([], i) else
  match i with
  | [] => None
  | b :: r => match take_n (N.pred n) r with Some (d, rest) => Some (b :: d, rest) | None => None end
  end.

(* core::literal: "{" number "}" CRLF, then take(count), then every byte must be CHAR8 (non-NUL) *)
Definition literal_p (i : list byte) : res :=
  match tag_scan eq_case [123] i with
  | SInc => RInc | SErr => RErr
  | SOk _ r1 =>
    match number_p 32 r1 with
    | ROk r2 (VNum n) u2 =>
      match tag_scan eq_case [125] r2 with
      | SInc => RInc | SErr => RErr
      | SOk _ r3 =>
        match tag_scan eq_case [13; 10] r3 with
        | SInc => RInc | SErr => RErr
        | SOk _ r4 =>
          match take_n n r4 with
          | None => RInc
          | Some (data, rest) =>
            if forallb (fun b => negb (b =? 0)) data then ROk rest (VBytes data) (u2 + 4 + n) else RErr
          end
        end
      end
    | ROk _ _ _ => RErr
    | e => e
    end
  end.

Definition leaf_run (l : leaf) (i : list byte) : res :=
  match l with
  | LTag s => of_scan (tag_scan eq_case s i)
  | LTagNC s => of_scan (tag_scan eq_nocase1 s i)
  | LTakeWhile c => match span c i with None => RInc | Some (x, r) => ROk r (VBytes x) (nlen x) end
  | LTakeWhile1 c => match span c i with
                     | None => RInc
                     | Some ([], _) => RErr
                     | Some (x, r) => ROk r (VBytes x) (nlen x)
                     end
  | LEscaped n c e => of_scan (esc_scan n c e i)
  | LNumber bits => number_p bits i
  | LLiteral => literal_p i
  | LComplete _ => RErr     (* not modelled: a complete-mode primitive makes every obligation fail first *)
  end.
