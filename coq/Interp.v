(* M2: evaluation of actions and the fuelled interpreter `run`.  Definitions only.
   fuel counts exactly one thing: the depth of nested parser-function calls (Ref). *)
From TI Require Import Bytes Grammar Nom.

(* ---------------------------------------------------------------- actions *)
Definition venv := list (string * val).

Fixpoint lookup (x : string) (e : venv) : val :=
  match e with
  | [] => VUnit
  | (y, v) :: e' => if String.eqb x y then v else lookup x e'
  end.

Fixpoint bind (p : pat) (v : val) (e : venv) : venv :=
  match p with
  | PWild => e
  | PVar x => (x, v) :: e
  | PTuple ps =>
    match v with
    | VTuple vs =>
      (fix bl (ps : list pat) (vs : list val) (e : venv) : venv :=
         match ps, vs with
         | p :: ps', v :: vs' => bl ps' vs' (bind p v e)
         | _, _ => e
         end) ps vs e
    | _ => e
    end
  end.

Definition field_of (v : val) (f : string) : val :=
  match v with
  | VRec _ fs => lookup f fs
  | _ => VUnit
  end.
Definition proj_of (v : val) (k : nat) : val :=
  match v with
  | VTuple vs => nth k vs VUnit
  | _ => VUnit
  end.

Inductive lres := LVal (vs : list val) | LErr | LPanic.

(* evaluation of argument lists / record fields, given the evaluator for one expression *)
Section EvalList.
Variable ev : aexp -> venv -> ares.
Fixpoint eval_list (l : list aexp) (env : venv) : lres :=
  match l with
  | [] => LVal []
  | a :: l' => match ev a env with
               | AVal v => match eval_list l' env with LVal vs => LVal (v :: vs) | r => r end
               | AErr => LErr
               | APanic => LPanic
               end
  end.

Inductive fres := FVal (fs : list (string * val)) | FErr | FPanic.
Fixpoint eval_fields (l : list (string * aexp)) (env : venv) : fres :=
  match l with
  | [] => FVal []
  | (f, a) :: l' => match ev a env with
                    | AVal v => match eval_fields l' env with FVal fs => FVal ((f, v) :: fs) | r => r end
                    | AErr => FErr
                    | APanic => FPanic
                    end
  end.
End EvalList.

Section Eval.
Variable natf : string -> list val -> ares.

Definition of_lres (r : lres) (k : list val -> ares) : ares :=
  match r with LVal vs => k vs | LErr => AErr | LPanic => APanic end.

Fixpoint eval (e : aexp) (env : venv) {struct e} : ares :=
  match e with
  | AVar x => AVal (lookup x env)
  | AField e1 f => match eval e1 env with AVal v => AVal (field_of v f) | r => r end
  | AProj e1 k => match eval e1 env with AVal v => AVal (proj_of v k) | r => r end
  | ACon name args => of_lres (eval_list eval args env) (fun vs => AVal (VCon name vs))
  | ARec name fields =>
    match eval_fields eval fields env with
    | FVal fs => AVal (VRec name fs)
    | FErr => AErr
    | FPanic => APanic
    end
  | ATuple es => of_lres (eval_list eval es env) (fun vs => AVal (VTuple vs))
  | AVec es => of_lres (eval_list eval es env) (fun vs => AVal (VList vs))
  | ABytes b => AVal (VBytes b)
  | ANumLit n => AVal (VNum n)
  | ABoolLit b => AVal (VBool b)
  | ASome e1 => match eval e1 env with AVal v => AVal (VSome v) | r => r end
  | ANone => AVal VNone
  | AOptMap x body e1 =>
    match eval e1 env with
    | AVal (VSome v) => match eval body ((x, v) :: env) with AVal v' => AVal (VSome v') | r => r end
    | AVal _ => AVal VNone
    | r => r
    end
  | AIsSome e1 => match eval e1 env with
                  | AVal (VSome _) => AVal (VBool true)
                  | AVal _ => AVal (VBool false)
                  | r => r
                  end
  | AUnwrap e1 => match eval e1 env with
                  | AVal (VSome v) => AVal v
                  | AVal _ => APanic
                  | r => r
                  end
  | AIndex e1 k => match eval e1 env with
                   | AVal (VBytes b) => match nth_error b (N.to_nat k) with Some c => AVal (VNum c) | None => APanic end
                   | AVal _ => APanic
                   | r => r
                   end
  | ASliceFrom e1 k => match eval e1 env with
                       | AVal (VBytes b) => if k <=? nlen b then AVal (VBytes (skipn (N.to_nat k) b)) else APanic
                       | AVal _ => APanic
                       | r => r
                       end
  | ACall f args => of_lres (eval_list eval args env) (natf f)
  end.

Definition act (a : action) (v : val) : ares := eval (a_body a) (bind (a_pat a) v []).

End Eval.

(* ---------------------------------------------------------------- the interpreter *)
Definition P := nat -> list byte -> res.      (* nesting depth -> input -> outcome *)

Definition apply_darg (da : darg) (d : nat) : nat :=
  match da with DSame => d | DSucc => S d | DZero => O end.

Section Helpers.
Variable go : G -> P.

Fixpoint seq_run (gs : list G) (d : nat) (i : list byte) (acc : list val) (used : N) : res :=
  match gs with
  | [] => ROk i (VTuple (rev acc)) used
  | g :: gs' => match go g d i with
                | ROk r v u => seq_run gs' d r (v :: acc) (used + u)
                | e => e
                end
  end.

Fixpoint alt_run (gs : list G) (d : nat) (i : list byte) : res :=
  match gs with
  | [] => RErr
  | g :: gs' => match go g d i with
                | RErr => alt_run gs' d i
                | r => r
                end
  end.
End Helpers.

(* many0's loop (many1 enters it after a first mandatory element): stop on Error; an iteration that
   consumes nothing is Error(Many0); everything else propagates.  n is a structural counter, never the
   reason to stop when it exceeds the input length (counter_sufficient). *)
Fixpoint many_loop (p : list byte -> res) (n : nat) (i : list byte) (acc : list val) (used : N) : res :=
  match n with
  | O => RFuel
  | S n' => match p i with
            | RErr => ROk i (VList (rev acc)) used
            | ROk r v u => if u =? 0 then RErr else many_loop p n' r (v :: acc) (used + u)
            | e => e
            end
  end.

(* separated_list0/1 after the first element: sep Error -> done; sep consuming nothing -> Error;
   element Error after a separator -> done *without* the separator *)
Fixpoint sep_loop (sep p : list byte -> res) (n : nat) (i : list byte) (acc : list val) (used : N) : res :=
  match n with
  | O => RFuel
  | S n' => match sep i with
            | RErr => ROk i (VList (rev acc)) used
            | ROk r1 _ u1 =>
              if u1 =? 0 then RErr else
              match p r1 with
              | RErr => ROk i (VList (rev acc)) used
              | ROk r2 v u2 => sep_loop sep p n' r2 (v :: acc) (used + u1 + u2)
              | e => e
              end
            | e => e
            end
  end.

Fixpoint take_used (u : N) (i : list byte) : list byte :=
  if u =? 0 then [] else match i with [] => [] | b :: r => b :: take_used (N.pred u) r end.

Section Run.
Variable natf : string -> list val -> ares.
Variable env : N -> option G.
Variable bound : nat.      (* loop counter: S (length of the whole buffer), computed once *)

Definition step (self callee : G -> P) (g : G) : P :=
  match g with
  | Leaf l => fun _ i => leaf_run l i
  | Ref f da => fun d i => match env f with
                           | Some g' => callee g' (apply_darg da d) i
                           | None => RPanic
                           end
  | Guard max g' => fun d i => if Nat.leb max d then RErr else self g' d i
  | Seq gs => fun d i => seq_run self gs d i [] 0
  | Alt gs => alt_run self gs
  | Opt g' => fun d i => match self g' d i with
                         | ROk r v u => ROk r (VSome v) u
                         | RErr => ROk i VNone 0
                         | e => e
                         end
  | OptOpt g' => fun d i => match self g' d i with
                            | RErr => ROk i VNone 0
                            | e => e
                            end
  | Many0 g' => fun d i => many_loop (self g' d) bound i [] 0
  | Many1 g' => fun d i => match self g' d i with
                           | ROk r v u => many_loop (self g' d) bound r [v] u
                           | e => e
                           end
  | SepList0 s g' => fun d i => match self g' d i with
                                | RErr => ROk i (VList []) 0
                                | ROk r v u => sep_loop (self s d) (self g' d) bound r [v] u
                                | e => e
                                end
  | SepList1 s g' => fun d i => match self g' d i with
                                | ROk r v u => sep_loop (self s d) (self g' d) bound r [v] u
                                | e => e
                                end
  | Recognize g' => fun d i => match self g' d i with
                               | ROk r _ u => ROk r (VBytes (take_used u i)) u
                               | e => e
                               end
  | Map a g' => fun d i => match self g' d i with
                           | ROk r v u => match act natf a v with
                                          | AVal v' => ROk r v' u
                                          | AErr => RErr
                                          | APanic => RPanic
                                          end
                           | e => e
                           end
  | MapRes a g' => fun d i => match self g' d i with
                              | ROk r v u => match act natf a v with
                                             | AVal v' => ROk r v' u
                                             | AErr => RErr
                                             | APanic => RPanic
                                             end
                              | e => e
                              end
  | Unsupported _ => fun _ _ => RPanic
  end.

Fixpoint run (fuel : nat) : G -> P :=
  match fuel with
  | O => fun _ _ _ => RFuel
  | S f => fix go (g : G) : P := step go (run f) g
  end.

End Run.
