(* Unfolding lemma for the interpreter, induction principle for G, basic list facts. *)
From TI Require Import Bytes Grammar Nom Interp.
From Coq Require Import Lia.

Section Facts.
Variable natf : string -> list val -> ares.
Variable env : N -> option G.
Variable bound : nat.

Lemma run_S f g : run natf env bound (S f) g = step natf env bound (run natf env bound (S f)) (run natf env bound f) g.
Proof. destruct g; reflexivity. Qed.

Lemma run_0 g d i : run natf env bound 0 g d i = RFuel.
Proof. reflexivity. Qed.
End Facts.

Global Opaque run.

Lemma G_ind' (Q : G -> Prop)
  (HLeaf : forall l, Q (Leaf l))
  (HRef : forall f d, Q (Ref f d))
  (HGuard : forall m g, Q g -> Q (Guard m g))
  (HSeq : forall gs, Forall Q gs -> Q (Seq gs))
  (HAlt : forall gs, Forall Q gs -> Q (Alt gs))
  (HOpt : forall g, Q g -> Q (Opt g))
  (HOptOpt : forall g, Q g -> Q (OptOpt g))
  (HMany0 : forall g, Q g -> Q (Many0 g))
  (HMany1 : forall g, Q g -> Q (Many1 g))
  (HSep0 : forall s g, Q s -> Q g -> Q (SepList0 s g))
  (HSep1 : forall s g, Q s -> Q g -> Q (SepList1 s g))
  (HRec : forall g, Q g -> Q (Recognize g))
  (HMap : forall a g, Q g -> Q (Map a g))
  (HMapRes : forall a g, Q g -> Q (MapRes a g))
  (HUns : forall w, Q (Unsupported w)) : forall g, Q g.
Proof.
  fix IH 1. intros [l|f d|m g|gs|gs|g|g|g|g|s g|s g|g|a g|a g|w].
  - apply HLeaf. - apply HRef. - apply HGuard, IH.
  - apply HSeq. induction gs; constructor; auto.
  - apply HAlt. induction gs; constructor; auto.
  - apply HOpt, IH. - apply HOptOpt, IH. - apply HMany0, IH. - apply HMany1, IH.
  - apply HSep0; apply IH. - apply HSep1; apply IH.
  - apply HRec, IH. - apply HMap, IH. - apply HMapRes, IH. - apply HUns.
Qed.

Lemma nlen_aux_spec {A} (l : list A) acc : nlen_aux l acc = acc + N.of_nat (length l).
Proof.
  revert acc. induction l as [|a l IH]; intros acc; cbn [nlen_aux length]; [lia|]. rewrite IH. lia.
Qed.
Lemma nlen_spec {A} (l : list A) : nlen l = N.of_nat (length l).
Proof. unfold nlen. rewrite nlen_aux_spec. lia. Qed.
Lemma nlen_app {A} (a b : list A) : nlen (a ++ b) = nlen a + nlen b.
Proof. rewrite !nlen_spec, app_length. lia. Qed.
Lemma nlen_zero {A} (l : list A) : nlen l = 0 -> l = [].
Proof. rewrite nlen_spec. destruct l; [reflexivity|cbn; lia]. Qed.

(* a computable predicate over every node of a grammar tree *)
Fixpoint all_nodes (q : G -> bool) (g : G) : bool :=
  q g &&
  match g with
  | Leaf _ | Ref _ _ | Unsupported _ => true
  | Guard _ g' | Opt g' | OptOpt g' | Many0 g' | Many1 g' | Recognize g' | Map _ g' | MapRes _ g' => all_nodes q g'
  | Seq gs | Alt gs => (fix al (l : list G) : bool := match l with [] => true | x :: l' => all_nodes q x && al l' end) gs
  | SepList0 s g' | SepList1 s g' => all_nodes q s && all_nodes q g'
  end.

Lemma all_nodes_inv q g : all_nodes q g = true ->
  q g = true /\
  match g with
  | Guard _ g' | Opt g' | OptOpt g' | Many0 g' | Many1 g' | Recognize g' | Map _ g' | MapRes _ g' => all_nodes q g' = true
  | Seq gs | Alt gs => Forall (fun x => all_nodes q x = true) gs
  | SepList0 s g' | SepList1 s g' => all_nodes q s = true /\ all_nodes q g' = true
  | _ => True
  end.
Proof.
  intros H. destruct g as [l|f d|m g|gs|gs|g|g|g|g|s g|s g|g|a g|a g|w];
    cbn [all_nodes] in H; apply andb_true_iff in H; destruct H as [H1 H2]; split; try exact H1; try exact I; try exact H2.
  - clear H1. induction gs as [|x gs IH]; constructor; apply andb_true_iff in H2; destruct H2; auto.
  - clear H1. induction gs as [|x gs IH]; constructor; apply andb_true_iff in H2; destruct H2; auto.
  - apply andb_true_iff in H2. exact H2.
  - apply andb_true_iff in H2. exact H2.
Qed.

(* every definition of an environment given as a list satisfies a node predicate *)
Definition env_all (q : G -> bool) (defs : list (option G)) : bool :=
  forallb (fun og => match og with Some g => all_nodes q g | None => true end) defs.

Lemma env_all_sound q defs : env_all q defs = true ->
  forall f g, match nth_error defs (N.to_nat f) with Some (Some g') => Some g' | _ => None end = Some g ->
  all_nodes q g = true.
Proof.
  intros H f g Hf. unfold env_all in H. rewrite forallb_forall in H.
  destruct (nth_error defs (N.to_nat f)) as [[g'|]|] eqn:E; try discriminate. injection Hf as <-.
  apply (H (Some g')). eapply nth_error_In; eauto.
Qed.
