(* M6: hand models of tokio-imap/src/codec.rs (ImapCodec decode/encode), of tokio-util 0.7.19's
   FramedImpl (read loop, sink) and of tokio-imap/src/client.rs (ResponseStream::poll_next, call).
   The environment is a scripted transport: three queues of events (reads, writes, flushes); an
   exhausted read queue means "not ready", an exhausted write queue accepts everything, an
   exhausted flush queue succeeds.  Definitions only. *)
From TI Require Import Bytes Grammar Nom Interp Natives Tags Builders.

(* ---------------------------------------------------------------- transport *)
Inductive rd_ev := RChunk (b : list byte) | RNotReady | REof | RIoErr.
Inductive wr_ev := WAccept (k : N) | WNotReady | WZero | WIoErr.
Inductive fl_ev := FOk | FNotReady | FIoErr.

Record io := mk_io { io_rd : list rd_ev; io_wr : list wr_ev; io_fl : list fl_ev; io_wire : list byte }.

(* ---------------------------------------------------------------- codec *)
Inductive dres := DFrame (raw : list byte) (v : val) (rest : list byte) | DNone | DErr | DPanic.

(* ImapCodec::decode: parse the whole buffer; Ok -> split_to(rsp_len); Incomplete -> None; Error/Failure -> Err.
   DPanic = the arithmetic buf.len() - remaining.len() or split_to out of range, or a parser panic. *)
Definition decode (buf : list byte) : dres :=
  match parse buf with
  | ROk rest v u =>
    if u <=? nlen buf then DFrame (take_used u buf) v rest else DPanic
  | RInc => DNone
  | RErr | RFail => DErr
  | RPanic | RFuel => DPanic
  end.

(* ---------------------------------------------------------------- Framed, read side *)
Record rframe := mk_rf { rf_eof : bool; rf_readable : bool; rf_errored : bool; rf_buf : list byte }.
Definition rf_init : rframe := mk_rf false false false [].

Inductive item :=
| IFrame (raw : list byte) (v : val)
| IErrDecode            (* the codec returned Err: malformed response *)
| IErrRemaining         (* decode_eof: "bytes remaining on stream" *)
| IErrIo                (* the transport's read failed *)
| IErrWrite             (* write / flush failed, or WriteZero *)
| IErrEnded.            (* client: "stream ended before command completion" *)

Inductive pout := PItem (it : item) | PNone | PPending | PPanic.

(* one iteration of the loop up to (and excluding) the read *)
Inductive pre := PreReturn (st : rframe) (o : pout) | PreRead (st : rframe).

Definition fr_pre (st : rframe) : pre :=
  if rf_errored st then PreReturn (mk_rf (rf_eof st) false false (rf_buf st)) PNone
  else if rf_readable st then
    if rf_eof st then
      (* decode_eof *)
      match decode (rf_buf st) with
      | DFrame raw v rest => PreReturn (mk_rf true true false rest) (PItem (IFrame raw v))
      | DNone => match rf_buf st with
                 | [] => PreReturn (mk_rf true false false []) PNone
                 | _ => PreReturn (mk_rf true true true (rf_buf st)) (PItem IErrRemaining)
                 end
      | DErr => PreReturn (mk_rf true true true (rf_buf st)) (PItem IErrDecode)
      | DPanic => PreReturn st PPanic
      end
    else
      match decode (rf_buf st) with
      | DFrame raw v rest => PreReturn (mk_rf false true false rest) (PItem (IFrame raw v))
      | DNone => PreRead (mk_rf false false false (rf_buf st))
      | DErr => PreReturn (mk_rf false true true (rf_buf st)) (PItem IErrDecode)
      | DPanic => PreReturn st PPanic
      end
  else PreRead st.

(* FramedImpl::poll_next: every iteration that does not return consumes one read event *)
Fixpoint fr_poll (st : rframe) (rd : list rd_ev) {struct rd} : rframe * pout * list rd_ev :=
  match fr_pre st with
  | PreReturn st' o => (st', o, rd)
  | PreRead st' =>
    match rd with
    | [] => (st', PPending, [])
    | RNotReady :: rd' => (st', PPending, rd')
    | RIoErr :: rd' => (mk_rf (rf_eof st') (rf_readable st') true (rf_buf st'), PItem IErrIo, rd')
    | RChunk b :: rd' => fr_poll (mk_rf false true false (rf_buf st' ++ b)) rd'
    | REof :: rd' =>
      if rf_eof st' then (st', PNone, rd')
      else fr_poll (mk_rf true true false (rf_buf st')) rd'
    end
  end.

(* ---------------------------------------------------------------- Framed, write side *)
Definition BACKPRESSURE : N := 8192.

Inductive wout := WReady | WPending | WError.

(* poll_flush: write until the buffer is empty, then flush the transport *)
Fixpoint flush_loop (fuel : nat) (wbuf : list byte) (t : io) : list byte * io * wout :=
  match wbuf with
  | [] =>
    match io_fl t with
    | [] | FOk :: _ => (wbuf, mk_io (io_rd t) (io_wr t) (tl (io_fl t)) (io_wire t), WReady)
    | FNotReady :: fl' => (wbuf, mk_io (io_rd t) (io_wr t) fl' (io_wire t), WPending)
    | FIoErr :: fl' => (wbuf, mk_io (io_rd t) (io_wr t) fl' (io_wire t), WError)
    end
  | _ =>
    match fuel with
    | O => (wbuf, t, WPending)   (* unreachable: every accepted write removes at least one byte *)
    | S fuel' =>
      match io_wr t with
      | [] => flush_loop fuel' [] (mk_io (io_rd t) [] (io_fl t) (io_wire t ++ wbuf))
      | WNotReady :: wr' => (wbuf, mk_io (io_rd t) wr' (io_fl t) (io_wire t), WPending)
      | WZero :: wr' => (wbuf, mk_io (io_rd t) wr' (io_fl t) (io_wire t), WError)
      | WIoErr :: wr' => (wbuf, mk_io (io_rd t) wr' (io_fl t) (io_wire t), WError)
      | WAccept k :: wr' =>
        let k' := if k =? 0 then 1 else k in
        match take_n (N.min k' (nlen wbuf)) wbuf with
        | Some (sent, rest) => flush_loop fuel' rest (mk_io (io_rd t) wr' (io_fl t) (io_wire t ++ sent))
        | None => (wbuf, t, WError)
        end
      end
    end
  end.

Definition poll_flush (wbuf : list byte) (t : io) : list byte * io * wout :=
  flush_loop (S (length wbuf)) wbuf t.

Definition poll_ready (wbuf : list byte) (t : io) : list byte * io * wout :=
  if BACKPRESSURE <=? nlen wbuf then poll_flush wbuf t else (wbuf, t, WReady).

(* ---------------------------------------------------------------- the client *)
Inductive rs_state := RsStart | RsSending | RsReceiving | RsDone.

Record client := mk_client { c_rf : rframe; c_wbuf : list byte; c_io : io; c_next : N }.
Definition client_init (t : io) : client := mk_client rf_init [] t 0.

Record stream := mk_stream { s_tag : list byte; s_args : list byte; s_state : rs_state }.

(* Client::call: take the next tag; None = the u64 counter overflows *)
Definition call (c : client) (args : list byte) : option (client * stream) :=
  match idgen_next (c_next c) with
  | Some (n', tag) => Some (mk_client (c_rf c) (c_wbuf c) (c_io c) n', mk_stream tag args RsStart)
  | None => None
  end.

(* ResponseData::request_id: Some(tag) only for Response::Done *)
Definition done_tag (v : val) : option (list byte) :=
  match v with
  | VRec name fields =>
    if String.eqb name "Response::Done" then
      match lookup "tag" fields with VCon _ [VBytes t] => Some t | _ => None end
    else None
  | _ => None
  end.

(* one iteration of the `loop { match me.state ... }` in ResponseStream::poll_next:
   Some o = return o; None = state changed, go round the loop again *)
Definition rs_step (c : client) (s : stream) : client * stream * option pout :=
  match s_state s with
  | RsStart =>
    match poll_ready (c_wbuf c) (c_io c) with
    | (wb, t, WPending) => (mk_client (c_rf c) wb t (c_next c), s, Some PPending)
    | (wb, t, WError) => (mk_client (c_rf c) wb t (c_next c), s, Some (PItem IErrWrite))
    | (wb, t, WReady) =>
      (mk_client (c_rf c) (wb ++ encode_request (s_tag s) (s_args s)) t (c_next c),
       mk_stream (s_tag s) (s_args s) RsSending, None)
    end
  | RsSending =>
    match poll_flush (c_wbuf c) (c_io c) with
    | (wb, t, WPending) => (mk_client (c_rf c) wb t (c_next c), s, Some PPending)
    | (wb, t, WError) => (mk_client (c_rf c) wb t (c_next c), s, Some (PItem IErrWrite))
    | (wb, t, WReady) => (mk_client (c_rf c) wb t (c_next c), mk_stream (s_tag s) (s_args s) RsReceiving, None)
    end
  | RsReceiving =>
    match fr_poll (c_rf c) (io_rd (c_io c)) with
    | (rf', o, rd') =>
      let c' := mk_client rf' (c_wbuf c) (mk_io rd' (io_wr (c_io c)) (io_fl (c_io c)) (io_wire (c_io c))) (c_next c) in
      match o with
      | PItem (IFrame raw v) =>
        match done_tag v with
        | Some t => if bytes_eqb t (s_tag s)
                    then (c', mk_stream (s_tag s) (s_args s) RsDone, Some o)
                    else (c', s, Some o)
        | None => (c', s, Some o)
        end
      | PItem _ => (c', s, Some o)
      | PNone => (c', s, Some (PItem IErrEnded))
      | PPending => (c', s, Some PPending)
      | PPanic => (c', s, Some PPanic)
      end
    end
  | RsDone => (c, s, Some PNone)
  end.

(* ResponseStream::poll_next; the loop goes round at most three times (Start -> Sending -> Receiving) *)
Fixpoint rs_poll (fuel : nat) (c : client) (s : stream) : client * stream * pout :=
  match fuel with
  | O => (c, s, PPending)
  | S fuel' =>
    match rs_step c s with
    | (c', s', Some o) => (c', s', o)
    | (c', s', None) => rs_poll fuel' c' s'
    end
  end.

Definition stream_poll (c : client) (s : stream) : client * stream * pout := rs_poll 4 c s.

(* polling the framed connection until it has nothing more to deliver: frames are collected while the
   answer is a frame; the first other answer (Pending, an error, None) ends the drain *)
Fixpoint fr_drain (fuel : nat) (st : rframe) (rd : list rd_ev) : list (list byte * val) * pout * rframe * list rd_ev :=
  match fuel with
  | O => ([], PNone, st, rd)       (* out of fuel: reported as None, which a data-only drain never yields *)
  | S fuel' =>
    match fr_poll st rd with
    | (st', PItem (IFrame raw v), rd') =>
      match fr_drain fuel' st' rd' with (fs, o, st'', rd'') => ((raw, v) :: fs, o, st'', rd'') end
    | (st', o, rd') => ([], o, st', rd')
    end
  end.

(* ---------------------------------------------------------------- sessions *)
Definition line_of (s : stream) : list byte := encode_request (s_tag s) (s_args s).

(* poll a stream up to n times (stopping at None); then it is dropped *)
Fixpoint polls (n : nat) (c : client) (s : stream) : client * stream * list pout :=
  match n with
  | O => (c, s, [])
  | S n' =>
    match stream_poll c s with
    | (c', s', PNone) => (c', s', [PNone])
    | (c', s', o) => match polls n' c' s' with (c'', s'', os) => (c'', s'', o :: os) end
    end
  end.

Definition left_start (s : stream) : bool := match s_state s with RsStart => false | _ => true end.

(* a session: commands issued one after the other, each polled some number of times and then dropped.
   Returns the final client, the lines of the commands whose start_send happened (in order), and the
   outputs per command. *)
Fixpoint session (ops : list (list byte * nat)) (c : client) : client * list (list byte) * list (list pout) :=
  match ops with
  | [] => (c, [], [])
  | (args, n) :: ops' =>
    match call c args with
    | None => (c, [], [])
    | Some (c1, s0) =>
      match polls n c1 s0 with
      | (c2, s2, os) =>
        match session ops' c2 with
        | (c3, started, outs) => (c3, (if left_start s2 then [line_of s2] else []) ++ started, os :: outs)
        end
      end
    end
  end.
