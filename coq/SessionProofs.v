(* C05 at the level of whole sessions: exactly once, in order, delimited by the own completion.
   The reference is the framed read side polled n times in a row by anybody (fr_trace); C04's theorems say what
   those polls yield for a given byte stream and chunking. *)
From TI Require Import Bytes Grammar Nom Interp Natives Tags Builders Client ClientProofs Thm_Crlf Thm_Line Proofs_C09.
From Coq Require Import Lia.

(* n successive polls of the framed read side *)
Fixpoint fr_trace (n : nat) (st : rframe) (rd : list rd_ev) : list pout * rframe * list rd_ev :=
  match n with
  | O => ([], st, rd)
  | S n' => match fr_poll st rd with
            | (st', o, rd') => match fr_trace n' st' rd' with (os, st'', rd'') => (o :: os, st'', rd'') end
            end
  end.

Definition frame_of (o : pout) : list (list byte * val) := match o with PItem (IFrame raw v) => [(raw, v)] | _ => [] end.
Definition frames_of (os : list pout) : list (list byte * val) := flat_map frame_of os.

Lemma frames_of_app a b : frames_of (a ++ b) = frames_of a ++ frames_of b.
Proof. unfold frames_of. apply flat_map_app. Qed.

Lemma fr_trace_app : forall n m st rd os1 st1 rd1 os2 st2 rd2,
  fr_trace n st rd = (os1, st1, rd1) -> fr_trace m st1 rd1 = (os2, st2, rd2) -> fr_trace (n + m) st rd = (os1 ++ os2, st2, rd2).
Proof.
  induction n as [|n IH]; intros m st rd os1 st1 rd1 os2 st2 rd2 H1 H2.
  - cbn in H1. injection H1 as <- <- <-. exact H2.
  - cbn [fr_trace] in H1. cbn [Nat.add fr_trace]. destruct (fr_poll st rd) as [[st' o] rd'].
    destruct (fr_trace n st' rd') as [[os st''] rd''] eqn:E. injection H1 as <- <- <-.
    rewrite (IH m st' rd' os st'' rd'' os2 st2 rd2 E H2). reflexivity.
Qed.

(* what a client has read: some number of polls of its framed read side, whose frames are the frames in `outs` *)
Definition reads (c c' : client) (outs : list pout) : Prop :=
  exists n os, fr_trace n (c_rf c) (io_rd (c_io c)) = (os, c_rf c', io_rd (c_io c')) /\ frames_of outs = frames_of os.

Lemma reads_refl c c' : c_rf c' = c_rf c -> io_rd (c_io c') = io_rd (c_io c) -> reads c c' [].
Proof. intros H1 H2. exists 0%nat, []. cbn. rewrite H1, H2. split; reflexivity. Qed.

Lemma reads_trans c1 c2 c3 o1 o2 : reads c1 c2 o1 -> reads c2 c3 o2 -> reads c1 c3 (o1 ++ o2).
Proof.
  intros (n1 & os1 & H1 & F1) (n2 & os2 & H2 & F2). exists (n1 + n2)%nat, (os1 ++ os2). split.
  - exact (fr_trace_app _ _ _ _ _ _ _ _ _ _ H1 H2).
  - rewrite !frames_of_app, F1, F2. reflexivity.
Qed.

Lemma reads_nonframe c c' o : reads c c' [] -> frame_of o = [] -> reads c c' [o].
Proof. intros (n & os & H & F) Ho. exists n, os. split; [exact H|]. unfold frames_of in *. cbn [flat_map]. rewrite Ho. exact F. Qed.

Definition out_list (r : option pout) : list pout := match r with Some o => [o] | None => [] end.

Lemma rs_step_reads c s c' s' r : rs_step c s = (c', s', r) -> reads c c' (out_list r).
Proof.
  unfold rs_step. destruct s as [tag args state]. cbn [s_state s_tag s_args]. destruct state.
  - destruct (poll_ready (c_wbuf c) (c_io c)) as [[wb t] w] eqn:Er. destruct (poll_ready_inv _ _ _ _ _ Er) as [_ Hrd].
    destruct w; intros H; injection H as <- <- <-; cbn [out_list].
    + apply reads_refl; [reflexivity | exact Hrd].
    + apply reads_nonframe; [|reflexivity]. apply reads_refl; [reflexivity | exact Hrd].
    + apply reads_nonframe; [|reflexivity]. apply reads_refl; [reflexivity | exact Hrd].
  - destruct (poll_flush (c_wbuf c) (c_io c)) as [[wb t] w] eqn:Ef. destruct (poll_flush_inv _ _ _ _ _ Ef) as [_ [Hrd _]].
    destruct w; intros H; injection H as <- <- <-; cbn [out_list].
    + apply reads_refl; [reflexivity | exact Hrd].
    + apply reads_nonframe; [|reflexivity]. apply reads_refl; [reflexivity | exact Hrd].
    + apply reads_nonframe; [|reflexivity]. apply reads_refl; [reflexivity | exact Hrd].
  - destruct (fr_poll (c_rf c) (io_rd (c_io c))) as [[rf' o] rd'] eqn:Ep.
    assert (G : forall o2 (s2 : stream) cc, c_rf cc = rf' -> io_rd (c_io cc) = rd' -> frame_of o2 = frame_of o -> reads c cc [o2]).
    { intros o2 s2 cc H1 H2 H3. exists 1%nat, [o]. cbn [fr_trace]. rewrite Ep, H1, H2. split; [reflexivity|].
      unfold frames_of. cbn [flat_map]. rewrite H3. reflexivity. }
    destruct o as [[raw v| | | | |]| | |].
    + destruct (done_tag v) as [t|]; [destruct (bytes_eqb t tag)|]; intros H; injection H as <- <- <-; cbn [out_list];
        apply (G _ (mk_stream tag args RsDone)); reflexivity.
    + intros H; injection H as <- <- <-; apply (G _ (mk_stream tag args RsDone)); reflexivity.
    + intros H; injection H as <- <- <-; apply (G _ (mk_stream tag args RsDone)); reflexivity.
    + intros H; injection H as <- <- <-; apply (G _ (mk_stream tag args RsDone)); reflexivity.
    + intros H; injection H as <- <- <-; apply (G _ (mk_stream tag args RsDone)); reflexivity.
    + intros H; injection H as <- <- <-; apply (G _ (mk_stream tag args RsDone)); reflexivity.
    + intros H; injection H as <- <- <-; apply (G _ (mk_stream tag args RsDone)); reflexivity.
    + intros H; injection H as <- <- <-; apply (G _ (mk_stream tag args RsDone)); reflexivity.
    + intros H; injection H as <- <- <-; apply (G _ (mk_stream tag args RsDone)); reflexivity.
  - intros H; injection H as <- <- <-. cbn [out_list]. apply reads_nonframe; [|reflexivity]. apply reads_refl; reflexivity.
Qed.

Lemma rs_poll_reads : forall fuel c s c' s' o, rs_poll fuel c s = (c', s', o) -> reads c c' [o].
Proof.
  induction fuel as [|fuel IH]; intros c s c' s' o H.
  - cbn in H. injection H as <- <- <-. apply reads_nonframe; [|reflexivity]. apply reads_refl; reflexivity.
  - cbn [rs_poll] in H. destruct (rs_step c s) as [[c1 s1] r] eqn:Es. pose proof (rs_step_reads _ _ _ _ _ Es) as R1.
    destruct r as [o1|].
    + injection H as <- <- <-. exact R1.
    + change [o] with ([] ++ [o]). eapply reads_trans; [exact R1 | exact (IH _ _ _ _ _ H)].
Qed.

Lemma polls_reads : forall n c s c' s' os, polls n c s = (c', s', os) -> reads c c' os.
Proof.
  induction n as [|n IH]; intros c s c' s' os H.
  - cbn in H. injection H as <- <- <-. apply reads_refl; reflexivity.
  - cbn [polls] in H. unfold stream_poll in H. destruct (rs_poll 4 c s) as [[c1 s1] o1] eqn:Ep.
    pose proof (rs_poll_reads _ _ _ _ _ _ Ep) as R1.
    assert (Hcont : forall os2 c2 s2, polls n c1 s1 = (c2, s2, os2) -> reads c c2 (o1 :: os2)).
    { intros os2 c2 s2 Hq. change (o1 :: os2) with ([o1] ++ os2). eapply reads_trans; [exact R1 | exact (IH _ _ _ _ _ Hq)]. }
    destruct o1 as [it| | |].
    + destruct (polls n c1 s1) as [[c2 s2] os2] eqn:Eq. injection H as <- <- <-. eapply Hcont; eauto.
    + injection H as <- <- <-. exact R1.
    + destruct (polls n c1 s1) as [[c2 s2] os2] eqn:Eq. injection H as <- <- <-. eapply Hcont; eauto.
    + destruct (polls n c1 s1) as [[c2 s2] os2] eqn:Eq. injection H as <- <- <-. eapply Hcont; eauto.
Qed.

(* over a whole session -- any commands, any numbers of polls, any abandonment points, any schedule -- the frames
   handed to the streams, in order, are exactly the frames that some number n of successive polls of the framed read
   side yield from the session's initial read state, and the session leaves the read side in the state after those n
   polls: nothing is delivered twice, nothing is dropped or invented, everything behind is left for the next command *)
Theorem session_exactly_once_lemma : forall ops c c' started outs, session ops c = (c', started, outs) ->
  exists n os, fr_trace n (c_rf c) (io_rd (c_io c)) = (os, c_rf c', io_rd (c_io c')) /\
               frames_of (List.concat outs) = frames_of os.
Proof.
  induction ops as [|[args n] ops IH]; intros c c' started outs H.
  - cbn in H. injection H as <- <- <-. exists 0%nat, []. split; reflexivity.
  - cbn [session] in H. unfold call in H. destruct (idgen_next (c_next c)) as [[n' tag]|]; [|injection H as <- <- <-; exists 0%nat, []; split; reflexivity].
    destruct (polls n (mk_client (c_rf c) (c_wbuf c) (c_io c) n') (mk_stream tag args RsStart)) as [[c2 s2] os] eqn:Ep.
    destruct (session ops c2) as [[c3 st3] outs3] eqn:Es. injection H as <- <- <-.
    pose proof (polls_reads _ _ _ _ _ _ Ep) as R1. pose proof (IH _ _ _ _ Es) as R2.
    cbn [List.concat]. exact (reads_trans (mk_client (c_rf c) (c_wbuf c) (c_io c) n') c2 c3 os (List.concat outs3) R1 R2).
Qed.

(* ---------------------------------------------------------------- delimitation of one stream's outputs *)
Definition own (tag : list byte) (o : pout) : Prop := exists raw v, o = PItem (IFrame raw v) /\ done_tag v = Some tag.

(* the legal output lists of a stream: anything but None and the own completion any number of times, then
   possibly the own completion, then possibly None, and nothing after None *)
Inductive Delim (tag : list byte) : bool -> list pout -> Prop :=
| delim_nil b : Delim tag b []
| delim_none : Delim tag true [PNone]
| delim_own o os : own tag o -> Delim tag true os -> Delim tag false (o :: os)
| delim_other o os : o <> PNone -> ~ own tag o -> Delim tag false os -> Delim tag false (o :: os).

Definition is_done (s : stream) : bool := match s_state s with RsDone => true | _ => false end.

Lemma rs_step_delim c s c' s' r : rs_step c s = (c', s', r) -> is_done s = false ->
  s_tag s' = s_tag s /\ r <> Some PNone /\
  match r with
  | Some o => if is_done s' then own (s_tag s) o else ~ own (s_tag s) o
  | None => is_done s' = false
  end.
Proof.
  unfold rs_step, is_done. destruct s as [tag args state]. cbn [s_state s_tag s_args]. destruct state; intros H Hd; try discriminate Hd.
  - destruct (poll_ready (c_wbuf c) (c_io c)) as [[wb t] w]. destruct w; injection H as <- <- <-; cbn [s_state s_tag];
      (split; [reflexivity|]); (split; [discriminate|]); try reflexivity; intros (raw & v & E & _); discriminate.
  - destruct (poll_flush (c_wbuf c) (c_io c)) as [[wb t] w]. destruct w; injection H as <- <- <-; cbn [s_state s_tag];
      (split; [reflexivity|]); (split; [discriminate|]); try reflexivity; intros (raw & v & E & _); discriminate.
  - destruct (fr_poll (c_rf c) (io_rd (c_io c))) as [[rf' o] rd'].
    destruct o as [[raw v| | | | |]| | |].
    + destruct (done_tag v) as [t|] eqn:Ed; [destruct (bytes_eqb t tag) eqn:Eb|]; injection H as <- <- <-; cbn [s_state s_tag];
        (split; [reflexivity|]); (split; [discriminate|]).
      * apply bytes_eqb_eq in Eb. subst t. exists raw, v. split; [reflexivity | exact Ed].
      * intros (raw' & v' & E & Hd'). injection E as <- <-. rewrite Ed in Hd'. injection Hd' as ->.
        assert (bytes_eqb tag tag = true) by (apply bytes_eqb_eq; reflexivity). congruence.
      * intros (raw' & v' & E & Hd'). injection E as <- <-. congruence.
    + injection H as <- <- <-; cbn [s_state s_tag]; (split; [reflexivity|]); (split; [discriminate|]); intros (raw & v & E & _); discriminate.
    + injection H as <- <- <-; cbn [s_state s_tag]; (split; [reflexivity|]); (split; [discriminate|]); intros (raw & v & E & _); discriminate.
    + injection H as <- <- <-; cbn [s_state s_tag]; (split; [reflexivity|]); (split; [discriminate|]); intros (raw & v & E & _); discriminate.
    + injection H as <- <- <-; cbn [s_state s_tag]; (split; [reflexivity|]); (split; [discriminate|]); intros (raw & v & E & _); discriminate.
    + injection H as <- <- <-; cbn [s_state s_tag]; (split; [reflexivity|]); (split; [discriminate|]); intros (raw & v & E & _); discriminate.
    + injection H as <- <- <-; cbn [s_state s_tag]; (split; [reflexivity|]); (split; [discriminate|]); intros (raw & v & E & _); discriminate.
    + injection H as <- <- <-; cbn [s_state s_tag]; (split; [reflexivity|]); (split; [discriminate|]); intros (raw & v & E & _); discriminate.
    + injection H as <- <- <-; cbn [s_state s_tag]; (split; [reflexivity|]); (split; [discriminate|]); intros (raw & v & E & _); discriminate.
Qed.

Lemma rs_poll_delim : forall fuel c s c' s' o, rs_poll fuel c s = (c', s', o) -> is_done s = false ->
  s_tag s' = s_tag s /\ o <> PNone /\ (if is_done s' then own (s_tag s) o else ~ own (s_tag s) o).
Proof.
  induction fuel as [|fuel IH]; intros c s c' s' o H Hd.
  - cbn in H. injection H as <- <- <-. split; [reflexivity|]. split; [discriminate|]. rewrite Hd. intros (raw & v & E & _). discriminate.
  - cbn [rs_poll] in H. destruct (rs_step c s) as [[c1 s1] r] eqn:Es. destruct (rs_step_delim _ _ _ _ _ Es Hd) as [T1 [N1 D1]].
    destruct r as [o1|].
    + injection H as <- <- <-. split; [exact T1|]. split; [congruence | exact D1].
    + destruct (IH _ _ _ _ _ H D1) as [T2 [N2 D2]]. rewrite T1 in T2, D2. split; [exact T2|]. split; [exact N2 | exact D2].
Qed.

Lemma polls_delim : forall n c s c' s' os, polls n c s = (c', s', os) -> Delim (s_tag s) (is_done s) os.
Proof.
  induction n as [|n IH]; intros c s c' s' os H.
  - cbn in H. injection H as <- <- <-. constructor.
  - cbn [polls] in H. destruct (stream_poll c s) as [[c1 s1] o1] eqn:Ep. destruct (is_done s) eqn:Hd.
    + (* already done: None, unchanged *)
      assert (Hs : s_state s = RsDone) by (unfold is_done in Hd; destruct (s_state s); try discriminate; reflexivity).
      destruct (never_silent_lemma _ _ _ _ _ Ep) as [_ Hn]. destruct (Hn Hs) as [-> _]. injection H as <- <- <-. constructor.
    + unfold stream_poll in Ep. destruct (rs_poll_delim _ _ _ _ _ _ Ep Hd) as [T1 [N1 D1]].
      assert (Hos : exists os2 c2 s2, polls n c1 s1 = (c2, s2, os2) /\ os = o1 :: os2).
      { destruct o1 as [it| | |]; try contradiction;
          destruct (polls n c1 s1) as [[c2 s2] os2] eqn:Eq; injection H as <- <- <-; eexists _, _, _; split; reflexivity. }
      destruct Hos as (os2 & c2 & s2 & Hq & ->). pose proof (IH _ _ _ _ _ Hq) as D2. rewrite T1 in D2.
      destruct (is_done s1); [apply delim_own | apply delim_other]; assumption.
Qed.

(* the outputs of any stream, polled any number of times from its creation: before its own tagged completion only
   other items (never None -- an ended connection is an error item), after it nothing but None *)
Theorem stream_delimited_lemma : forall n c args c1 s0 c' s' os, call c args = Some (c1, s0) -> polls n c1 s0 = (c', s', os) ->
  Delim (s_tag s0) false os.
Proof.
  intros n c args c1 s0 c' s' os Hc Hp. pose proof (polls_delim _ _ _ _ _ _ Hp) as D.
  unfold call in Hc. destruct (idgen_next (c_next c)) as [[n' tag]|]; [|discriminate]. injection Hc as <- <-. exact D.
Qed.

(* Delim in words *)
Lemma Delim_shape tag os : Delim tag false os ->
  (forall pre o post, os = pre ++ o :: post -> own tag o -> post = [] \/ post = [PNone]) /\
  (forall pre post, os = pre ++ PNone :: post -> post = [] /\ exists pre' o, pre = pre' ++ [o] /\ own tag o).
Proof.
  assert (Ht : forall os, Delim tag true os -> os = [] \/ os = [PNone]).
  { intros os0 H. inversion H; subst; auto. }
  intro H. remember false as b eqn:Eb. induction H as [b | | o os Ho Hd _ | o os Hn Hno Hd IH]; try discriminate Eb.
  - split; intros pre; intros; destruct pre; discriminate.
  - destruct (Ht os Hd) as [-> | ->]; split.
    + intros pre o' post E _. destruct pre as [|x pre]; [injection E as <- <-; left; reflexivity|]. destruct pre; discriminate.
    + intros pre post E. destruct pre as [|x pre]; [injection E as -> _; destruct Ho as (r & v & E' & _); discriminate|]. destruct pre; discriminate.
    + intros pre o' post E _. destruct pre as [|x pre]; [injection E as <- <-; right; reflexivity|].
      destruct pre as [|y pre]; [injection E as _ <- <-; left; reflexivity|]. destruct pre; discriminate.
    + intros pre post E. destruct pre as [|x pre]; [injection E as -> _; destruct Ho as (r & v & E' & _); discriminate|].
      destruct pre as [|y pre]; [injection E as <- <-; split; [reflexivity|]; exists [], o; split; [reflexivity | exact Ho]|].
      destruct pre; discriminate.
  - destruct (IH Eb) as [I1 I2]. split.
    + intros pre o' post E Ho'. destruct pre as [|x pre]; [injection E as <- <-; contradiction|].
      injection E as <- E. exact (I1 pre o' post E Ho').
    + intros pre post E. destruct pre as [|x pre]; [injection E as -> _; contradiction|].
      injection E as <- E. destruct (I2 pre post E) as [-> (pre' & o' & -> & Ho')]. split; [reflexivity|].
      exists (o :: pre'), o'. split; [reflexivity | exact Ho'].
Qed.

(* non-vacuity: two commands against a server whose answers arrive in two arbitrary chunks; each stream gets one
   untagged response, its own completion and then None; four frames in all, nothing left in the buffer *)
Definition example_server : list byte :=
  bs "* 1 EXISTS" ++ [13; 10] ++ bs "A0001 OK done" ++ [13; 10] ++ bs "* 2 EXISTS" ++ [13; 10] ++ bs "A0002 OK x" ++ [13; 10].
Example session_example :
  let io0 := mk_io [RChunk (firstn 7 example_server); RChunk (skipn 7 example_server)] [] [] [] in
  match session [(bs "NOOP", 5%nat); (bs "CHECK", 5%nat)] (client_init io0) with
  | (c, started, outs) =>
    map (fun os => (length os, length (frames_of os))) outs = [(3%nat, 2%nat); (3%nat, 2%nat)] /\
    rf_buf (c_rf c) = [] /\ List.concat (map (fun fs => List.concat (map fst (frames_of fs))) outs) = example_server
  end.
Proof. vm_compute. repeat split; reflexivity. Qed.

(* ---------------------------------------------------------------- frames end with CR LF *)
(* through the codec: whatever frame decode cuts off ends with CR LF (C09's theorem about every accepted response) *)
Lemma frame_ends_with_crlf_lemma buf raw v rest : decode buf = DFrame raw v rest -> exists w0, raw = w0 ++ [13; 10].
Proof.
  intro H. pose proof (decode_frame_shape buf raw v rest H) as Hshape. unfold decode in H.
  destruct (parse buf) as [r v' u| | | | |] eqn:E; try discriminate.
  destruct (accepted_response_ends_with_crlf_lemma buf r v' u E) as (w0 & Hw).
  destruct (_ <=? _); [|discriminate]. injection H as _ _ <-.
  exists w0. apply (app_inv_tail r). rewrite <- Hshape, Hw, <- app_assoc. reflexivity.
Qed.
