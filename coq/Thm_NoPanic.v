(* Generic theorem behind the "no panic" half of C01: no parser of a grammar whose actions are
   syntactically total (no unwrap / index / slice, only natives proved total), whose references all
   resolve and which has no untranslatable node, ever yields RPanic.  Definitions that need a
   semantic argument (a value invariant) are discharged by hand lemmas of the shape `hand`. *)
From TI Require Import Bytes Grammar Nom Interp InterpFacts.
From Coq Require Import Lia.

Lemma aexp_ind' (Q : aexp -> Prop)
  (HVar : forall x, Q (AVar x))
  (HField : forall e f, Q e -> Q (AField e f))
  (HProj : forall e k, Q e -> Q (AProj e k))
  (HCon : forall n args, Forall Q args -> Q (ACon n args))
  (HRec : forall n fields, Forall (fun fa => Q (snd fa)) fields -> Q (ARec n fields))
  (HTuple : forall es, Forall Q es -> Q (ATuple es))
  (HVec : forall es, Forall Q es -> Q (AVec es))
  (HBytes : forall b, Q (ABytes b))
  (HNum : forall n, Q (ANumLit n))
  (HBool : forall b, Q (ABoolLit b))
  (HSome : forall e, Q e -> Q (ASome e))
  (HNone : Q ANone)
  (HOptMap : forall x b e, Q b -> Q e -> Q (AOptMap x b e))
  (HIsSome : forall e, Q e -> Q (AIsSome e))
  (HUnwrap : forall e, Q e -> Q (AUnwrap e))
  (HIndex : forall e k, Q e -> Q (AIndex e k))
  (HSlice : forall e k, Q e -> Q (ASliceFrom e k))
  (HCall : forall n args, Forall Q args -> Q (ACall n args)) : forall e, Q e.
Proof.
  fix IH 1. intros [x|e f|e k|n args|n fields|es|es|b|n|b|e| |x b e|e|e|e k|e k|n args].
  - apply HVar. - apply HField, IH. - apply HProj, IH.
  - apply HCon. induction args; constructor; auto.
  - apply HRec. induction fields as [|[f a] fields IHf]; constructor; [cbn [snd]; apply IH|exact IHf].
  - apply HTuple. induction es; constructor; auto.
  - apply HVec. induction es; constructor; auto.
  - apply HBytes. - apply HNum. - apply HBool. - apply HSome, IH. - apply HNone.
  - apply HOptMap; apply IH. - apply HIsSome, IH. - apply HUnwrap, IH. - apply HIndex, IH. - apply HSlice, IH.
  - apply HCall. induction args; constructor; auto.
Qed.

Section Total.
Variable natf : string -> list val -> ares.
Variable total_native : string -> bool.
Hypothesis total_native_ok : forall n vs, total_native n = true -> natf n vs <> APanic.

Fixpoint aexp_total (e : aexp) : bool :=
  match e with
  | AUnwrap _ | AIndex _ _ | ASliceFrom _ _ => false
  | AVar _ | ABytes _ | ANumLit _ | ABoolLit _ | ANone => true
  | AField e1 _ | AProj e1 _ | ASome e1 | AIsSome e1 => aexp_total e1
  | AOptMap _ b e1 => aexp_total b && aexp_total e1
  | ACon _ args | ATuple args | AVec args => forallb aexp_total args
  | ARec _ fields => forallb (fun fa => aexp_total (snd fa)) fields
  | ACall n args => total_native n && forallb aexp_total args
  end.

Lemma eval_list_total (ev : aexp -> venv -> ares) args : Forall (fun a => forall env, ev a env <> APanic) args ->
  forall env, eval_list ev args env <> LPanic.
Proof.
  induction 1 as [|a args Ha Hargs IH]; intros env; cbn [eval_list]; [discriminate|].
  specialize (Ha env). destruct (ev a env); try discriminate; [|congruence].
  specialize (IH env). destruct (eval_list ev args env); try discriminate. congruence.
Qed.

Lemma eval_fields_total (ev : aexp -> venv -> ares) fields :
  Forall (fun fa => forall env, ev (snd fa) env <> APanic) fields ->
  forall env, eval_fields ev fields env <> FPanic.
Proof.
  induction 1 as [|[f a] fields Ha Hf IH]; intros env; cbn [eval_fields]; [discriminate|].
  cbn [snd] in Ha. specialize (Ha env). destruct (ev a env); try discriminate; [|congruence].
  specialize (IH env). destruct (eval_fields ev fields env); try discriminate. congruence.
Qed.

Lemma forallb_Forall_impl {A} (f : A -> bool) (Q : A -> Prop) l :
  Forall (fun a => f a = true -> Q a) l -> forallb f l = true -> Forall Q l.
Proof.
  induction 1 as [|a l Ha Hl IH]; intros H; constructor; cbn [forallb] in H; apply andb_true_iff in H; destruct H; auto.
Qed.

Theorem eval_total : forall e, aexp_total e = true -> forall env, eval natf e env <> APanic.
Proof.
  induction e using aexp_ind'; intros Ht env; cbn [aexp_total] in Ht; cbn [eval]; try discriminate.
  - specialize (IHe Ht env). destruct (eval natf e env); try discriminate. congruence.
  - specialize (IHe Ht env). destruct (eval natf e env); try discriminate. congruence.
  - pose proof (eval_list_total (eval natf) args (forallb_Forall_impl _ _ _ H Ht) env) as Hl.
    destruct (eval_list (eval natf) args env); cbn [of_lres]; try discriminate. congruence.
  - pose proof (eval_fields_total (eval natf) fields (forallb_Forall_impl _ _ _ H Ht) env) as Hl.
    destruct (eval_fields (eval natf) fields env); try discriminate. congruence.
  - pose proof (eval_list_total (eval natf) es (forallb_Forall_impl _ _ _ H Ht) env) as Hl.
    destruct (eval_list (eval natf) es env); cbn [of_lres]; try discriminate. congruence.
  - pose proof (eval_list_total (eval natf) es (forallb_Forall_impl _ _ _ H Ht) env) as Hl.
    destruct (eval_list (eval natf) es env); cbn [of_lres]; try discriminate. congruence.
  - specialize (IHe Ht env). destruct (eval natf e env); try discriminate. congruence.
  - apply andb_true_iff in Ht. destruct Ht as [Hb He]. specialize (IHe2 He env).
    destruct (eval natf e2 env) as [v| |]; try discriminate; [|congruence].
    destruct v; try discriminate. specialize (IHe1 Hb ((x, v) :: env)).
    destruct (eval natf e1 ((x, v) :: env)); try discriminate. congruence.
  - specialize (IHe Ht env). destruct (eval natf e env) as [v| |]; try discriminate; [|congruence].
    destruct v; discriminate.
  - apply andb_true_iff in Ht. destruct Ht as [Hn Ha].
    pose proof (eval_list_total (eval natf) args (forallb_Forall_impl _ _ _ H Ha) env) as Hl.
    destruct (eval_list (eval natf) args env); cbn [of_lres]; try discriminate; [|congruence].
    apply total_native_ok. exact Hn.
Qed.

(* ---------------------------------------------------------------- nodes *)
Variable env : N -> option G.
Variable bound : nat.

Definition node_np (g : G) : bool :=
  match g with
  | Map a _ | MapRes a _ => aexp_total (a_body a)
  | Ref f _ => match env f with Some _ => true | None => false end
  | Unsupported _ => false
  | _ => true
  end.

Lemma leaf_no_panic l i : leaf_run l i <> RPanic.
Proof.
  destruct l as [s|s|c|c|n c e|bits| |w]; cbn [leaf_run].
  - destruct (tag_scan eq_case s i); discriminate.
  - destruct (tag_scan eq_nocase1 s i); discriminate.
  - destruct (span c i) as [[x r]|]; discriminate.
  - destruct (span c i) as [[[|b x] r]|]; discriminate.
  - destruct (esc_scan n c e i); discriminate.
  - unfold number_p. destruct (span nom_is_digit i) as [[[|d ds] r]|]; try discriminate. destruct (_ <? _); discriminate.
  - unfold literal_p. destruct (tag_scan eq_case [123] i) as [t1 r1| |]; try discriminate.
    unfold number_p. destruct (span nom_is_digit r1) as [[[|d ds] r2]|]; try discriminate.
    destruct (_ <? _); try discriminate.
    destruct (tag_scan eq_case [125] r2) as [t3 r3| |]; try discriminate.
    destruct (tag_scan eq_case [13; 10] r3) as [t4 r4| |]; try discriminate.
    destruct (take_n _ r4) as [[data rest]|]; try discriminate.
    match goal with |- context[forallb ?f data] => destruct (forallb f data) end; discriminate.
  - discriminate.
Qed.

Lemma seq_no_panic (self : G -> P) gs d : Forall (fun g => forall i, self g d i <> RPanic) gs ->
  forall i acc u0, seq_run self gs d i acc u0 <> RPanic.
Proof.
  induction 1 as [|g gs Hg Hgs IH]; intros i acc u0; cbn [seq_run]; [discriminate|].
  specialize (Hg i). destruct (self g d i); try discriminate; [apply IH|congruence].
Qed.
Lemma alt_no_panic (self : G -> P) gs d : Forall (fun g => forall i, self g d i <> RPanic) gs ->
  forall i, alt_run self gs d i <> RPanic.
Proof.
  induction 1 as [|g gs Hg Hgs IH]; intros i; cbn [alt_run]; [discriminate|].
  specialize (Hg i). destruct (self g d i); try discriminate; [apply IH|congruence].
Qed.
Lemma many_no_panic p : (forall i, p i <> RPanic) -> forall n i acc u0, many_loop p n i acc u0 <> RPanic.
Proof.
  intros Hp n. induction n as [|n IHn]; intros i acc u0; cbn [many_loop]; [discriminate|].
  specialize (Hp i). destruct (p i) as [r v u| | | | |]; try discriminate; [|congruence].
  destruct (u =? 0); [discriminate|apply IHn].
Qed.
Lemma sep_no_panic s p : (forall i, s i <> RPanic) -> (forall i, p i <> RPanic) ->
  forall n i acc u0, sep_loop s p n i acc u0 <> RPanic.
Proof.
  intros Hs Hp n. induction n as [|n IHn]; intros i acc u0; cbn [sep_loop]; [discriminate|].
  pose proof (Hs i) as Hsi. destruct (s i) as [r1 v1 u1| | | | |]; try discriminate; [|congruence].
  destruct (u1 =? 0); [discriminate|]. pose proof (Hp r1) as Hpr.
  destruct (p r1); try discriminate; [apply IHn|congruence].
Qed.

(* a definition whose no-panic argument is semantic: it may use that its callees do not panic *)
Definition hand (g : G) : Prop :=
  forall n, (forall f' g' d' i', env f' = Some g' -> run natf env bound n g' d' i' <> RPanic) ->
  forall d i, run natf env bound (S n) g d i <> RPanic.

Hypothesis env_np : forall f g, env f = Some g -> all_nodes node_np g = true \/ hand g.

Lemma run_no_panic_nodes n : (forall f' g' d' i', env f' = Some g' -> run natf env bound n g' d' i' <> RPanic) ->
  forall g, all_nodes node_np g = true -> forall d i, run natf env bound (S n) g d i <> RPanic.
Proof.
  intros Hcallee. induction g using G_ind'; intros Hg dp i; rewrite run_S; cbn [step];
    apply all_nodes_inv in Hg; destruct Hg as [Hhere Hsub].
  - apply leaf_no_panic.
  - cbn [node_np] in Hhere. destruct (env f) as [g'|] eqn:E; [|discriminate]. eapply Hcallee; eauto.
  - destruct (Nat.leb m dp); [discriminate|]. apply IHg; assumption.
  - apply seq_no_panic. rewrite Forall_forall in *. intros g Hin j. apply H; auto.
  - apply alt_no_panic. rewrite Forall_forall in *. intros g Hin j. apply H; auto.
  - pose proof (IHg Hsub dp i) as Hr. destruct (run natf env bound (S n) g dp i); try discriminate. congruence.
  - pose proof (IHg Hsub dp i) as Hr. destruct (run natf env bound (S n) g dp i); try discriminate. congruence.
  - apply many_no_panic. intros j. apply IHg; assumption.
  - pose proof (IHg Hsub dp i) as Hr. destruct (run natf env bound (S n) g dp i); try discriminate; [|congruence].
    apply many_no_panic. intros j. apply IHg; assumption.
  - destruct Hsub as [Hs1 Hs2]. pose proof (IHg2 Hs2 dp i) as Hr.
    destruct (run natf env bound (S n) g2 dp i); try discriminate; [|congruence].
    apply sep_no_panic; intros j; [apply IHg1|apply IHg2]; assumption.
  - destruct Hsub as [Hs1 Hs2]. pose proof (IHg2 Hs2 dp i) as Hr.
    destruct (run natf env bound (S n) g2 dp i); try discriminate; [|congruence].
    apply sep_no_panic; intros j; [apply IHg1|apply IHg2]; assumption.
  - pose proof (IHg Hsub dp i) as Hr. destruct (run natf env bound (S n) g dp i); try discriminate. congruence.
  - pose proof (IHg Hsub dp i) as Hr. destruct (run natf env bound (S n) g dp i) as [r1 v1 u1| | | | |]; try discriminate; [|congruence].
    cbn [node_np] in Hhere. pose proof (eval_total _ Hhere (bind (a_pat a) v1 [])) as Ha.
    unfold act. destruct (eval natf (a_body a) (bind (a_pat a) v1 [])); try discriminate. congruence.
  - pose proof (IHg Hsub dp i) as Hr. destruct (run natf env bound (S n) g dp i) as [r1 v1 u1| | | | |]; try discriminate; [|congruence].
    cbn [node_np] in Hhere. pose proof (eval_total _ Hhere (bind (a_pat a) v1 [])) as Ha.
    unfold act. destruct (eval natf (a_body a) (bind (a_pat a) v1 [])); try discriminate. congruence.
  - cbn [node_np] in Hhere. discriminate.
Qed.

Theorem run_no_panic : forall n f g d i, env f = Some g -> run natf env bound n g d i <> RPanic.
Proof.
  induction n as [|n IHn]; intros f g d i Hf; [rewrite run_0; discriminate|].
  destruct (env_np f g Hf) as [Hnodes|Hhand].
  - apply run_no_panic_nodes; [|exact Hnodes]. intros f' g' d' i' Hf'. eapply IHn; eauto.
  - apply Hhand. intros f' g' d' i' Hf'. eapply IHn; eauto.
Qed.
End Total.
