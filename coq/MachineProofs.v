(* M9 proofs: the reference typestate machine emits exactly the RFC rendering of what was asked for;
   the rendering is derivable from the RFC grammar and is read back by an independent reader. *)
From TI Require Import Bytes Builders BuildersProofs DecFacts Machine.
From Coq Require Import Lia.
Local Open Scope N_scope.
Local Open Scope list_scope.

Definition fstate_b (uid : bool) (s : fstate) : bstate := ("FetchCommand"%string, state_name s, render_state uid s).

Ltac norm_app := repeat rewrite <- app_assoc; cbn [app]; repeat (progress (repeat rewrite <- app_assoc; cbn [app])).
(* `byte` is a transparent name for N; rewriting must not be blocked by which of the two an implicit argument shows *)
Ltac rw H := let H' := fresh in pose proof H as H'; change byte with N in H'; change byte with N; rewrite H'; clear H'.

Lemma render_more_snoc l i : render_more (l ++ [i]) = render_more l ++ [44] ++ render_item i.
Proof.
  induction l as [|x l IH]; cbn [render_more app].
  - rewrite app_nil_r. reflexivity.
  - rewrite IH. norm_app. reflexivity.
Qed.
Lemma render_attrs_snoc l a : render_attrs (l ++ [a]) = render_attrs l ++ [32] ++ kw_of "Attribute" a.
Proof.
  induction l as [|x l IH]; cbn [render_attrs app].
  - rewrite app_nil_r. reflexivity.
  - rewrite IH. norm_app. reflexivity.
Qed.

Opaque to_dec.

Lemma step_sim uid s c :
  step_call ref_machine (fstate_b uid s) (generic c) = option_map (fstate_b uid) (astep s c).
Proof.
  destruct s, c; try reflexivity.
  all: unfold fstate_b, step_call, generic; cbn [fst snd state_name ref_machine m_trans m_kw].
  all: cbn -[render_more render_attrs render_item kw_of known verb app kw_lookup].
  all: unfold known.
  all: cbn [option_map astep state_name render_state render_item render_items render_cs].
  all: rewrite ?render_more_snoc, ?render_attrs_snoc; unfold kw_of; cbn [render_more render_attrs render_item].
  all: repeat match goal with |- context [kw_lookup ref_kw ?t ?k] => let E := fresh "E" in destruct (kw_lookup ref_kw t k) eqn:E end.
  all: cbn [option_map astep state_name render_state render_item render_items render_cs].
  all: rewrite ?render_more_snoc, ?render_attrs_snoc; unfold kw_of; cbn [render_more render_attrs render_item].
  all: repeat match goal with H : kw_lookup _ _ _ = _ |- _ => rewrite H end.
  all: norm_app; rewrite ?app_nil_r; reflexivity.
Qed.

Lemma run_calls_sim uid : forall cs s,
  run_calls ref_machine (fstate_b uid s) (map generic cs) = option_map (fstate_b uid) (asteps s cs).
Proof.
  induction cs as [|c cs IH]; intro s; [reflexivity|].
  cbn [map run_calls asteps]. rewrite step_sim.
  destruct (astep s c) as [s'|]; [|reflexivity]. cbn [option_map]. apply IH.
Qed.

Lemma finish_sim uid s :
  finish ref_machine (fstate_b uid s) = option_map (fun r => (render_fetch r, "None"%string)) (afinish uid s).
Proof.
  destruct s; try reflexivity; unfold fstate_b, finish; cbn -[render_more render_attrs render_item kw_of verb app];
    unfold render_fetch; cbn [fr_uid fr_first fr_more fr_items fr_cs render_items render_cs];
    norm_app; rewrite ?app_nil_r; reflexivity.
Qed.

Definition fetch_ctor (uid : bool) : string := if uid then "uid_fetch"%string else "fetch"%string.

(* every chain of FETCH builder calls: admitted by the typestates iff it denotes a request, and then the bytes
   are exactly the RFC rendering of that request *)
Theorem fetch_chain_exact uid cs :
  run_chain ref_machine (fetch_ctor uid) [] (map generic cs) =
  option_map (fun r => (render_fetch r, "None"%string)) (denote uid cs).
Proof.
  unfold run_chain, denote.
  assert (Hs : start ref_machine (fetch_ctor uid) [] = Some (inl (fstate_b uid FEmpty))) by (destruct uid; reflexivity).
  rewrite Hs, run_calls_sim. destruct (asteps FEmpty cs) as [s|]; [|reflexivity].
  cbn [option_map]. apply finish_sim.
Qed.

(* ---------------------------------------------------------------- derivability from the RFC grammar *)
Lemma nz_to_dec n : 0 < n -> nz_number (to_dec n).
Proof. intro H. destruct (to_dec_nz n H) as (d & ds & -> & Hd & Hds). constructor; assumption. Qed.
Lemma digits1_to_dec n : digits1 (to_dec n).
Proof. destruct (to_dec_nonempty n) as (d & ds & -> & Hd & Hds). constructor; assumption. Qed.

Lemma seq_elem_item i : item_ok i = true -> seq_elem (render_item i).
Proof.
  destruct i as [n | a b | a]; cbn [item_ok render_item]; intro H.
  - apply N.ltb_lt in H. apply se_one, sn_nz, nz_to_dec, H.
  - apply andb_true_iff in H. destruct H as [Ha Hb]. apply N.ltb_lt in Ha, Hb.
    apply se_range; apply sn_nz, nz_to_dec; assumption.
  - apply N.ltb_lt in H. change (to_dec a ++ [58; 42]) with (to_dec a ++ [58] ++ [42]).
    apply se_range; [apply sn_nz, nz_to_dec, H | apply sn_star].
Qed.

Lemma sequence_set_render : forall more f, item_ok f = true -> forallb item_ok more = true ->
  sequence_set (render_item f ++ render_more more).
Proof.
  induction more as [|i more IH]; intros f Hf Hm.
  - cbn [render_more]. rewrite app_nil_r. apply ss_one, seq_elem_item, Hf.
  - cbn [forallb] in Hm. apply andb_true_iff in Hm. destruct Hm as [Hi Hm].
    cbn [render_more]. apply ss_cons; [apply seq_elem_item, Hf | apply IH; assumption].
Qed.

Lemma assoc_in {A} k (l : list (string * A)) v : assoc k l = Some v -> In (k, v) l.
Proof.
  induction l as [|[k0 v0] l IH]; [discriminate|]. cbn [assoc].
  destruct (String.eqb k k0) eqn:E.
  - intro H. injection H as <-. apply String.eqb_eq in E. subst k0. left; reflexivity.
  - intro H. right. exact (IH H).
Qed.

Definition attr_table : list (string * string) := match assoc "Attribute"%string ref_kw with Some t => t | None => [] end.
Definition macro_table : list (string * string) := match assoc "AttrMacro"%string ref_kw with Some t => t | None => [] end.

Lemma lookup_attr a s : kw_lookup ref_kw "Attribute" a = Some s -> In (a, s) attr_table.
Proof. unfold kw_lookup. change (assoc "Attribute"%string ref_kw) with (Some attr_table). apply assoc_in. Qed.
Lemma lookup_macro a s : kw_lookup ref_kw "AttrMacro" a = Some s -> In (a, s) macro_table.
Proof. unfold kw_lookup. change (assoc "AttrMacro"%string ref_kw) with (Some macro_table). apply assoc_in. Qed.

Lemma attr_keywords_rfc : forall a s, In (a, s) attr_table -> In s rfc_fetch_att.
Proof.
  assert (H : forallb (fun ks => existsb (String.eqb (snd ks)) rfc_fetch_att) attr_table = true) by (vm_compute; reflexivity).
  intros a s Hin. rewrite forallb_forall in H. specialize (H (a, s) Hin). cbn [snd] in H.
  apply existsb_exists in H. destruct H as (x & Hx & E). apply String.eqb_eq in E. subst x. exact Hx.
Qed.

Lemma fetch_att_kw a : known "Attribute" a = true -> fetch_att (kw_of "Attribute" a).
Proof.
  unfold known, kw_of. destruct (kw_lookup ref_kw "Attribute" a) as [s|] eqn:E; [|discriminate]. intros _.
  apply fa_intro. exact (attr_keywords_rfc a s (lookup_attr a s E)).
Qed.

Lemma fetch_att_list_render : forall more a, known "Attribute" a = true -> forallb (known "Attribute") more = true ->
  fetch_att_list (kw_of "Attribute" a ++ render_attrs more).
Proof.
  induction more as [|b more IH]; intros a Ha Hm.
  - cbn [render_attrs]. rewrite app_nil_r. apply fal_one, fetch_att_kw, Ha.
  - cbn [forallb] in Hm. apply andb_true_iff in Hm. destruct Hm as [Hb Hm].
    cbn [render_attrs]. apply fal_cons; [apply fetch_att_kw, Ha | apply IH; assumption].
Qed.

Lemma fetch_what_macro m : known "AttrMacro" m = true -> fetch_what (kw_of "AttrMacro" m).
Proof.
  unfold known, kw_of. destruct (kw_lookup ref_kw "AttrMacro" m) as [s|] eqn:E; [|discriminate]. intros _.
  apply lookup_macro in E. cbn in E.
  destruct E as [E | [E | [E | []]]]; injection E as _ <-; [apply fw_all | apply fw_fast | apply fw_full].
Qed.

Lemma fetch_what_render it :
  match it with IMacro m => known "AttrMacro" m | IAttrs a more => known "Attribute" a && forallb (known "Attribute") more end = true ->
  fetch_what (render_items it).
Proof.
  destruct it as [m | a more]; cbn [render_items]; intro H.
  - apply fetch_what_macro, H.
  - apply andb_true_iff in H. destruct H as [Ha Hm].
    replace ([40] ++ kw_of "Attribute" a ++ render_attrs more ++ [41]) with ([40] ++ (kw_of "Attribute" a ++ render_attrs more) ++ [41])
      by (norm_app; reflexivity).
    apply fw_list, fetch_att_list_render; assumption.
Qed.

Theorem render_fetch_grammatical r : req_ok r = true -> uid_or_fetch_cmd (render_fetch r).
Proof.
  destruct r as [uid f more it cs]. unfold req_ok, render_fetch. cbn [fr_uid fr_first fr_more fr_items fr_cs].
  intro H. apply andb_true_iff in H. destruct H as [H Hit]. apply andb_true_iff in H. destruct H as [Hf Hm].
  pose proof (sequence_set_render more f Hf Hm) as Hset. pose proof (fetch_what_render it Hit) as Hw.
  assert (Hc : fetch_cmd (bs "FETCH " ++ render_item f ++ render_more more ++ [32] ++ render_items it ++ render_cs cs)).
  { destruct cs as [n|]; cbn [render_cs].
    - replace (bs "FETCH " ++ render_item f ++ render_more more ++ [32] ++ render_items it ++ bs " (CHANGEDSINCE " ++ to_dec n ++ [41])
        with (bs "FETCH " ++ (render_item f ++ render_more more) ++ [32] ++ render_items it ++ [32] ++ ([40] ++ (bs "CHANGEDSINCE " ++ to_dec n) ++ [41]))
        by (cbn [bs N_of_ascii]; norm_app; reflexivity).
      apply fc_mod; [exact Hset | exact Hw |]. apply fms_one, fm_cs, digits1_to_dec.
    - rewrite app_nil_r.
      replace (bs "FETCH " ++ render_item f ++ render_more more ++ [32] ++ render_items it)
        with (bs "FETCH " ++ (render_item f ++ render_more more) ++ [32] ++ render_items it) by (norm_app; reflexivity).
      apply fc_plain; assumption. }
  destruct uid; cbn [verb].
  - change (bs "UID FETCH ") with (bs "UID " ++ bs "FETCH "). rewrite <- app_assoc. apply uf_uid, Hc.
  - apply uf_plain, Hc.
Qed.

(* ---------------------------------------------------------------- the independent reader reads the request back *)
Definition nodigit_head (r : list byte) : Prop := match r with [] => True | c :: _ => is_digit c = false end.

Lemma span_digits_app ds r : forallb is_digit ds = true -> nodigit_head r -> span_digits (ds ++ r) = (ds, r).
Proof.
  induction ds as [|d ds IH]; intros Hd Hr.
  - cbn [app]. destruct r as [|c r]; [reflexivity|]. cbn [span_digits]. cbn in Hr. rewrite Hr. reflexivity.
  - cbn [forallb] in Hd. apply andb_true_iff in Hd. destruct Hd as [Hd Hds].
    cbn [app span_digits]. rewrite Hd, (IH Hds Hr). reflexivity.
Qed.

Lemma read_number_to_dec n r : nodigit_head r -> read_number (to_dec n ++ r) = Some (n, r).
Proof.
  intro Hr. unfold read_number. rewrite (span_digits_app _ _ (to_dec_digits n) Hr).
  destruct (to_dec_nonempty n) as (d & ds & E & _ & _). rewrite <- (dec_to_dec n) at 2. rewrite E. reflexivity.
Qed.

Definition item_end (r : list byte) : Prop := match r with [] => True | c :: _ => is_digit c = false /\ c <> 58 end.

Lemma item_end_nodigit r : item_end r -> nodigit_head r.
Proof. destruct r; [trivial|]. intros [H _]. exact H. Qed.

Lemma is_digit_false_of c : is_digit c = true -> c <> 58 /\ c <> 42 /\ c <> 44 /\ c <> 32 /\ c <> 41.
Proof.
  unfold is_digit. intro H. apply andb_true_iff in H. destruct H as [A B]. apply N.leb_le in A, B. repeat split; lia.
Qed.

Lemma read_item_render i r : item_end r -> read_item (render_item i ++ r) = Some (i, r).
Proof.
  intro Hr. pose proof (item_end_nodigit r Hr) as Hn.
  destruct i as [n | a b | a]; cbn [render_item]; unfold read_item.
  - rewrite (read_number_to_dec n r Hn).
    destruct r as [|c r]; [reflexivity|]. destruct Hr as [_ Hc].
    apply N.eqb_neq in Hc. rewrite Hc. reflexivity.
  - norm_app. rewrite read_number_to_dec by reflexivity.
    rewrite N.eqb_refl.
    destruct (to_dec_nonempty b) as (d & ds & E & Hd & Hds).
    destruct (is_digit_false_of d Hd) as (_ & Hd42 & _).
    assert (Hread : read_number (to_dec b ++ r) = Some (b, r)) by (apply read_number_to_dec; exact Hn).
    rewrite E in *. cbn [app] in *. apply N.eqb_neq in Hd42. rewrite Hd42.
    match goal with |- match ?x with _ => _ end = _ => replace x with (Some (b, r)) by (symmetry; exact Hread) end. reflexivity.
  - norm_app. rewrite read_number_to_dec by reflexivity. reflexivity.
Qed.

Definition more_end (r : list byte) : Prop := match r with [] => True | c :: _ => is_digit c = false /\ c <> 58 /\ c <> 44 end.

Lemma render_more_head more r : more_end r -> item_end (render_more more ++ r).
Proof.
  intro H. destruct more as [|i more]; cbn [render_more app].
  - destruct r as [|c r]; [exact I|]. destruct H as (A & B & _). split; assumption.
  - split; [reflexivity | discriminate].
Qed.

Lemma read_more_render : forall more fuel r, more_end r -> (List.length more < fuel)%nat ->
  read_more fuel (render_more more ++ r) = Some (more, r).
Proof.
  induction more as [|i more IH]; intros fuel r Hr Hf; (destruct fuel as [|f]; [inversion Hf|]).
  - cbn [render_more app read_more]. destruct r as [|c r]; [reflexivity|].
    destruct Hr as (_ & _ & Hc). apply N.eqb_neq in Hc. rewrite Hc. reflexivity.
  - cbn [render_more]. norm_app. cbn [read_more]. rewrite N.eqb_refl.
    rewrite (read_item_render i (render_more more ++ r) (render_more_head more r Hr)).
    rewrite (IH f r Hr); [reflexivity | cbn [List.length] in Hf; lia].
Qed.

Lemma render_more_length more : (List.length more <= List.length (render_more more))%nat.
Proof.
  induction more as [|i more IH]; [apply le_n|]. cbn [render_more List.length app].
  rewrite app_length. lia.
Qed.

(* keywords *)
Definition word_end (r : list byte) : Prop := match r with [] => True | c :: _ => c = 32 \/ c = 41 end.
Definition no_sep (w : list byte) : bool := forallb (fun b => negb ((b =? 32) || (b =? 41))) w.

Lemma span_word_app w r : no_sep w = true -> word_end r -> span_word (w ++ r) = (w, r).
Proof.
  induction w as [|b w IH]; intros Hw Hr.
  - cbn [app]. destruct r as [|c r]; [reflexivity|]. cbn [span_word].
    destruct Hr as [-> | ->]; reflexivity.
  - cbn [no_sep forallb] in Hw. apply andb_true_iff in Hw. destruct Hw as [Hb Hw].
    cbn [app span_word]. apply negb_true_iff in Hb. rewrite Hb, (IH Hw Hr). reflexivity.
Qed.

Lemma table_facts t : 
  forallb (fun ks => no_sep (bs (snd ks)) && match name_of_kw t (bs (snd ks)) with Some k => String.eqb k (fst ks) | None => false end) t = true ->
  forall a s, In (a, s) t -> no_sep (bs s) = true /\ name_of_kw t (bs s) = Some a.
Proof.
  intros H a s Hin. rewrite forallb_forall in H. specialize (H (a, s) Hin). cbn [fst snd] in H.
  apply andb_true_iff in H. destruct H as [A B]. split; [exact A|].
  destruct (name_of_kw t (bs s)) as [k|]; [|discriminate]. apply String.eqb_eq in B. subst k. reflexivity.
Qed.

Lemma attr_table_facts : forall a s, In (a, s) attr_table -> no_sep (bs s) = true /\ name_of_kw attr_table (bs s) = Some a.
Proof. apply table_facts. vm_compute. reflexivity. Qed.
Lemma macro_table_facts : forall a s, In (a, s) macro_table -> no_sep (bs s) = true /\ name_of_kw macro_table (bs s) = Some a.
Proof. apply table_facts. vm_compute. reflexivity. Qed.

Lemma read_kw_attr a r : known "Attribute" a = true -> word_end r ->
  read_kw "Attribute" (kw_of "Attribute" a ++ r) = Some (a, r).
Proof.
  unfold known, kw_of. destruct (kw_lookup ref_kw "Attribute" a) as [s|] eqn:E; [|discriminate]. intros _ Hr.
  destruct (attr_table_facts a s (lookup_attr a s E)) as [Hs Hn].
  unfold read_kw. rewrite (span_word_app _ _ Hs Hr).
  change (assoc "Attribute"%string ref_kw) with (Some attr_table). cbv iota beta. rewrite Hn. reflexivity.
Qed.
Lemma read_kw_macro a r : known "AttrMacro" a = true -> word_end r ->
  read_kw "AttrMacro" (kw_of "AttrMacro" a ++ r) = Some (a, r).
Proof.
  unfold known, kw_of. destruct (kw_lookup ref_kw "AttrMacro" a) as [s|] eqn:E; [|discriminate]. intros _ Hr.
  destruct (macro_table_facts a s (lookup_macro a s E)) as [Hs Hn].
  unfold read_kw. rewrite (span_word_app _ _ Hs Hr).
  change (assoc "AttrMacro"%string ref_kw) with (Some macro_table). cbv iota beta. rewrite Hn. reflexivity.
Qed.

Lemma read_attrs_render : forall more fuel r, forallb (known "Attribute") more = true -> (List.length more < fuel)%nat ->
  read_attrs fuel (render_attrs more ++ [41] ++ r) = Some (more, r).
Proof.
  induction more as [|a more IH]; intros fuel r Hk Hf; (destruct fuel as [|f]; [inversion Hf|]).
  - reflexivity.
  - cbn [forallb] in Hk. apply andb_true_iff in Hk. destruct Hk as [Ha Hk].
    cbn [render_attrs]. norm_app. cbn [read_attrs]. rewrite N.eqb_refl.
    rewrite (read_kw_attr a (render_attrs more ++ 41 :: r) Ha).
    + change (41 :: r) with ([41] ++ r). rewrite (IH f r Hk); [reflexivity | cbn [List.length] in Hf; lia].
    + destruct more; cbn [render_attrs app]; [right | left]; reflexivity.
Qed.

Lemma render_attrs_length more : (List.length more <= List.length (render_attrs more))%nat.
Proof.
  induction more as [|i more IH]; [apply le_n|]. cbn [render_attrs List.length app]. rewrite app_length. lia.
Qed.

Lemma kw_head_not_paren a : known "AttrMacro" a = true ->
  exists c w, kw_of "AttrMacro" a = c :: w /\ c <> 40.
Proof.
  unfold known, kw_of. destruct (kw_lookup ref_kw "AttrMacro" a) as [s|] eqn:E; [|discriminate]. intros _.
  apply lookup_macro in E. cbn in E.
  destruct E as [E | [E | [E | []]]]; injection E as _ <-; cbn; eexists _, _; (split; [reflexivity | discriminate]).
Qed.

Lemma read_items_render it r :
  match it with IMacro m => known "AttrMacro" m | IAttrs a more => known "Attribute" a && forallb (known "Attribute") more end = true ->
  word_end r -> read_items (render_items it ++ r) = Some (it, r).
Proof.
  destruct it as [m | a more]; cbn [render_items]; intros H Hr.
  - destruct (kw_head_not_paren m H) as (c & w & E & Hc).
    unfold read_items. rewrite E. cbn [app]. apply N.eqb_neq in Hc. rewrite Hc.
    change (c :: w ++ r) with ((c :: w) ++ r). rewrite <- E. rewrite (read_kw_macro m r H Hr). reflexivity.
  - apply andb_true_iff in H. destruct H as [Ha Hm]. norm_app. unfold read_items. rewrite N.eqb_refl.
    rw (read_kw_attr a (render_attrs more ++ 41 :: r) Ha).
    + change (41 :: r) with ([41] ++ r). rewrite (read_attrs_render more _ r Hm); [reflexivity|].
      rewrite app_length. pose proof (render_attrs_length more). change byte with N in *. lia.
    + destruct more; cbn [render_attrs app]; [right | left]; reflexivity.
Qed.

Lemma strip_app p l : strip p (p ++ l) = Some l.
Proof. induction p as [|x p IH]; [reflexivity|]. cbn [app strip]. rewrite N.eqb_refl. exact IH. Qed.

Lemma read_cs_render cs : read_cs (render_cs cs) = Some cs.
Proof.
  destruct cs as [n|]; [|reflexivity]. cbn [render_cs]. unfold read_cs.
  assert (Hs : strip (bs " (CHANGEDSINCE ") (bs " (CHANGEDSINCE " ++ to_dec n ++ [41]) = Some (to_dec n ++ [41])) by apply strip_app.
  destruct (bs " (CHANGEDSINCE " ++ to_dec n ++ [41]) eqn:E; [discriminate E|]. rewrite Hs.
  rewrite (read_number_to_dec n [41]) by reflexivity. reflexivity.
Qed.

Lemma render_cs_word_end cs : word_end (render_cs cs).
Proof. destruct cs; [left; reflexivity | exact I]. Qed.

Theorem read_fetch_render r : req_ok r = true -> read_fetch (render_fetch r) = Some r.
Proof.
  destruct r as [uid f more it cs]. unfold req_ok, render_fetch. cbn [fr_uid fr_first fr_more fr_items fr_cs].
  intro H. apply andb_true_iff in H. destruct H as [H Hit]. apply andb_true_iff in H. destruct H as [Hf Hm].
  set (tail := render_item f ++ render_more more ++ [32] ++ render_items it ++ render_cs cs).
  assert (Hi : read_item tail = Some (f, render_more more ++ [32] ++ render_items it ++ render_cs cs)).
  { unfold tail. apply read_item_render. apply render_more_head. repeat split; discriminate. }
  assert (Hmore : read_more (S (List.length (render_more more ++ [32] ++ render_items it ++ render_cs cs)))
                            (render_more more ++ [32] ++ render_items it ++ render_cs cs)
                  = Some (more, [32] ++ render_items it ++ render_cs cs)).
  { apply read_more_render; [repeat split; discriminate|]. rewrite app_length. pose proof (render_more_length more). change byte with N in *. lia. }
  assert (Hits : read_items (render_items it ++ render_cs cs) = Some (it, render_cs cs))
    by (apply read_items_render; [exact Hit | apply render_cs_word_end]).
  assert (Hend : forall u, read_fetch (verb u ++ tail) = Some (mk_fetch_req u f more it cs)).
  { intro u. unfold read_fetch.
    assert (Hu : (match strip (bs "UID ") (verb u ++ tail) with Some r => (true, r) | None => (false, verb u ++ tail) end)
                 = (u, bs "FETCH " ++ tail)).
    { destruct u; cbn [verb].
      - change (bs "UID FETCH ") with (bs "UID " ++ bs "FETCH "). rewrite <- app_assoc, strip_app. reflexivity.
      - reflexivity. }
    rewrite Hu, strip_app, Hi, Hmore. cbn [app]. rewrite N.eqb_refl, Hits, read_cs_render. reflexivity. }
  exact (Hend uid).
Qed.

(* consequently the rendering is injective on well-formed requests: different requests give different lines *)
Corollary render_fetch_injective r1 r2 : req_ok r1 = true -> req_ok r2 = true -> render_fetch r1 = render_fetch r2 -> r1 = r2.
Proof.
  intros H1 H2 E. pose proof (read_fetch_render r1 H1) as A. rewrite E, (read_fetch_render r2 H2) in A. injection A as ->. reflexivity.
Qed.

(* ---------------------------------------------------------------- SELECT / EXAMINE / LOGIN / LIST / CHECK / CLOSE *)
Definition of_bres (r : bres) (next : string) : option (list byte * string) :=
  match r with BOk a => Some (a, next) | _ => None end.

Lemma emit_quoted1 (v : string) x m :
  emit ref_kw [(x, AStr m)] [PLit v; PQuoted x; PLit """"] =
  match quoted_string m with QOk q => Some (bs v ++ q ++ [34]) | _ => None end.
Proof.
  cbn [emit eval_piece assoc]. rewrite String.eqb_refl.
  destruct (quoted_string m); try reflexivity.
Qed.

Theorem simple_commands_exact :
  run_chain ref_machine "check" [] [] = Some (bs "CHECK", "None"%string) /\
  run_chain ref_machine "close" [] [] = Some (bs "CLOSE", "Some(State::Authenticated)"%string).
Proof. split; reflexivity. Qed.

Theorem login_list_exact u p :
  run_chain ref_machine "login" [AStr u; AStr p] [] = of_bres (login u p) "Some(State::Authenticated)" /\
  run_chain ref_machine "list" [AStr u; AStr p] [] = of_bres (list_cmd u p) "None".
Proof.
  split; unfold run_chain, start, login, list_cmd, build2, with_q; cbn -[quoted_string app];
    destruct (quoted_string u); try reflexivity; destruct (quoted_string p); try reflexivity;
    cbn [of_bres]; unfold dq; rewrite ?app_nil_r; cbn [app]; norm_app; reflexivity.
Qed.

Lemma no_trans_from_params meth : find_trans "SelectCommand" "Params" meth ref_trans = None.
Proof. reflexivity. Qed.

Definition select_spec (verb : list byte) (m : list byte) (calls : list (string * list carg)) : option (list byte * string) :=
  match quoted_string m with
  | QOk q =>
    match calls with
    | [] => Some (verb ++ 32 :: dq q, "Some(State::Selected)"%string)
    | [(meth, [])] => if String.eqb meth "cond_store" then Some (verb ++ 32 :: dq q ++ bs " (CONDSTORE)", "Some(State::Selected)"%string) else None
    | _ => None
    end
  | _ => None
  end.

Lemma select_like (name : string) (verb : string) m calls :
  find_ctor name ref_ctors = Some (mk_ctor name [("mailbox"%string, "&str"%string)] [PLit (verb ++ " """)%string; PQuoted "mailbox"; PLit """"] "SelectCommand" "NoParams" "") ->
  bs (verb ++ " """)%string = bs verb ++ [32; 34] ->
  run_chain ref_machine name [AStr m] calls = select_spec (bs verb) m calls.
Proof.
  intros Hc Hv. unfold run_chain, start. cbn [ref_machine m_ctors]. rewrite Hc.
  cbn [c_params c_pieces c_ty c_state c_next bind_params m_kw]. rewrite emit_quoted1. unfold select_spec.
  destruct (quoted_string m) as [q| |]; try reflexivity.
  cbn [String.eqb Ascii.eqb Bool.eqb]. rewrite Hv.
  destruct calls as [|[meth args] cs].
  - cbn -[app]. rewrite app_nil_r. unfold dq. norm_app. reflexivity.
  - cbn [run_calls step_call fst snd ref_machine m_trans].
    assert (Hf : find_trans "SelectCommand" "NoParams" meth ref_trans =
                 if String.eqb meth "cond_store" then Some (mk_trans "SelectCommand" "NoParams" "cond_store" [] [PLit " (CONDSTORE"] "Params") else None).
    { cbn [find_trans ref_trans t_ty t_from t_meth]. cbn [String.eqb Ascii.eqb Bool.eqb andb]. destruct (String.eqb meth "cond_store"); reflexivity. }
    rewrite Hf. destruct (String.eqb meth "cond_store") eqn:Em.
    + cbn [t_params t_pieces t_to]. destruct args as [|a args]; [|destruct cs; reflexivity].
      cbn [bind_params m_kw emit eval_piece]. 
      destruct cs as [|[meth2 args2] cs].
      * cbn -[app]. unfold dq. norm_app. rewrite ?app_nil_r. reflexivity.
      * cbn [run_calls step_call fst snd ref_machine m_trans]. rewrite no_trans_from_params. reflexivity.
    + destruct args; [|destruct cs]; try reflexivity. destruct cs; reflexivity.
Qed.

Theorem select_chain_exact m calls :
  run_chain ref_machine "select" [AStr m] calls = select_spec (bs "SELECT") m calls /\
  run_chain ref_machine "examine" [AStr m] calls = select_spec (bs "EXAMINE") m calls.
Proof. split; apply select_like; reflexivity. Qed.

(* without cond_store the machine agrees with the C10 model of select / examine *)
Corollary select_plain_is_builders m :
  run_chain ref_machine "select" [AStr m] [] = of_bres (select m) "Some(State::Selected)" /\
  run_chain ref_machine "examine" [AStr m] [] = of_bres (examine m) "Some(State::Selected)".
Proof.
  destruct (select_chain_exact m []) as [A B]. rewrite A, B. unfold select_spec, select, examine, build1, with_q.
  destruct (quoted_string m); split; reflexivity.
Qed.

(* the quoted form of an ASCII text without CR / LF / NUL is an RFC 3501 `quoted` string *)
Lemma quoted_body_escape s : forallb is_text_char s = true -> quoted_body (escape s).
Proof.
  induction s as [|c s IH]; intro H; [apply qb_nil|].
  cbn [forallb] in H. apply andb_true_iff in H. destruct H as [Hc Hs].
  unfold escape. cbn [flat_map]. fold (escape s). destruct (is_qspecial c) eqn:E.
  - cbn [app]. apply qb_esc; [exact E | exact (IH Hs)].
  - cbn [app]. apply qb_plain; [exact Hc | exact E | exact (IH Hs)].
Qed.

Lemma text_char_no_crlf s : forallb is_text_char s = true -> ~ In 13 s /\ ~ In 10 s.
Proof.
  intro H. rewrite forallb_forall in H. split; intro Hin; specialize (H _ Hin); vm_compute in H; discriminate.
Qed.

Lemma text_char_utf8 : forall s q, forallb is_text_char s = true -> (q = U0) -> utf8_run q s = U0.
Proof.
  induction s as [|c s IH]; intros q H ->; [reflexivity|].
  cbn [forallb] in H. apply andb_true_iff in H. destruct H as [Hc Hs].
  unfold utf8_run. cbn [fold_left]. fold (utf8_run (utf8_step U0 c) s). apply IH; [exact Hs|].
  unfold is_text_char in Hc. apply andb_true_iff in Hc. destruct Hc as [Hc _]. apply andb_true_iff in Hc. destruct Hc as [Hc _].
  apply andb_true_iff in Hc. destruct Hc as [_ Hc]. unfold utf8_step. rewrite Hc. reflexivity.
Qed.

Lemma quoted_of_text s : forallb is_text_char s = true -> exists q, quoted_string s = QOk q /\ quoted (dq q).
Proof.
  intro H. destruct (text_char_no_crlf s H) as [H13 H10].
  assert (Hu : utf8_valid s = true) by (unfold utf8_valid; rewrite (text_char_utf8 s U0 H eq_refl); reflexivity).
  exists (escape s). split; [exact (quoted_string_ok_lemma s Hu H13 H10)|]. unfold dq.
  change (34 :: escape s ++ [34]) with ([34] ++ escape s ++ [34]). apply q_intro, quoted_body_escape, H.
Qed.

Theorem select_chain_grammatical verb m calls out next :
  verb = bs "SELECT" \/ verb = bs "EXAMINE" -> forallb is_text_char m = true ->
  select_spec verb m calls = Some (out, next) -> select_cmd out.
Proof.
  intros Hv Hm. destruct (quoted_of_text m Hm) as (q & Hq & Hquoted). unfold select_spec. rewrite Hq.
  destruct calls as [|[meth args] cs].
  - intro H. injection H as <- _. exact (sel_plain verb (dq q) Hv Hquoted).
  - destruct args; [|discriminate]. destruct cs; [|discriminate]. destruct (String.eqb meth "cond_store"); [|discriminate].
    intro H. injection H as <- _. exact (sel_param verb (dq q) Hv Hquoted).
Qed.

Theorem login_list_grammatical verb a b out :
  forallb is_text_char a = true -> forallb is_text_char b = true ->
  build2 verb a b = BOk out -> two_string_cmd verb out.
Proof.
  intros Ha Hb. destruct (quoted_of_text a Ha) as (qa & Hqa & HA). destruct (quoted_of_text b Hb) as (qb & Hqb & HB).
  unfold build2, with_q. rewrite Hqa, Hqb. intro H. injection H as <-.
  exact (ts_intro verb (dq qa) (dq qb) HA HB).
Qed.
