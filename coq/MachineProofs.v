(* M9 proofs: the reference typestate machine emits exactly the RFC rendering of what was asked for;
   the rendering is derivable from the RFC grammar and is read back by an independent reader. *)
From TI Require Import Bytes Builders DecFacts Machine.
From Coq Require Import Lia.
Local Open Scope N_scope.
Local Open Scope list_scope.

Definition fstate_b (uid : bool) (s : fstate) : bstate := ("FetchCommand"%string, state_name s, render_state uid s).

Ltac norm_app := repeat rewrite <- app_assoc; cbn [app].

Lemma render_more_snoc l i : render_more (l ++ [i]) = render_more l ++ [44] ++ render_item i.
Proof.
  induction l as [|x l IH]; cbn [render_more app].
  - rewrite app_nil_r. reflexivity.
  - rewrite IH. norm_app. reflexivity.
Qed.
Lemma render_attrs_snoc l a : render_attrs (l ++ [a]) = render_attrs l ++ [32] ++ kw_of "Attribute" a.
Proof.
  induction l as [|x l IH]; cbn [render_attrs app].
  - rewrite app_nil_r. reflexivity.
  - rewrite IH. norm_app. reflexivity.
Qed.

Opaque to_dec.

Lemma step_sim uid s c :
  step_call ref_machine (fstate_b uid s) (generic c) = option_map (fstate_b uid) (astep s c).
Proof.
  destruct s, c; try reflexivity.
  all: unfold fstate_b, step_call, generic; cbn [fst snd state_name ref_machine m_trans m_kw].
  all: cbn -[render_more render_attrs render_item kw_of known verb app kw_lookup].
  all: unfold known.
  all: cbn [option_map astep state_name render_state render_item render_items render_cs].
  all: rewrite ?render_more_snoc, ?render_attrs_snoc; unfold kw_of; cbn [render_more render_attrs render_item].
  all: repeat match goal with |- context [kw_lookup ref_kw ?t ?k] => let E := fresh "E" in destruct (kw_lookup ref_kw t k) eqn:E end.
  all: cbn [option_map astep state_name render_state render_item render_items render_cs].
  all: rewrite ?render_more_snoc, ?render_attrs_snoc; unfold kw_of; cbn [render_more render_attrs render_item].
  all: repeat match goal with H : kw_lookup _ _ _ = _ |- _ => rewrite H end.
  all: norm_app; rewrite ?app_nil_r; reflexivity.
Qed.

Lemma run_calls_sim uid : forall cs s,
  run_calls ref_machine (fstate_b uid s) (map generic cs) = option_map (fstate_b uid) (asteps s cs).
Proof.
  induction cs as [|c cs IH]; intro s; [reflexivity|].
  cbn [map run_calls asteps]. rewrite step_sim.
  destruct (astep s c) as [s'|]; [|reflexivity]. cbn [option_map]. apply IH.
Qed.

Lemma finish_sim uid s :
  finish ref_machine (fstate_b uid s) = option_map (fun r => (render_fetch r, "None"%string)) (afinish uid s).
Proof.
  destruct s; try reflexivity; unfold fstate_b, finish; cbn -[render_more render_attrs render_item kw_of verb app];
    unfold render_fetch; cbn [fr_uid fr_first fr_more fr_items fr_cs render_items render_cs];
    norm_app; rewrite ?app_nil_r; reflexivity.
Qed.

Definition fetch_ctor (uid : bool) : string := if uid then "uid_fetch"%string else "fetch"%string.

(* every chain of FETCH builder calls: admitted by the typestates iff it denotes a request, and then the bytes
   are exactly the RFC rendering of that request *)
Theorem fetch_chain_exact uid cs :
  run_chain ref_machine (fetch_ctor uid) [] (map generic cs) =
  option_map (fun r => (render_fetch r, "None"%string)) (denote uid cs).
Proof.
  unfold run_chain, denote.
  assert (Hs : start ref_machine (fetch_ctor uid) [] = Some (inl (fstate_b uid FEmpty))) by (destruct uid; reflexivity).
  rewrite Hs, run_calls_sim. destruct (asteps FEmpty cs) as [s|]; [|reflexivity].
  cbn [option_map]. apply finish_sim.
Qed.

(* ---------------------------------------------------------------- derivability from the RFC grammar *)
Lemma nz_to_dec n : 0 < n -> nz_number (to_dec n).
Proof. intro H. destruct (to_dec_nz n H) as (d & ds & -> & Hd & Hds). constructor; assumption. Qed.
Lemma digits1_to_dec n : digits1 (to_dec n).
Proof. destruct (to_dec_nonempty n) as (d & ds & -> & Hd & Hds). constructor; assumption. Qed.

Lemma seq_elem_item i : item_ok i = true -> seq_elem (render_item i).
Proof.
  destruct i as [n | a b | a]; cbn [item_ok render_item]; intro H.
  - apply N.ltb_lt in H. apply se_one, sn_nz, nz_to_dec, H.
  - apply andb_true_iff in H. destruct H as [Ha Hb]. apply N.ltb_lt in Ha, Hb.
    apply se_range; apply sn_nz, nz_to_dec; assumption.
  - apply N.ltb_lt in H. change (to_dec a ++ [58; 42]) with (to_dec a ++ [58] ++ [42]).
    apply se_range; [apply sn_nz, nz_to_dec, H | apply sn_star].
Qed.

Lemma sequence_set_render : forall more f, item_ok f = true -> forallb item_ok more = true ->
  sequence_set (render_item f ++ render_more more).
Proof.
  induction more as [|i more IH]; intros f Hf Hm.
  - cbn [render_more]. rewrite app_nil_r. apply ss_one, seq_elem_item, Hf.
  - cbn [forallb] in Hm. apply andb_true_iff in Hm. destruct Hm as [Hi Hm].
    cbn [render_more]. apply ss_cons; [apply seq_elem_item, Hf | apply IH; assumption].
Qed.

Lemma assoc_in {A} k (l : list (string * A)) v : assoc k l = Some v -> In (k, v) l.
Proof.
  induction l as [|[k0 v0] l IH]; [discriminate|]. cbn [assoc].
  destruct (String.eqb k k0) eqn:E.
  - intro H. injection H as <-. apply String.eqb_eq in E. subst k0. left; reflexivity.
  - intro H. right. exact (IH H).
Qed.

Definition attr_table : list (string * string) := match assoc "Attribute"%string ref_kw with Some t => t | None => [] end.
Definition macro_table : list (string * string) := match assoc "AttrMacro"%string ref_kw with Some t => t | None => [] end.

Lemma lookup_attr a s : kw_lookup ref_kw "Attribute" a = Some s -> In (a, s) attr_table.
Proof. unfold kw_lookup. change (assoc "Attribute"%string ref_kw) with (Some attr_table). apply assoc_in. Qed.
Lemma lookup_macro a s : kw_lookup ref_kw "AttrMacro" a = Some s -> In (a, s) macro_table.
Proof. unfold kw_lookup. change (assoc "AttrMacro"%string ref_kw) with (Some macro_table). apply assoc_in. Qed.

Lemma attr_keywords_rfc : forall a s, In (a, s) attr_table -> In s rfc_fetch_att.
Proof.
  assert (H : forallb (fun ks => existsb (String.eqb (snd ks)) rfc_fetch_att) attr_table = true) by (vm_compute; reflexivity).
  intros a s Hin. rewrite forallb_forall in H. specialize (H (a, s) Hin). cbn [snd] in H.
  apply existsb_exists in H. destruct H as (x & Hx & E). apply String.eqb_eq in E. subst x. exact Hx.
Qed.

Lemma fetch_att_kw a : known "Attribute" a = true -> fetch_att (kw_of "Attribute" a).
Proof.
  unfold known, kw_of. destruct (kw_lookup ref_kw "Attribute" a) as [s|] eqn:E; [|discriminate]. intros _.
  apply fa_intro. exact (attr_keywords_rfc a s (lookup_attr a s E)).
Qed.

Lemma fetch_att_list_render : forall more a, known "Attribute" a = true -> forallb (known "Attribute") more = true ->
  fetch_att_list (kw_of "Attribute" a ++ render_attrs more).
Proof.
  induction more as [|b more IH]; intros a Ha Hm.
  - cbn [render_attrs]. rewrite app_nil_r. apply fal_one, fetch_att_kw, Ha.
  - cbn [forallb] in Hm. apply andb_true_iff in Hm. destruct Hm as [Hb Hm].
    cbn [render_attrs]. apply fal_cons; [apply fetch_att_kw, Ha | apply IH; assumption].
Qed.

Lemma fetch_what_macro m : known "AttrMacro" m = true -> fetch_what (kw_of "AttrMacro" m).
Proof.
  unfold known, kw_of. destruct (kw_lookup ref_kw "AttrMacro" m) as [s|] eqn:E; [|discriminate]. intros _.
  apply lookup_macro in E. cbn in E.
  destruct E as [E | [E | [E | []]]]; injection E as _ <-; [apply fw_all | apply fw_fast | apply fw_full].
Qed.

Lemma fetch_what_render it :
  match it with IMacro m => known "AttrMacro" m | IAttrs a more => known "Attribute" a && forallb (known "Attribute") more end = true ->
  fetch_what (render_items it).
Proof.
  destruct it as [m | a more]; cbn [render_items]; intro H.
  - apply fetch_what_macro, H.
  - apply andb_true_iff in H. destruct H as [Ha Hm].
    replace ([40] ++ kw_of "Attribute" a ++ render_attrs more ++ [41]) with ([40] ++ (kw_of "Attribute" a ++ render_attrs more) ++ [41])
      by (norm_app; reflexivity).
    apply fw_list, fetch_att_list_render; assumption.
Qed.

Theorem render_fetch_grammatical r : req_ok r = true -> uid_or_fetch_cmd (render_fetch r).
Proof.
  destruct r as [uid f more it cs]. unfold req_ok, render_fetch. cbn [fr_uid fr_first fr_more fr_items fr_cs].
  intro H. apply andb_true_iff in H. destruct H as [H Hit]. apply andb_true_iff in H. destruct H as [Hf Hm].
  pose proof (sequence_set_render more f Hf Hm) as Hset. pose proof (fetch_what_render it Hit) as Hw.
  assert (Hc : fetch_cmd (bs "FETCH " ++ render_item f ++ render_more more ++ [32] ++ render_items it ++ render_cs cs)).
  { destruct cs as [n|]; cbn [render_cs].
    - replace (bs "FETCH " ++ render_item f ++ render_more more ++ [32] ++ render_items it ++ bs " (CHANGEDSINCE " ++ to_dec n ++ [41])
        with (bs "FETCH " ++ (render_item f ++ render_more more) ++ [32] ++ render_items it ++ [32] ++ ([40] ++ (bs "CHANGEDSINCE " ++ to_dec n) ++ [41]))
        by (cbn [bs N_of_ascii]; norm_app; reflexivity).
      apply fc_mod; [exact Hset | exact Hw |]. apply fms_one, fm_cs, digits1_to_dec.
    - rewrite app_nil_r.
      replace (bs "FETCH " ++ render_item f ++ render_more more ++ [32] ++ render_items it)
        with (bs "FETCH " ++ (render_item f ++ render_more more) ++ [32] ++ render_items it) by (norm_app; reflexivity).
      apply fc_plain; assumption. }
  destruct uid; cbn [verb].
  - change (bs "UID FETCH ") with (bs "UID " ++ bs "FETCH "). rewrite <- app_assoc. apply uf_uid, Hc.
  - apply uf_plain, Hc.
Qed.
