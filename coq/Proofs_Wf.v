(* Instance of Thm_Wf: every value the parser model returns has distinct field names in every record. *)
From TI Require Import Bytes Grammar Nom Interp InterpFacts Thm_NoPanic Owned OwnedProofs Thm_Wf Natives.
From TI.gen Require Import ImapGrammar.
From Coq Require Import Lia Bool.

Lemma wf_map_con (f : N -> val) l : (forall x, wf_val (f x) = true) -> forallb wf_val (map f l) = true.
Proof. intro H. induction l as [|x l IH]; [reflexivity|]. cbn [map forallb]. rewrite H, IH. reflexivity. Qed.

Lemma acl_right_wf c : wf_val (acl_right c) = true.
Proof. unfold acl_right. repeat (match goal with |- context [if ?b then _ else _] => destruct b end; try reflexivity). Qed.

Lemma rights_of_wf s : forallb wf_val (rights_of s) = true.
Proof. unfold rights_of. apply wf_map_con, acl_right_wf. Qed.

Lemma forallb_app_wf a b : forallb wf_val a = true -> forallb wf_val b = true -> forallb wf_val (a ++ b) = true.
Proof. intros. rewrite forallb_app. rewrite H, H0. reflexivity. Qed.

Lemma flat_rights_wf items : forallb wf_val (flat_map (fun v => rights_of (vbytes v)) items) = true.
Proof. induction items as [|x l IH]; [reflexivity|]. cbn [flat_map]. apply forallb_app_wf; [apply rights_of_wf | exact IH]. Qed.

Lemma id_params_wf first rest : wf_val (id_params first rest) = true.
Proof.
  unfold id_params. rewrite wf_list.
  match goal with |- forallb wf_val (map ?f ?m) = true => generalize m end.
  intro m. induction m as [|kv m IH]; [reflexivity|]. cbn [map forallb]. rewrite IH. reflexivity.
Qed.

Lemma classify_name_wf tbl a : wf_val (classify_name_attr_in tbl a) = true.
Proof. induction tbl as [|[k n] tbl IH]; cbn [classify_name_attr_in]; [reflexivity|]. destruct (eq_nocase a k); [reflexivity | exact IH]. Qed.

Lemma str_slice_wf t v : str_slice_from1 t = AVal v -> wf_val v = true.
Proof.
  unfold str_slice_from1. destruct t as [|x r]; [discriminate|]. destruct r as [|c r']; [intro H; injection H as <-; reflexivity|].
  destruct (is_cont c); [discriminate|]. intro H; injection H as <-; reflexivity.
Qed.

Lemma resp_text_action_wf code text v : wf_val code = true -> resp_text_action code text = AVal v -> wf_val v = true.
Proof.
  intros Hc H. unfold resp_text_action in H.
  assert (Hnone : wf_val (VTuple [code; VNone]) = true) by (rewrite wf_tuple; cbn [forallb]; rewrite Hc; reflexivity).
  destruct text; try (injection H as <-; exact Hnone).
  destruct b as [|x t]; [injection H as <-; exact Hnone|].
  assert (Hsome : wf_val (VTuple [code; VSome (VBytes (x :: t))]) = true) by (rewrite wf_tuple; cbn [forallb]; rewrite Hc; reflexivity).
  destruct code; try (injection H as <-; exact Hsome).
  destruct (str_slice_from1 (x :: t)) as [s| |] eqn:E; try discriminate. injection H as <-.
  rewrite wf_tuple. cbn [forallb]. rewrite Hc. cbn [wf_val]. rewrite (str_slice_wf _ _ E). reflexivity.
Qed.

Ltac args_shape H :=
  repeat match type of H with
         | match ?x with _ => _ end = AVal _ => destruct x; try discriminate H
         | (if ?b then _ else _) = AVal _ => destruct b eqn:?; try discriminate H
         end.

Lemma native_call_wf : forall n vs v, forallb wf_val vs = true -> native_call n vs = AVal v -> wf_val v = true.
Proof.
  intros n vs v Hvs H. unfold native_call in H.
  repeat match type of H with
         | (if String.eqb n ?s then _ else _) = AVal _ => destruct (String.eqb n s)
         end.
  all: try discriminate H.
  all: try match type of H with context [resp_text_action] =>
         destruct vs as [|c0 [|t0 [|x0 vs0]]]; try discriminate H; cbn [forallb] in Hvs; apply andb_true_iff in Hvs; destruct Hvs as [Hc0 _];
         exact (resp_text_action_wf c0 t0 v Hc0 H) end.
  all: unfold from_utf8, check_entry_name, range_norm, classify_capability, classify_quota_name in H.
  all: args_shape H.
  all: try (injection H as <-).
  all: cbn [forallb] in Hvs; repeat match goal with Hx : _ && _ = true |- _ => apply andb_true_iff in Hx; destruct Hx end.
  all: repeat match goal with Hx : wf_val (VList _) = true |- _ => rewrite wf_list in Hx end.
  all: repeat match goal with Hx : wf_val (VSome _) = true |- _ => cbn [wf_val] in Hx end.
  all: repeat match goal with Hx : wf_val (VTuple _) = true |- _ => rewrite wf_tuple in Hx; cbn [forallb] in Hx; repeat (apply andb_true_iff in Hx; destruct Hx as [? Hx]) end.
  all: repeat match goal with |- context [if ?b then _ else _] => destruct b end.
  all: rewrite ?wf_list, ?wf_tuple, ?wf_con; cbn [forallb wf_val]; rewrite ?andb_true_r.
  all: try apply rights_of_wf; try apply flat_rights_wf; try apply id_params_wf; try apply classify_name_wf.
  all: repeat match goal with Hx : ?x = true |- context [?x] => rewrite Hx end.
  all: try reflexivity; try assumption.
  all: repeat match goal with Hx : _ && _ = true |- _ => apply andb_true_iff in Hx; destruct Hx end; assumption.
Qed.

Lemma nodes_wf : env_all node_wf all_defs = true.
Proof. vm_compute. reflexivity. Qed.

Theorem parse_wf : forall i rest v used, parse i = ROk rest v used -> wf_val v = true.
Proof.
  intros i rest v used H. unfold parse in H.
  assert (Henv : env f_parser_x_parse_response = Some def_parser_x_parse_response) by reflexivity.
  pose proof (run_wf native_call native_call_wf env (S (length i)) (env_all_sound node_wf all_defs nodes_wf) FUEL _ _ 0%nat i Henv) as Hw.
  rewrite H in Hw. exact Hw.
Qed.
