From TI Require Import Bytes Tags.
From Coq Require Import Lia ZifyBool ZifyN ZArith.
Ltac Zify.zify_post_hook ::= Z.div_mod_to_equations.

Lemma digit_of_tag_char k : k < 10 -> is_tag_char (digit_of k) = true.
Proof.
  intros Hk. unfold digit_of.
  assert (E : exists j, 48 + k = j /\ 48 <= j <= 57) by (exists (48 + k); lia).
  destruct E as [j [-> Hj]].
  unfold is_tag_char, is_astring_char, is_atom_char, is_char, is_atom_specials,
    is_list_wildcards, is_quoted_specials, is_resp_specials. lia.
Qed.

Lemma pad4_small k : k < 10000 ->
  pad4 k = [digit_of (k / 10 / 10 / 10 mod 10); digit_of (k / 10 / 10 mod 10); digit_of (k / 10 mod 10); digit_of (k mod 10)].
Proof. intros H. unfold pad4. destruct (N.ltb_spec k 10000); [reflexivity | lia]. Qed.

Lemma tag_of_eq n : tag_of n = 65 :: pad4 (n mod 10000).
Proof. reflexivity. Qed.

Lemma mod_lt10000 n : n mod 10000 < 10000.
Proof. apply N.mod_lt. lia. Qed.

Theorem tag_valid_lemma : forall n,
  tag_of n <> [] /\ Forall (fun c => is_tag_char c = true) (tag_of n) /\ length (tag_of n) = 5%nat.
Proof.
  intros n. rewrite tag_of_eq, (pad4_small _ (mod_lt10000 n)).
  split; [discriminate|]. split; [|reflexivity].
  repeat constructor; try (apply digit_of_tag_char; apply N.mod_lt; lia).
Qed.

Lemma digit_of_inj a b : digit_of a = digit_of b -> a = b.
Proof. unfold digit_of. lia. Qed.

Lemma digits4_inj a b : a < 10000 -> b < 10000 ->
 a / 10 / 10 / 10 mod 10 = b / 10 / 10 / 10 mod 10 ->
 a / 10 / 10 mod 10 = b / 10 / 10 mod 10 ->
 a / 10 mod 10 = b / 10 mod 10 -> a mod 10 = b mod 10 -> a = b.
Proof.
 intros Ha Hb H3 H2 H1 H0.
 pose proof (N.div_mod a 10) as Da0. pose proof (N.div_mod b 10) as Db0.
 pose proof (N.div_mod (a/10) 10) as Da1. pose proof (N.div_mod (b/10) 10) as Db1.
 pose proof (N.div_mod (a/10/10) 10) as Da2. pose proof (N.div_mod (b/10/10) 10) as Db2.
 assert (La : a/10/10/10 < 10) by (rewrite !N.div_div by lia; apply N.div_lt_upper_bound; lia).
 assert (Lb : b/10/10/10 < 10) by (rewrite !N.div_div by lia; apply N.div_lt_upper_bound; lia).
 rewrite (N.mod_small (a/10/10/10)) in * by assumption.
 rewrite (N.mod_small (b/10/10/10)) in * by assumption.
 generalize dependent (a/10/10 mod 10). generalize dependent (a/10 mod 10). generalize dependent (a mod 10).
 intros. lia.
Qed.

Lemma pad4_inj a b : a < 10000 -> b < 10000 -> pad4 a = pad4 b -> a = b.
Proof.
  intros Ha Hb. rewrite (pad4_small _ Ha), (pad4_small _ Hb).
  intros H. injection H as H3 H2 H1 H0.
  apply digit_of_inj in H3, H2, H1, H0. apply digits4_inj; assumption.
Qed.

Lemma tag_of_inj_mod a b : tag_of a = tag_of b -> a mod 10000 = b mod 10000.
Proof.
  rewrite !tag_of_eq. intros H. injection H as H.
  apply pad4_inj; auto using mod_lt10000.
Qed.

Theorem tags_distinct_in_window_lemma : forall s i j,
  i < j -> j < 10000 -> tag_of (s + 1 + i) <> tag_of (s + 1 + j).
Proof.
  intros s i j Hij Hj H. apply tag_of_inj_mod in H. lia.
Qed.

(* the generator: from state s, k calls yield exactly tag_of (s+1) ... tag_of (s+k), provided no overflow *)
Lemma idgen_run_spec : forall k s, s + N.of_nat k <= U64_MAX ->
  idgen_run k s = Some (s + N.of_nat k, map (fun i => tag_of (s + 1 + N.of_nat i)) (seq 0 k)).
Proof.
  induction k as [|k IH]; intros s Hs.
  - cbn [idgen_run seq map]. f_equal. f_equal. lia.
  - cbn [idgen_run]. unfold idgen_next.
    destruct (N.ltb_spec s U64_MAX) as [Hlt|Hge]; [|lia].
    rewrite IH by lia. cbn [seq map]. f_equal. f_equal; [lia|].
    f_equal; [f_equal; lia|].
    rewrite <- seq_shift, map_map. apply map_ext. intros i. f_equal. lia.
Qed.

Lemma NoDup_map_inj_in {A B} (f : A -> B) (l : list A) :
  (forall x y, In x l -> In y l -> f x = f y -> x = y) -> NoDup l -> NoDup (map f l).
Proof.
  induction l as [|a l IH]; intros Hinj Hnd; cbn [map]; [constructor|].
  inversion Hnd as [|? ? Hna Hnd']; subst. constructor.
  - intros Hin. apply in_map_iff in Hin. destruct Hin as [x [Hfx Hx]].
    assert (x = a) by (apply Hinj; [right; assumption | left; reflexivity | assumption]).
    subst. contradiction.
  - apply IH; [|assumption]. intros x y Hx Hy. apply Hinj; right; assumption.
Qed.

Theorem idgen_window_nodup_lemma : forall s k ts s',
  N.of_nat k <= 10000 -> s + N.of_nat k <= U64_MAX ->
  idgen_run k s = Some (s', ts) -> NoDup ts /\ length ts = k /\ Forall (fun t => length t = 5%nat) ts.
Proof.
  intros s k ts s' Hk Hs H. rewrite idgen_run_spec in H by assumption.
  injection H as _ <-. split; [|split].
  - apply NoDup_map_inj_in; [|apply seq_NoDup].
    intros i j Hi Hj E. apply in_seq in Hi, Hj.
    destruct (Nat.lt_trichotomy i j) as [L|[L|L]]; [|assumption|].
    + exfalso. revert E. apply tags_distinct_in_window_lemma; lia.
    + exfalso. symmetry in E. revert E. apply tags_distinct_in_window_lemma; lia.
  - now rewrite map_length, seq_length.
  - apply Forall_forall. intros t Ht. apply in_map_iff in Ht. destruct Ht as [i [<- _]].
    apply (tag_valid_lemma (s + 1 + N.of_nat i)).
Qed.

(* non-vacuity: the window straddling a wrap of the 4-digit counter *)
Example window_example : exists ts s', idgen_run 3 9998 = Some (s', ts) /\ ts = [bs "A9999"; bs "A0000"; bs "A0001"].
Proof. eexists. eexists. split; vm_compute; reflexivity. Qed.
