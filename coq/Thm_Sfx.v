(* Generic theorem: an accept's rest is a suffix of the input and `used` is the number of bytes
   consumed.  Holds for every grammar and every action/native environment. *)
From TI Require Import Bytes Grammar Nom Interp InterpFacts.
From Coq Require Import Lia.

Definition sfx (p : list byte -> res) : Prop :=
  forall i r v u, p i = ROk r v u -> exists c, i = c ++ r /\ u = nlen c.

(* ---------------------------------------------------------------- leaves *)
Lemma tag_scan_app eq s : forall i t r, tag_scan eq s i = SOk t r -> i = t ++ r.
Proof.
  induction s as [|a s IH]; intros i t r H; cbn [tag_scan] in H.
  - now injection H as <- <-.
  - destruct i as [|b i]; [discriminate|]. destruct (eq a b); [|discriminate].
    destruct (tag_scan eq s i) as [t' r'| |] eqn:E; try discriminate.
    injection H as <- <-. cbn. f_equal. now apply IH.
Qed.

Lemma tag_scan_len eq s : forall i t r, tag_scan eq s i = SOk t r -> length t = length s.
Proof.
  induction s as [|a s IH]; intros i t r H; cbn [tag_scan] in H.
  - now injection H as <- _.
  - destruct i as [|b i]; [discriminate|]. destruct (eq a b); [|discriminate].
    destruct (tag_scan eq s i) as [t' r'| |] eqn:E; try discriminate.
    injection H as <- _. cbn [length]. f_equal. eapply IH; eauto.
Qed.

Lemma span_app p : forall i x r, span p i = Some (x, r) -> i = x ++ r.
Proof.
  induction i as [|b i IH]; intros x r H; cbn [span] in H; [discriminate|].
  destruct (p b).
  - destruct (span p i) as [[x' r']|] eqn:E; [|discriminate]. injection H as <- <-. cbn. f_equal. now apply IH.
  - now injection H as <- <-.
Qed.

Lemma esc_scan_app n c e : forall i t r, esc_scan n c e i = SOk t r -> i = t ++ r.
Proof.
  fix IH 1. intros i t r H. destruct i as [|b i]; cbn [esc_scan] in H; [discriminate|].
  destruct (n b).
  - destruct (esc_scan n c e i) as [t' r'| |] eqn:E; try discriminate.
    injection H as <- <-. cbn. f_equal. now apply IH.
  - destruct (b =? c).
    + destruct i as [|x i]; [discriminate|]. destruct (existsb (N.eqb x) e); [|discriminate].
      destruct (esc_scan n c e i) as [t' r'| |] eqn:E; try discriminate.
      injection H as <- <-. cbn. do 2 f_equal. now apply IH.
    + now injection H as <- <-.
Qed.

Lemma of_scan_sfx (f : list byte -> scan) :
  (forall i t r, f i = SOk t r -> i = t ++ r) -> sfx (fun i => of_scan (f i)).
Proof.
  intros Hf i r v u H. cbv beta in H. unfold of_scan in H. destruct (f i) as [t r'| |] eqn:E; try discriminate.
  injection H as <- <- <-. exists t. split; [now apply Hf|reflexivity].
Qed.

Lemma number_sfx bits : sfx (number_p bits).
Proof.
  intros i r v u H. unfold number_p in H. destruct (span nom_is_digit i) as [[ds r']|] eqn:E; [|discriminate].
  destruct ds as [|d ds]; [discriminate|]. destruct (dec (d :: ds) <? 2 ^ bits); [|discriminate].
  injection H as <- <- <-. exists (d :: ds). split; [now apply span_app in E|reflexivity].
Qed.

Lemma take_n_app : forall i n d rest, take_n n i = Some (d, rest) -> i = d ++ rest /\ nlen d = n.
Proof.
  induction i as [|b i IH]; intros n d rest H.
  - cbn [take_n] in H. destruct (N.eqb_spec n 0); [|discriminate]. injection H as <- <-. subst. split; reflexivity.
  - cbn [take_n] in H. destruct (N.eqb_spec n 0).
    + injection H as <- <-. subst. split; reflexivity.
    + destruct (take_n (N.pred n) i) as [[d' r']|] eqn:E; [|discriminate]. injection H as <- <-.
      destruct (IH _ _ _ E) as [-> Hl]. split; [reflexivity|].
      rewrite nlen_spec in *. cbn [length]. lia.
Qed.

Lemma literal_sfx : sfx literal_p.
Proof.
  intros i r v u H. unfold literal_p in H.
  destruct (tag_scan eq_case [123] i) as [t1 r1| |] eqn:E1; try discriminate.
  destruct (number_p 32 r1) as [r2 v2 u2| | | | |] eqn:E2; try discriminate.
  destruct v2 as [| |n| | | | | | |]; try discriminate.
  destruct (tag_scan eq_case [125] r2) as [t3 r3| |] eqn:E3; try discriminate.
  destruct (tag_scan eq_case [13; 10] r3) as [t4 r4| |] eqn:E4; try discriminate.
  destruct (take_n n r4) as [[data rest]|] eqn:E5; [|discriminate].
  match type of H with context[forallb ?f data] => destruct (forallb f data) end; [|discriminate]. injection H as <- <- <-.
  pose proof (tag_scan_app _ _ _ _ _ E1) as H1. pose proof (tag_scan_app _ _ _ _ _ E3) as H3.
  pose proof (tag_scan_app _ _ _ _ _ E4) as H4. destruct (number_sfx _ _ _ _ _ E2) as [c2 [H2 Hu2]].
  destruct (take_n_app _ _ _ _ E5) as [H5 Hn].
  pose proof (tag_scan_len _ _ _ _ _ E1) as L1. pose proof (tag_scan_len _ _ _ _ _ E3) as L3.
  pose proof (tag_scan_len _ _ _ _ _ E4) as L4. cbn [length] in L1, L3, L4.
  exists (t1 ++ c2 ++ t3 ++ t4 ++ data). split.
  - subst. now rewrite <- !app_assoc.
  - subst u2. rewrite !nlen_spec, !app_length in *. lia.
Qed.

Lemma leaf_sfx l : sfx (leaf_run l).
Proof.
  destruct l as [s|s|c|c|n c e|bits| |w]; cbn [leaf_run].
  - apply of_scan_sfx. apply tag_scan_app.
  - apply of_scan_sfx. apply tag_scan_app.
  - intros i r v u H. cbn [leaf_run] in H. destruct (span c i) as [[x r']|] eqn:E; [|discriminate].
    injection H as <- <- <-. exists x. split; [now apply span_app in E|reflexivity].
  - intros i r v u H. cbn [leaf_run] in H. destruct (span c i) as [[x r']|] eqn:E; [|discriminate].
    destruct x as [|b x]; [discriminate|]. injection H as <- <- <-.
    exists (b :: x). split; [now apply span_app in E|reflexivity].
  - apply of_scan_sfx. apply esc_scan_app.
  - apply number_sfx.
  - apply literal_sfx.
  - intros i r v u H. cbn [leaf_run] in H. discriminate.
Qed.

(* ---------------------------------------------------------------- combinators *)
Lemma seq_sfx (self : G -> P) gs d : Forall (fun g => sfx (self g d)) gs ->
  forall i acc u0 r v u, seq_run self gs d i acc u0 = ROk r v u -> exists c, i = c ++ r /\ u = u0 + nlen c.
Proof.
  induction 1 as [|g gs Hg Hgs IH]; intros i acc u0 r v u Hr; cbn [seq_run] in Hr.
  - injection Hr as <- <- <-. exists []. split; [reflexivity|cbn; lia].
  - destruct (self g d i) as [r1 v1 u1| | | | |] eqn:E; try discriminate.
    destruct (Hg _ _ _ _ E) as [c1 [-> ->]]. destruct (IH _ _ _ _ _ _ Hr) as [c2 [-> ->]].
    exists (c1 ++ c2). split; [now rewrite app_assoc|rewrite nlen_app; lia].
Qed.

Lemma alt_sfx (self : G -> P) gs d : Forall (fun g => sfx (self g d)) gs -> sfx (alt_run self gs d).
Proof.
  induction 1 as [|g gs Hg Hgs IH]; intros i r v u Hr; cbn [alt_run] in Hr; [discriminate|].
  destruct (self g d i) as [r1 v1 u1| | | | |] eqn:E; try discriminate.
  - injection Hr as <- <- <-. eauto.
  - eauto.
Qed.

Lemma many_sfx p : sfx p -> forall n i acc u0 r v u, many_loop p n i acc u0 = ROk r v u ->
  exists c, i = c ++ r /\ u = u0 + nlen c.
Proof.
  intros Hp n. induction n as [|n IHn]; intros i acc u0 r v u Hr; cbn [many_loop] in Hr; [discriminate|].
  destruct (p i) as [r1 v1 u1| | | | |] eqn:E; try discriminate.
  - destruct (u1 =? 0); [discriminate|]. destruct (Hp _ _ _ _ E) as [c1 [-> ->]].
    destruct (IHn _ _ _ _ _ _ Hr) as [c2 [-> ->]]. exists (c1 ++ c2). split; [now rewrite app_assoc|rewrite nlen_app; lia].
  - injection Hr as <- <- <-. exists []. split; [reflexivity|cbn; lia].
Qed.

Lemma sep_sfx s p : sfx s -> sfx p -> forall n i acc u0 r v u, sep_loop s p n i acc u0 = ROk r v u ->
  exists c, i = c ++ r /\ u = u0 + nlen c.
Proof.
  intros Hs Hp n. induction n as [|n IHn]; intros i acc u0 r v u Hr; cbn [sep_loop] in Hr; [discriminate|].
  destruct (s i) as [r1 v1 u1| | | | |] eqn:E; try discriminate.
  - destruct (u1 =? 0); [discriminate|]. destruct (Hs _ _ _ _ E) as [c1 [-> ->]].
    destruct (p r1) as [r2 v2 u2| | | | |] eqn:E2; try discriminate.
    + destruct (Hp _ _ _ _ E2) as [c2 [-> ->]]. destruct (IHn _ _ _ _ _ _ Hr) as [c3 [-> ->]].
      exists (c1 ++ c2 ++ c3). split; [now rewrite <- !app_assoc|rewrite !nlen_app; lia].
    + injection Hr as <- <- <-. exists []. split; [reflexivity|cbn; lia].
  - injection Hr as <- <- <-. exists []. split; [reflexivity|cbn; lia].
Qed.

Section RunSfx.
Variable natf : string -> list val -> ares.
Variable env : N -> option G.
Variable bound : nat.

Theorem run_sfx fuel : forall g d, sfx (run natf env bound fuel g d).
Proof.
  induction fuel as [|f IHf]; intros g dp; [intros i r v u H; discriminate|].
  revert dp. induction g using G_ind'; intros dp; rewrite run_S; cbn [step].
  - apply leaf_sfx.
  - intros i r v u H. destruct (env f0) as [g'|]; [|discriminate]. eapply IHf; eauto.
  - intros i r v u H. destruct (Nat.leb m dp); [discriminate|]. eapply IHg; eauto.
  - intros i r v u Hr.
    assert (HF : Forall (fun g => sfx (run natf env bound (S f) g dp)) gs)
      by (eapply Forall_impl; [|exact H]; cbn beta; intros a Ha; apply Ha).
    destruct (seq_sfx _ gs dp HF _ _ _ _ _ _ Hr) as [c [-> ->]].
    exists c. split; [reflexivity|lia].
  - apply alt_sfx. eapply Forall_impl; [|exact H]; cbn beta; intros a Ha; apply Ha.
  - intros i r v u Hr. destruct (run natf env bound (S f) g dp i) as [r1 v1 u1| | | | |] eqn:E; try discriminate.
    + injection Hr as <- <- <-. eapply IHg; eauto.
    + injection Hr as <- <- <-. exists []. split; reflexivity.
  - intros i r v u Hr. destruct (run natf env bound (S f) g dp i) as [r1 v1 u1| | | | |] eqn:E; try discriminate.
    + injection Hr as <- <- <-. eapply IHg; eauto.
    + injection Hr as <- <- <-. exists []. split; reflexivity.
  - intros i r v u Hr. destruct (many_sfx _ (IHg dp) _ _ _ _ _ _ _ Hr) as [c [-> ->]]. exists c. split; [reflexivity|lia].
  - intros i r v u Hr. destruct (run natf env bound (S f) g dp i) as [r1 v1 u1| | | | |] eqn:E; try discriminate.
    destruct (IHg dp _ _ _ _ E) as [c1 [-> ->]].
    destruct (many_sfx _ (IHg dp) _ _ _ _ _ _ _ Hr) as [c2 [-> ->]].
    exists (c1 ++ c2). split; [now rewrite app_assoc|rewrite nlen_app; lia].
  - intros i r v u Hr. destruct (run natf env bound (S f) g2 dp i) as [r1 v1 u1| | | | |] eqn:E; try discriminate.
    + destruct (IHg2 dp _ _ _ _ E) as [c1 [-> ->]].
      destruct (sep_sfx _ _ (IHg1 dp) (IHg2 dp) _ _ _ _ _ _ _ Hr) as [c2 [-> ->]].
      exists (c1 ++ c2). split; [now rewrite app_assoc|rewrite nlen_app; lia].
    + injection Hr as <- <- <-. exists []. split; reflexivity.
  - intros i r v u Hr. destruct (run natf env bound (S f) g2 dp i) as [r1 v1 u1| | | | |] eqn:E; try discriminate.
    destruct (IHg2 dp _ _ _ _ E) as [c1 [-> ->]].
    destruct (sep_sfx _ _ (IHg1 dp) (IHg2 dp) _ _ _ _ _ _ _ Hr) as [c2 [-> ->]].
    exists (c1 ++ c2). split; [now rewrite app_assoc|rewrite nlen_app; lia].
  - intros i r v u Hr. destruct (run natf env bound (S f) g dp i) as [r1 v1 u1| | | | |] eqn:E; try discriminate.
    injection Hr as <- <- <-. eapply IHg; eauto.
  - intros i r v u Hr. destruct (run natf env bound (S f) g dp i) as [r1 v1 u1| | | | |] eqn:E; try discriminate.
    destruct (act natf a v1); try discriminate. injection Hr as <- <- <-. eapply IHg; eauto.
  - intros i r v u Hr. destruct (run natf env bound (S f) g dp i) as [r1 v1 u1| | | | |] eqn:E; try discriminate.
    destruct (act natf a v1); try discriminate. injection Hr as <- <- <-. eapply IHg; eauto.
  - intros i r v u Hr. discriminate.
Qed.

(* consequence used by the codec arithmetic: the rest is never longer than the input *)
Corollary run_rest_le fuel g d i r v u : run natf env bound fuel g d i = ROk r v u ->
  (length r <= length i)%nat /\ u = N.of_nat (length i - length r).
Proof.
  intros H. destruct (run_sfx fuel g d _ _ _ _ H) as [c [-> ->]].
  rewrite app_length, nlen_spec. split; [lia|]. f_equal. lia.
Qed.
End RunSfx.

Lemma take_used_prefix : forall (c r : list byte), take_used (nlen c) (c ++ r) = c.
Proof.
  induction c as [|x c IH]; intros r.
  - cbn. destruct r; reflexivity.
  - cbn [app take_used]. assert (E : nlen (x :: c) =? 0 = false) by (apply N.eqb_neq; rewrite nlen_spec; cbn [length]; lia).
    rewrite E. f_equal. replace (N.pred (nlen (x :: c))) with (nlen c) by (rewrite !nlen_spec; cbn [length]; lia).
    apply IH.
Qed.
Lemma take_used_app (c r X : list byte) : take_used (nlen c) (c ++ r) = take_used (nlen c) (c ++ r ++ X).
Proof. now rewrite !take_used_prefix. Qed.
