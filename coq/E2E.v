(* End to end for the RFC spellings: E2EGen.v instantiated with Spec.enc_response, whose round trip
   (RoundTripRules.response_roundtrip, about the grammar regenerated from the source) is the hypothesis. *)
From TI Require Import Bytes Grammar Nom Interp Natives Tags Builders Client ClientProofs SessionProofs Spec RoundTripRules.
From TI Require Export E2EGen.
From Coq Require Import Lia.

Definition conformant : sent -> Prop := E2EGen.conformant enc_response.
Definition decode_of_encoding := E2EGen.decode_of_encoding enc_response response_roundtrip.
Definition frames_of_encodings := E2EGen.frames_of_encodings enc_response response_roundtrip.
Definition conformant_stream_delivered_lemma := E2EGen.conformant_stream_delivered_lemma enc_response response_roundtrip.
Definition conformant_stream_partial_lemma := E2EGen.conformant_stream_partial_lemma enc_response response_roundtrip.
Definition prefix_of_encoding_incomplete := E2EGen.prefix_of_encoding_incomplete enc_response response_roundtrip.
Definition conformant_trace_lemma := E2EGen.conformant_trace_lemma enc_response response_roundtrip.
Definition conformant_session_lemma := E2EGen.conformant_session_lemma enc_response response_roundtrip.
Definition conversation_lemma := E2EGen.conversation_lemma enc_response response_roundtrip.

(* non-vacuity: the ID response of Examples_RT (a literal inside) followed by its LIST response, delivered in
   five reads that cut inside a keyword, inside the literal header and between CR and LF, with a not-ready result
   in between; the hypotheses hold, and running the model gives the two frames *)
From TI Require Examples_RT.
Example conformant_session_example : exists s rd os st,
  conformant s /\ length s = 2%nat /\ data_only rd /\ bytes_of rd = wire s /\ In RNotReady rd /\ (length rd = 6)%nat /\
  fr_trace 5 rf_init rd = (os, st, []) /\ In PPending os /\ frames_of os = expected s /\ rf_buf st = [].
Proof.
  destruct Examples_RT.ex_id as (v1 & H1 & _). destruct Examples_RT.ex_list as (v2 & H2 & _).
  match type of H1 with enc_response _ ?w1 => match type of H2 with enc_response _ ?w2 =>
    set (W1 := w1) in *; set (W2 := w2) in *;
    exists [(v1, W1); (v2, W2)];
    exists [RChunk (firstn 3 W1); RChunk (firstn 40 (skipn 3 W1)); RNotReady; RChunk (skipn 43 W1 ++ firstn 7 W2);
            RChunk (firstn (length W2 - 8) (skipn 7 W2)); RChunk (skipn (length W2 - 1) W2)]
  end end.
  assert (Hs : conformant [(v1, W1); (v2, W2)]) by (unfold conformant; apply Forall_cons; [exact H1 | apply Forall_cons; [exact H2 | apply Forall_nil]]).
  assert (Hd : data_only [RChunk (firstn 3 W1); RChunk (firstn 40 (skipn 3 W1)); RNotReady; RChunk (skipn 43 W1 ++ firstn 7 W2);
            RChunk (firstn (length W2 - 8) (skipn 7 W2)); RChunk (skipn (length W2 - 1) W2)]) by (repeat constructor).
  assert (Hb : bytes_of [RChunk (firstn 3 W1); RChunk (firstn 40 (skipn 3 W1)); RNotReady; RChunk (skipn 43 W1 ++ firstn 7 W2);
            RChunk (firstn (length W2 - 8) (skipn 7 W2)); RChunk (skipn (length W2 - 1) W2)] = wire [(v1, W1); (v2, W2)]) by (vm_compute; reflexivity).
  destruct (fr_trace 5 rf_init _) as [[os st] rd'] eqn:E in |- *.
  assert (Ho : rd' = [] /\ In PPending os /\ length (frames_of os) = 2%nat /\ rf_buf st = []).
  { clear -E. vm_compute in E. injection E as <- <- <-. split; [reflexivity|]. split; [cbn; tauto|]. split; reflexivity. }
  destruct Ho as [-> [Hp [Hl Hbuf]]].
  exists os, st. split; [exact Hs|]. split; [reflexivity|]. split; [exact Hd|]. split; [exact Hb|].
  split; [cbn; tauto|]. split; [reflexivity|]. split; [reflexivity|]. split; [exact Hp|]. split; [|exact Hbuf].
  destruct (conformant_trace_lemma _ _ _ _ _ _ Hs Hd Hb E) as [_ [s1 [s2 [Es [Ef _]]]]].
  rewrite Ef in *. unfold expected in Hl. rewrite map_length in Hl.
  assert (s2 = []).
  { apply (f_equal (@length _)) in Es. rewrite app_length, Hl in Es. cbn [length] in Es. destruct s2; [reflexivity | cbn [length] in Es; lia]. }
  subst s2. rewrite app_nil_r in Es. subst s1. reflexivity.
Qed.

(* non-vacuity: two commands; the server answers the first with the STATUS response of Examples_RT (a quoted mailbox with an
   escaped quote) and `A0001 OK`, the second with `a0002 OK` -- a completion that is NOT its own, the tag differs in
   case -- and then `A0002 no`; delivered in four reads cut inside the STATUS line and inside the tags *)
Local Open Scope string_scope.
Local Open Scope list_scope.

Definition done_value (tag : list byte) (st : string) : val :=
  VRec "Response::Done" [("tag", VCon "RequestId" [VBytes tag]); ("status", VCon st []); ("code", VNone); ("information", VNone)].

Example conversation_example : exists answers ops t,
  length answers = 2%nat /\ conformant (List.concat answers) /\ Forall2 answer_for (tags_from 0 2) answers /\
  data_only (io_rd t) /\ bytes_of (io_rd t) = wire (List.concat answers) /\ length (io_rd t) = 5%nat /\
  match session ops (client_init t) with
  | (c', started, outs) => Forall (In PNone) outs /\ map frames_of outs = map expected answers /\ rf_buf (c_rf c') = []
  end.
Proof.
  destruct Examples_RT.ex_status_escaped as (v & Hv & Ev).
  match type of Hv with enc_response _ ?w => set (W := w) in * end.
  set (d1 := (done_value (bs "A0001") "Status::Ok", bs "A0001" ++ [32] ++ bs "OK" ++ [13; 10])).
  set (x2 := (done_value (bs "a0002") "Status::Ok", bs "a0002" ++ [32] ++ bs "OK" ++ [13; 10])).
  set (d2 := (done_value (bs "A0002") "Status::No", bs "A0002" ++ [32] ++ bs "no" ++ [13; 10])).
  assert (H1 : enc_response (fst d1) (snd d1)) by (apply resp_tagged, enc_tagged_bare; [discriminate | reflexivity | apply st_ok; reflexivity]).
  assert (Hx : enc_response (fst x2) (snd x2)) by (apply resp_tagged, enc_tagged_bare; [discriminate | reflexivity | apply st_ok; reflexivity]).
  assert (H2 : enc_response (fst d2) (snd d2)) by (apply resp_tagged, enc_tagged_bare; [discriminate | reflexivity | apply st_no; reflexivity]).
  set (answers := [[(v, W); d1]; [x2; d2]]).
  set (S := wire (List.concat answers)).
  set (t := mk_io [RChunk (firstn 20 S); RNotReady; RChunk (firstn 30 (skipn 20 S)); RChunk (firstn 12 (skipn 50 S)); RChunk (skipn 62 S)] [] [] []).
  exists answers, [(bs "STATUS x (MESSAGES UIDNEXT)", 6%nat); (bs "CHECK", 6%nat)], t.
  assert (Hs : conformant (List.concat answers)).
  { unfold conformant, answers. cbn [List.concat app]. repeat (apply Forall_cons; [assumption|]). apply Forall_nil. }
  assert (Ha : Forall2 answer_for (tags_from 0 2) answers).
  { unfold answers. change (tags_from 0 2) with [tag_of 1; tag_of 2]. constructor; [|constructor; [|constructor]].
    - exists [(v, W)], d1. split; [reflexivity|]. split; [vm_compute; reflexivity|]. constructor; [|constructor].
      cbn [fst]. subst v. vm_compute. discriminate.
    - exists [x2], d2. split; [reflexivity|]. split; [vm_compute; reflexivity|]. constructor; [|constructor]. vm_compute. discriminate. }
  assert (Hd : data_only (io_rd t)) by (unfold t; cbn [io_rd]; repeat constructor).
  assert (Hb : bytes_of (io_rd t) = wire (List.concat answers)).
  { subst t S answers. vm_compute. reflexivity. }
  split; [reflexivity|]. split; [exact Hs|]. split; [exact Ha|]. split; [exact Hd|]. split; [exact Hb|]. split; [reflexivity|].
  destruct (session _ (client_init t)) as [[c' started] outs] eqn:E.
  assert (Hend : Forall (In PNone) outs).
  { subst v. clear -E. vm_compute in E. injection E as _ _ <-. repeat constructor; cbn; tauto. }
  split; [exact Hend|].
  refine (conversation_lemma answers _ (client_init t) c' started outs E eq_refl Hd Hb Hs _ Ha Hend).
  cbn. unfold U64_MAX. lia.
Qed.
