(* M7 (part): hand model of imap-proto/src/builders/command.rs: quoted_string and the builders that
   take text (login, select, examine, list), plus the request encoder of tokio-imap/src/codec.rs.
   Definitions only. *)
From TI Require Import Bytes.

Definition is_crlf (b : byte) : bool := (b =? 13) || (b =? 10).
Definition is_qspecial (b : byte) : bool := (b =? 92) || (b =? 34).

Definition slice (l : list byte) (a b : nat) : list byte := firstn (b - a) (skipn a l).

(* the loop of quoted_string: `for (i, b) in bytes.iter().enumerate()` with the locals (start, new) *)
Fixpoint qs_loop (bytes rest : list byte) (i start : nat) (new : list byte) : option (nat * list byte) :=
  match rest with
  | [] => Some (start, new)
  | b :: rest' =>
    if is_crlf b then None
    else if is_qspecial b then
      let new1 := if Nat.ltb start i then new ++ slice bytes start i else new in
      qs_loop bytes rest' (S i) (S i) (new1 ++ [92; b])
    else qs_loop bytes rest' (S i) start new
  end.

Inductive qres := QOk (q : list byte) | QRefused | QPanic.

(* Err("CR and LF not allowed") = QRefused; String::from_utf8(new).unwrap() failing = QPanic *)
Definition quoted_string (s : list byte) : qres :=
  match qs_loop s s 0 0 [] with
  | None => QRefused
  | Some (start, new) =>
    if Nat.eqb start 0 then QOk s
    else let new' := if Nat.ltb start (length s) then new ++ skipn start s else new in
         if utf8_valid new' then QOk new' else QPanic
  end.

(* the specification: escape the two specials, copy everything else *)
Definition escape (s : list byte) : list byte :=
  flat_map (fun b => if is_qspecial b then [92; b] else [b]) s.

(* builders: format!("VERB \"{}\" ...", quoted_string(x).unwrap()); .unwrap() on Err is the refusal *)
Inductive bres := BOk (args : list byte) | BRefused | BPanic.
Definition with_q (s : list byte) (k : list byte -> bres) : bres :=
  match quoted_string s with QOk q => k q | QRefused => BRefused | QPanic => BPanic end.
Definition dq (q : list byte) : list byte := 34 :: q ++ [34].

Definition build1 (verb : list byte) (a : list byte) : bres :=
  with_q a (fun qa => BOk (verb ++ 32 :: dq qa)).
Definition build2 (verb : list byte) (a b : list byte) : bres :=
  with_q a (fun qa => with_q b (fun qb => BOk (verb ++ 32 :: dq qa ++ 32 :: dq qb))).

Definition login (u p : list byte) : bres := build2 (bs "LOGIN") u p.
Definition list_cmd (r g : list byte) : bres := build2 (bs "LIST") r g.
Definition select (m : list byte) : bres := build1 (bs "SELECT") m.
Definition examine (m : list byte) : bres := build1 (bs "EXAMINE") m.

(* ImapCodec::encode: tag SP args CRLF *)
Definition encode_request (tag args : list byte) : list byte := tag ++ 32 :: args ++ [13; 10].

(* ---- an independent lexer for the emitted line (the property's reading of "quoted string"):
   DQUOTE *( any byte except DQUOTE, backslash, CR, LF  /  backslash (DQUOTE / backslash) ) DQUOTE.
   Returns (unescaped content, rest). *)
Fixpoint lex_q_body (l : list byte) : option (list byte * list byte) :=
  match l with
  | [] => None
  | c :: r =>
    if c =? 34 then Some ([], r)
    else if is_crlf c then None
    else if c =? 92 then
      match r with
      | e :: r' => if is_qspecial e then
                     match lex_q_body r' with Some (un, rest) => Some (e :: un, rest) | None => None end
                   else None
      | [] => None
      end
    else match lex_q_body r with Some (un, rest) => Some (c :: un, rest) | None => None end
  end.
Definition lex_quoted (l : list byte) : option (list byte * list byte) :=
  match l with c :: r => if c =? 34 then lex_q_body r else None | [] => None end.

Fixpoint lex_verb (l : list byte) : list byte * list byte :=
  match l with
  | c :: r => if is_upper c then let (v, rest) := lex_verb r in (c :: v, rest) else ([], l)
  | [] => ([], [])
  end.

(* exactly n arguments, each preceded by one SP, then the end of the command *)
Fixpoint lex_args (n : nat) (l : list byte) : option (list (list byte)) :=
  match n with
  | O => match l with [] => Some [] | _ => None end
  | S n' => match l with
            | c :: r => if c =? 32 then
                          match lex_quoted r with
                          | Some (a, rest) => match lex_args n' rest with Some args => Some (a :: args) | None => None end
                          | None => None
                          end
                        else None
            | [] => None
            end
  end.
Definition lex_command (n : nat) (l : list byte) : option (list byte * list (list byte)) :=
  let (v, rest) := lex_verb l in
  match lex_args n rest with Some args => Some (v, args) | None => None end.
