(* Write side, end to end: C06 (wire = lines of the started commands) composed with C11 (tags) and C10 / C14 (no
   builder chain emits CR or LF).  Depends on the client machine, the tag generator and the builder tables only. *)
From TI Require Import Bytes Grammar Nom Interp Natives Tags Builders Client ClientProofs TagsProofs BuildersProofs Machine BuilderLines.
From TI.gen Require Import BuilderTables.
From Coq Require Import Lia.

(* the commands of a session with the tags the generator hands out, in issue order *)
Fixpoint issue (n : N) (al : list (list byte)) : list (list byte * list byte) :=
  match al with [] => [] | a :: al' => (tag_of (n + 1), a) :: issue (n + 1) al' end.
Definition line (p : list byte * list byte) : list byte := encode_request (fst p) (snd p).

Inductive sub {A} : list A -> list A -> Prop :=
| sub_nil l : sub [] l
| sub_skip x l1 l2 : sub l1 l2 -> sub l1 (x :: l2)
| sub_take x l1 l2 : sub l1 l2 -> sub (x :: l1) (x :: l2).

Lemma sub_In {A} (l1 l2 : list A) : sub l1 l2 -> forall x, In x l1 -> In x l2.
Proof. induction 1 as [l|x l1 l2 _ IH|x l1 l2 _ IH]; intros y Hy; cbn in *; [contradiction | auto | destruct Hy; auto]. Qed.

Lemma sub_NoDup {A} (l1 l2 : list A) : sub l1 l2 -> NoDup l2 -> NoDup l1.
Proof.
  induction 1 as [l|x l1 l2 Hs IH|x l1 l2 Hs IH]; intros Hn; [constructor | inversion Hn; auto |].
  inversion Hn as [|? ? Hx Hn']; subst. constructor; [|auto]. intros Hi. apply Hx. eapply sub_In; eauto.
Qed.

Lemma sub_map {A B} (f : A -> B) l1 l2 : sub l1 l2 -> sub (map f l1) (map f l2).
Proof. induction 1 as [l|x l1 l2 _ IH|x l1 l2 _ IH]; cbn [map]; [apply sub_nil | apply sub_skip; exact IH | apply sub_take; exact IH]. Qed.

Lemma sub_Forall {A} (P : A -> Prop) l1 l2 : sub l1 l2 -> Forall P l2 -> Forall P l1.
Proof. intros Hs HF. apply Forall_forall. intros x Hx. eapply Forall_forall; [exact HF | eapply sub_In; eauto]. Qed.

(* the commands started in a session are, in order, some of the commands issued -- each with the tag of its own
   call (a stream dropped before its command was handed to the codec leaves a gap in the tags, nothing else) *)
Lemma session_started_lemma : forall ops c c' started outs, session ops c = (c', started, outs) ->
  Client.c_next c + N.of_nat (length ops) <= U64_MAX ->
  exists issued, started = map line issued /\ sub issued (issue (Client.c_next c) (map fst ops)).
Proof.
  induction ops as [|[args n] ops IH]; intros c c' started outs H Hb.
  - cbn in H. injection H as <- <- <-. exists []. split; [reflexivity | constructor].
  - cbn [session] in H. unfold Client.call in H. unfold idgen_next in H.
    assert (E : (Client.c_next c <? U64_MAX) = true) by (apply N.ltb_lt; cbn [length] in Hb; lia). rewrite E in H.
    destruct (polls n _ _) as [[c2 s2] os] eqn:Ep. destruct (session ops c2) as [[c3 st3] outs3] eqn:Es. injection H as <- <- <-.
    destruct (polls_props _ _ _ _ _ _ Ep) as [T [A [Nx [_ [_ _]]]]]. { intros [Hx|Hx]; discriminate. }
    cbn [s_tag s_args Client.c_next] in T, A, Nx.
    destruct (IH _ _ _ _ Es) as [issued [Hst Hsub]]. { rewrite Nx. cbn [length] in Hb. lia. }
    rewrite Nx in Hsub. cbn [map fst issue].
    destruct (left_start s2).
    + exists ((tag_of (Client.c_next c + 1), args) :: issued). split; [|constructor; exact Hsub].
      cbn [map app]. f_equal; [|exact Hst]. unfold line, line_of. cbn [fst snd]. now rewrite T, A.
    + exists issued. split; [exact Hst | constructor; exact Hsub].
Qed.

Lemma issue_tags : forall al n, map fst (issue n al) = map (fun i => tag_of (n + 1 + N.of_nat i)) (seq 0 (length al)).
Proof.
  induction al as [|a al IH]; intros n; [reflexivity|]. cbn [issue map fst length seq]. f_equal.
  - f_equal. cbn. lia.
  - rewrite IH, <- seq_shift, map_map. apply map_ext. intros i. f_equal. lia.
Qed.

Lemma issue_snd : forall al n, map snd (issue n al) = al.
Proof. induction al as [|a al IH]; intros n; [reflexivity|]. cbn [issue map snd]. now rewrite IH. Qed.

Lemma issue_tags_nodup al n : N.of_nat (length al) <= 10000 -> n + N.of_nat (length al) <= U64_MAX -> NoDup (map fst (issue n al)).
Proof.
  intros H1 H2. rewrite issue_tags.
  pose proof (idgen_run_spec (length al) n H2) as R.
  exact (proj1 (idgen_window_nodup_lemma n (length al) _ _ H1 H2 R)).
Qed.

Lemma tag_no_crlf n : ~ In 13 (tag_of n) /\ ~ In 10 (tag_of n).
Proof.
  destruct (tag_valid_lemma n) as [_ [H _]]. rewrite Forall_forall in H.
  split; intros Hi; apply H in Hi; vm_compute in Hi; discriminate.
Qed.

(* a whole session of a fresh client, at most 10 000 commands whose arguments hold no CR or LF (which is what the
   builders guarantee, C10 / C14): whatever the transport does -- partial writes, not-ready from write, flush or
   read, streams abandoned at any point -- the bytes on the wire plus the bytes still buffered are the lines
   `tag SP arguments CRLF` of the commands started, each exactly once, in issue order, each a single line, with
   pairwise distinct tags, each the tag of its own call *)
Lemma session_commands_lemma : forall ops t c' started outs,
  session ops (client_init t) = (c', started, outs) ->
  N.of_nat (length ops) <= 10000 ->
  Forall (fun a => ~ In 13 a /\ ~ In 10 a) (map fst ops) ->
  exists issued,
    io_wire (c_io c') ++ c_wbuf c' = io_wire t ++ List.concat (map line issued) /\
    sub issued (issue 0 (map fst ops)) /\
    NoDup (map fst issued) /\
    Forall (fun p => exists body, line p = body ++ [13; 10] /\ ~ In 13 body /\ ~ In 10 body) issued.
Proof.
  intros ops t c' started outs H Hlen Hargs.
  assert (Hb : Client.c_next (client_init t) + N.of_nat (length ops) <= U64_MAX) by (cbn; unfold U64_MAX; lia).
  destruct (session_started_lemma _ _ _ _ _ H Hb) as [issued [Hst Hsub]]. cbn [client_init Client.c_next] in Hsub.
  exists issued. split; [rewrite <- Hst; exact (wire_is_prefix_lemma _ _ _ _ _ H)|]. split; [exact Hsub|]. split.
  - apply (sub_NoDup _ _ (sub_map fst _ _ Hsub)). apply issue_tags_nodup; rewrite map_length; [exact Hlen | unfold U64_MAX; lia].
  - apply (sub_Forall _ _ _ Hsub). apply Forall_forall. intros [tg a] Hin. unfold line. cbn [fst snd].
    assert (Ha : ~ In 13 a /\ ~ In 10 a).
    { rewrite Forall_forall in Hargs. apply Hargs. rewrite <- (issue_snd (map fst ops) 0). apply (in_map snd) in Hin. exact Hin. }
    assert (Ht : exists k, tg = tag_of k).
    { apply (in_map fst) in Hin. rewrite issue_tags in Hin. apply in_map_iff in Hin. destruct Hin as [i [Hi _]]. cbn [fst] in Hi. eexists. symmetry. exact Hi. }
    destruct Ht as [k ->]. destruct (tag_no_crlf k) as [T1 T2]. destruct Ha as [A1 A2].
    exact (encode_one_line_lemma _ _ T1 T2 A1 A2).
Qed.

(* the tables regenerated from the builders' source hold no CR / LF in any literal piece or keyword *)
Lemma gen_machine_ok : machine_ok gen_machine = true.
Proof. vm_compute. reflexivity. Qed.

Definition built (m : machine) (a : list byte) : Prop := exists name cargs calls next, run_chain m name cargs calls = Some (a, next).

(* ... hence for sessions whose commands all come out of builder chains -- any constructors, methods, numbers, keywords
   and text arguments the types admit -- nothing needs to be assumed about the arguments *)
Lemma built_session_lemma : forall m, machine_ok m = true -> forall ops t c' started outs,
  session ops (client_init t) = (c', started, outs) ->
  N.of_nat (length ops) <= 10000 ->
  Forall (built m) (map fst ops) ->
  exists issued,
    io_wire (c_io c') ++ c_wbuf c' = io_wire t ++ List.concat (map line issued) /\
    sub issued (issue 0 (map fst ops)) /\
    NoDup (map fst issued) /\
    Forall (fun p => exists body, line p = body ++ [13; 10] /\ ~ In 13 body /\ ~ In 10 body) issued.
Proof.
  intros m Hm ops t c' started outs H Hlen Hb. eapply session_commands_lemma; eauto.
  eapply Forall_impl; [|exact Hb]. intros a (name & cargs & calls & next & Hr).
  exact (chain_single_line_lemma m Hm _ _ _ _ _ Hr).
Qed.

Local Open Scope string_scope.
Local Open Scope list_scope.
(* non-vacuity (on the reference tables, which C14 shows equal to the regenerated ones): LOGIN with a quote and a backslash in the password, then UID FETCH 2:4,7 (FLAGS UID) (CHANGEDSINCE 9),
   over a transport that takes 3 bytes, then is not ready, then takes the rest piecemeal; the first stream is dropped
   after two polls (its command still partly buffered), the second finishes the job *)
Example built_session_example :
  let a1 := run_chain ref_machine "login" [AStr (bs "u"); AStr (bs "p""\")] [] in
  let a2 := run_chain ref_machine "uid_fetch" []
              [("range", [ARange 2 4]); ("num", [ANum 7]); ("attr", [AKw "Attribute::Flags"]); ("attr", [AKw "Attribute::Uid"]);
               ("changed_since", [ANum 9])] in
  exists x1 n1 x2 n2, a1 = Some (x1, n1) /\ a2 = Some (x2, n2) /\
    let t := mk_io [] [WAccept 3; WNotReady; WAccept 10; WAccept 100; WAccept 100] [FOk; FOk; FOk] [] in
    match session [(x1, 2%nat); (x2, 4%nat)] (client_init t) with
    | (c', started, outs) =>
      length started = 2%nat /\
      io_wire (c_io c') = bs "A0001 LOGIN ""u"" ""p\""\\""" ++ [13; 10] ++ bs "A0002 UID FETCH 2:4,7 (FLAGS UID) (CHANGEDSINCE 9)" ++ [13; 10]
    end.
Proof. cbn zeta. do 4 eexists. split; [vm_compute; reflexivity|]. split; [vm_compute; reflexivity|]. vm_compute. split; reflexivity. Qed.
