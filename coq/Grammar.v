(* M2: the deep embedding.  Universal values, the first-order action language that regular closures
   are translated into, leaves (nom primitives), and the grammar tree G.  Definitions only. *)
From TI Require Import Bytes.

(* ---------------------------------------------------------------- values *)
Inductive val :=
| VUnit
| VBytes (b : list byte)                 (* &[u8], &str, String, Cow<..>: the bytes *)
| VNum (n : N)
| VBool (b : bool)
| VNone
| VSome (v : val)
| VList (l : list val)                   (* Vec *)
| VTuple (l : list val)
| VCon (name : string) (args : list val) (* enum variant / tuple struct, e.g. "Status::Ok" *)
| VRec (name : string) (fields : list (string * val)). (* struct or struct-like variant *)

(* outcome of a semantic action (closure) *)
Inductive ares := AVal (v : val) | AErr | APanic.

(* ---------------------------------------------------------------- actions *)
Inductive pat :=
| PWild
| PVar (x : string)
| PTuple (ps : list pat).

Inductive aexp :=
| AVar (x : string)
| AField (e : aexp) (f : string)         (* struct field *)
| AProj (e : aexp) (k : nat)             (* tuple index e.k *)
| ACon (name : string) (args : list aexp)
| ARec (name : string) (fields : list (string * aexp))
| ATuple (es : list aexp)
| AVec (es : list aexp)
| ABytes (b : list byte)
| ANumLit (n : N)
| ABoolLit (b : bool)
| ASome (e : aexp)
| ANone
| AOptMap (x : string) (body : aexp) (e : aexp)   (* e.map(|x| body) *)
| AIsSome (e : aexp)
| AUnwrap (e : aexp)                     (* Option::unwrap / Result::unwrap: panics on None *)
| AIndex (e : aexp) (k : N)              (* slice index e[k]: panics when out of range *)
| ASliceFrom (e : aexp) (k : N)          (* &e[k..]: panics when k > len *)
| ACall (native : string) (args : list aexp).   (* hand-modelled function, see Natives.v *)

Record action := mk_action { a_pat : pat; a_body : aexp }.

(* ---------------------------------------------------------------- leaves *)
Definition cls := byte -> bool.

Inductive leaf :=
| LTag (s : list byte)                   (* bytes::streaming::tag; character::streaming::char c is LTag [c] *)
| LTagNC (s : list byte)                 (* bytes::streaming::tag_no_case *)
| LTakeWhile (c : cls)                   (* bytes::streaming::take_while *)
| LTakeWhile1 (c : cls)                  (* bytes::streaming::take_while1; digit1/space1 (space0) are LTakeWhile1 (LTakeWhile) of a fixed class *)
| LEscaped (normal : cls) (ctl : byte) (escs : list byte)
                                         (* escaped(take_while1(normal), ctl, one_of(escs)), streaming *)
| LNumber (bits : N)                     (* core::number (32) / core::number_64 (64): hand-modelled *)
| LLiteral                               (* core::literal: hand-modelled *)
| LComplete (what : string).             (* a nom *complete*-mode primitive: not a streaming parser *)

(* how a call passes the nesting depth *)
Inductive darg := DSame | DSucc | DZero.

Inductive G :=
| Leaf (l : leaf)
| Ref (f : N) (d : darg)                  (* call of the parser function with identifier f *)
| Guard (max : nat) (g : G)              (* if depth >= max { return Err(Error) } *)
| Seq (gs : list G)                      (* tuple / pair / preceded / ... : value is the VTuple of all results *)
| Alt (gs : list G)
| Opt (g : G)
| OptOpt (g : G)                         (* core::opt_opt *)
| Many0 (g : G)
| Many1 (g : G)
| SepList0 (sep g : G)
| SepList1 (sep g : G)
| Recognize (g : G)
| Map (a : action) (g : G)
| MapRes (a : action) (g : G)
| Unsupported (why : string).

(* parser outcome.  ROk carries the number of bytes consumed (nom's progress tests compare input
   lengths; the model compares `used` with 0).  RFail = nom::Err::Failure (no combinator used today
   produces it).  RPanic / RFuel have no counterpart among the legitimate verdicts. *)
Inductive res :=
| ROk (rest : list byte) (v : val) (used : N)
| RInc
| RErr
| RFail
| RPanic
| RFuel.
