#!/bin/sh
# Build the model-side driver from the extracted model (coq/extracted/model.ml).
set -e
cd "$(dirname "$0")"
mkdir -p _build
cp ../coq/extracted/model.ml ../coq/extracted/model.mli driver.ml _build/
cd _build
ocamlfind ocamlopt -w -a -package str model.mli model.ml driver.ml -o ../driver
