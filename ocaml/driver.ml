(* Model-side driver for the correspondence check (Tie B).  Reads one case per line on stdin
   (sub-command given as argv[1]) and prints one canonical result line per case.
   Everything semantic comes from the extracted module Model; this file only converts
   representations (OCaml int/string <-> extracted N / list). *)
module M = Model

let rec pos_of_int (i : int) : M.positive =
  if i = 1 then M.XH else if i land 1 = 0 then M.XO (pos_of_int (i lsr 1)) else M.XI (pos_of_int (i lsr 1))
let n_of_int (i : int) : M.n = if i = 0 then M.N0 else M.Npos (pos_of_int i)
let rec int_of_pos = function M.XH -> 1 | M.XO p -> 2 * int_of_pos p | M.XI p -> 2 * int_of_pos p + 1
let int_of_n = function M.N0 -> 0 | M.Npos p -> int_of_pos p

let byte_tbl : M.n array = Array.init 256 n_of_int
let bytes_of_string (s : string) : M.n list =
  let r = ref [] in
  for i = String.length s - 1 downto 0 do r := byte_tbl.(Char.code s.[i]) :: !r done; !r
let string_of_bytes (l : M.n list) : string =
  let b = Buffer.create 64 in
  List.iter (fun c -> Buffer.add_char b (Char.chr ((int_of_n c) land 255))) l; Buffer.contents b
let hex_digit c = match c with
  | '0'..'9' -> Char.code c - 48 | 'a'..'f' -> Char.code c - 87 | 'A'..'F' -> Char.code c - 55
  | _ -> failwith "hex"
let unhex (s : string) : string =
  let n = String.length s / 2 in
  String.init n (fun i -> Char.chr (hex_digit s.[2*i] * 16 + hex_digit s.[2*i+1]))
let hex (s : string) : string =
  let b = Buffer.create (2 * String.length s) in
  String.iter (fun c -> Buffer.add_string b (Printf.sprintf "%02x" (Char.code c))) s; Buffer.contents b
let n_of_decimal (s : string) : M.n = M.dec (bytes_of_string s)
let decimal_of_n (x : M.n) : string = string_of_bytes (M.to_dec x)

let rec nat_of_int (i : int) : M.nat = if i <= 0 then M.O else M.S (nat_of_int (i - 1))

let iter_lines f =
  try while true do f (input_line stdin) done with End_of_file -> ()

(* ---- tags: "<start state decimal> <count>" -> count lines of tags ---- *)
let cmd_tags () =
  iter_lines (fun line ->
    match String.split_on_char ' ' line with
    | [s; k] ->
      let st = ref (n_of_decimal s) in
      for _ = 1 to int_of_string k do
        match M.idgen_next !st with
        | None -> print_endline "OVERFLOW"
        | Some (s', t) -> st := s'; print_endline (string_of_bytes t)
      done
    | _ -> print_endline "BADCASE")

(* ---- bodystruct: "<tree>|<labels>" -> candidate paths joined by ';' (ROOT for the empty path), NONE ---- *)
let parse_tree (s : string) : M.tree =
  let pos = ref 0 in
  let len = String.length s in
  let num () =
    let st = !pos in
    while !pos < len && s.[!pos] >= '0' && s.[!pos] <= '9' do incr pos done;
    n_of_int (int_of_string (String.sub s st (!pos - st))) in
  let rec tree () =
    match s.[!pos] with
    | 'L' -> incr pos; M.Leaf (num ())
    | 'M' ->
      incr pos; let l = num () in
      incr pos; (* '(' *)
      let cs = ref [] in
      while s.[!pos] <> ')' do
        if s.[!pos] = ' ' then incr pos;
        cs := tree () :: !cs
      done;
      incr pos; M.Multi (l, List.rev !cs)
    | _ -> failwith "tree" in
  tree ()

let cmd_bodystruct () =
  iter_lines (fun line ->
    match String.split_on_char '|' line with
    | [t; ls] ->
      let tree = parse_tree t in
      let labels = if ls = "" then [] else List.map int_of_string (String.split_on_char ',' ls) in
      let pred n = List.mem (int_of_n (M.label n)) labels in
      let cands = M.candidates pred tree in
      if cands = [] then print_endline "NONE" else
      print_endline (String.concat ";" (List.map (fun p ->
        if p = [] then "ROOT" else String.concat "." (List.map (fun k -> string_of_int (int_of_n k)) p)) cands))
    | _ -> print_endline "BADCASE")

(* ---- builder: "<which> <hex a> <hex b>" -> "OK <hex args> <hex wire>" | REFUSED | PANIC ---- *)
let cmd_builder () =
  let tag1 = M.tag_of (n_of_int 1) in
  iter_lines (fun line ->
    match String.split_on_char ' ' line with
    | [which; a; b] ->
      let a = bytes_of_string (unhex a) and b = bytes_of_string (unhex b) in
      let r = match which with
        | "login" -> M.login a b | "list" -> M.list_cmd a b
        | "select" -> M.select a | "examine" -> M.examine a | _ -> failwith "which" in
      (match r with
       | M.BOk args -> Printf.printf "OK %s %s\n" (hex (string_of_bytes args)) (hex (string_of_bytes (M.encode_request tag1 args)))
       | M.BRefused -> print_endline "REFUSED"
       | M.BPanic -> print_endline "PANIC")
    | _ -> print_endline "BADCASE")

(* ---- canonical printing of values and parser results (same syntax as harness/src/dump.rs) ---- *)
let string_of_coq_string (s : M.string) : string =
  let b = Buffer.create 16 in
  let rec go = function
    | M.EmptyString -> ()
    | M.String (a, r) -> Buffer.add_char b (Char.chr (int_of_n (M.n_of_ascii a))); go r in
  go s; Buffer.contents b

let rec show_val (b : Buffer.t) (v : M.val0) : unit =
  match v with
  | M.VUnit -> Buffer.add_string b "()"
  | M.VBytes l -> Buffer.add_char b 'x'; List.iter (fun c -> Buffer.add_string b (Printf.sprintf "%02x" ((int_of_n c) land 255))) l
  | M.VNum n -> Buffer.add_string b (decimal_of_n n)
  | M.VBool t -> Buffer.add_string b (if t then "true" else "false")
  | M.VNone -> Buffer.add_string b "None"
  | M.VSome x -> Buffer.add_string b "(Some "; show_val b x; Buffer.add_char b ')'
  | M.VList l -> Buffer.add_char b '['; List.iteri (fun i x -> if i > 0 then Buffer.add_char b ' '; show_val b x) l; Buffer.add_char b ']'
  | M.VTuple l -> Buffer.add_string b "(T"; List.iter (fun x -> Buffer.add_char b ' '; show_val b x) l; Buffer.add_char b ')'
  | M.VCon (n, l) -> Buffer.add_char b '('; Buffer.add_string b (string_of_coq_string n);
    List.iter (fun x -> Buffer.add_char b ' '; show_val b x) l; Buffer.add_char b ')'
  | M.VRec (n, fs) ->
    let fs = List.map (fun (f, x) -> (string_of_coq_string f, x)) fs in
    let fs = List.sort (fun (a, _) (c, _) -> compare a c) fs in
    Buffer.add_char b '{'; Buffer.add_string b (string_of_coq_string n);
    List.iter (fun (f, x) -> Buffer.add_char b ' '; Buffer.add_string b f; Buffer.add_char b '='; show_val b x) fs;
    Buffer.add_char b '}'

let show_res (r : M.res) : string =
  match r with
  | M.ROk (_, v, u) -> let b = Buffer.create 256 in
    Buffer.add_string b "OK "; Buffer.add_string b (decimal_of_n u); Buffer.add_char b ' '; show_val b v; Buffer.contents b
  | M.RInc -> "INC" | M.RErr -> "ERR" | M.RFail -> "FAIL" | M.RPanic -> "PANIC" | M.RFuel -> "FUEL"

(* ---- parse: "<hex input>" -> canonical result ---- *)
let cmd_parse () =
  iter_lines (fun line ->
    let inp = bytes_of_string (unhex line) in
    print_endline (show_res (M.parse inp)))

(* ---- owned: "<hex input>" -> parse, into_owned on the value model; "<result> wf=<0|1>" ---- *)
let cmd_owned () =
  iter_lines (fun line ->
    let inp = bytes_of_string (unhex line) in
    let (r, wf) = M.owned_parse inp in
    print_endline (show_res r ^ (if wf then " wf=1" else " wf=0")))

(* ---- chains: "ctor(args)|method(args)|..." -> "<hex args>\t<next_state>" | NONE (the machine regenerated from the source) ---- *)
let coq_string_of (s : string) : M.string =
  let r = ref M.EmptyString in
  for i = String.length s - 1 downto 0 do
    let c = Char.code s.[i] in
    let b k = (c lsr k) land 1 = 1 in
    r := M.String (M.Ascii (b 0, b 1, b 2, b 3, b 4, b 5, b 6, b 7), !r)
  done; !r

let parse_carg (s : string) : M.carg =
  let rest = String.sub s 1 (String.length s - 1) in
  match s.[0] with
  | 'n' -> M.ANum (n_of_decimal rest)
  | 'r' -> (match String.split_on_char ':' rest with
            | [a; b] -> M.ARange (n_of_decimal a, n_of_decimal b)
            | _ -> failwith "range")
  | 'f' -> M.ARangeFrom (n_of_decimal rest)
  | 'k' -> M.AKw (coq_string_of rest)
  | 's' -> M.AStr (bytes_of_string (unhex rest))
  | _ -> failwith "arg"

let parse_call (s : string) : M.string * M.carg list =
  let i = String.index s '(' in
  let name = String.sub s 0 i in
  let inner = String.sub s (i + 1) (String.length s - i - 2) in
  let args = if inner = "" then [] else List.map parse_carg (String.split_on_char ';' inner) in
  (coq_string_of name, args)

let cmd_chains () =
  iter_lines (fun line ->
    match List.map parse_call (String.split_on_char '|' line) with
    | (name, cargs) :: calls ->
      (match M.run_chain M.gen_machine name cargs calls with
       | Some (args, next) -> print_endline (hex (string_of_bytes args) ^ "\t" ^ string_of_coq_string next)
       | None -> print_endline "NONE")
    | [] -> print_endline "BADCASE")

(* ---- frames: "W<hex>:<slack>;D;X<id>;F;N<slack>;C" -> "id=hex|..." of the live frames (storage model, C07) ---- *)
let rec int_of_nat = function M.O -> 0 | M.S n -> 1 + int_of_nat n
let cmd_frames () =
  iter_lines (fun line ->
    let st = ref (M.finit (nat_of_int 8192)) in
    let ok = ref true in
    List.iter (fun e ->
      if e <> "" then begin
        let rest = String.sub e 1 (String.length e - 1) in
        let ev = match e.[0] with
          | 'W' -> (match String.split_on_char ':' rest with
                    | [h; sl] -> Some (M.EWrite (bytes_of_string (unhex h), nat_of_int (int_of_string sl)))
                    | _ -> None)
          | 'D' -> Some M.EDecode
          | 'X' -> Some (M.EDrop (nat_of_int (int_of_string rest)))
          | 'F' -> Some M.EFront
          | 'N' -> Some (M.ENew (nat_of_int (int_of_string rest)))
          | 'C' -> Some M.EDropConn
          | _ -> None in
        match ev with
        | Some (M.EDecode) ->
          let before = int_of_nat (!st).M.next_id in
          st := M.fstep !st M.EDecode;
          if int_of_nat (!st).M.next_id <> before + 1 then ok := false   (* the implementation delivered a frame here *)
        | Some ev -> st := M.fstep !st ev
        | None -> ok := false
      end) (String.split_on_char ';' line);
    if not !ok then print_endline "MISMATCH: a decode of the implementation has no counterpart in the model"
    else begin
      let fs = List.map (fun (id, v) -> (int_of_nat id, hex (string_of_bytes (M.read (!st).M.heap v)))) (!st).M.live in
      let fs = List.sort compare fs in
      print_endline (String.concat "|" (List.map (fun (id, h) -> string_of_int id ^ "=" ^ h) fs))
    end)

(* ---- client: "R<reads>|W<writes>|L<flushes>|O<ops>" -> observations ---- *)
let split_nonempty c s = if s = "" then [] else String.split_on_char c s

let show_pout (o : M.pout) : string =
  match o with
  | M.PNone -> "N"
  | M.PPending -> "P"
  | M.PPanic -> "PANIC"
  | M.PItem it -> (match it with
    | M.IFrame (raw, v) -> let b = Buffer.create 256 in
      Buffer.add_string b "F:"; Buffer.add_string b (hex (string_of_bytes raw)); Buffer.add_char b ':'; show_val b v; Buffer.contents b
    | M.IErrDecode -> "E:decode" | M.IErrRemaining -> "E:remaining" | M.IErrIo -> "E:io"
    | M.IErrWrite -> "E:write" | M.IErrEnded -> "E:ended")

let cmd_client () =
  iter_lines (fun line ->
    match String.split_on_char '|' line with
    | [r; w; l; o] ->
      let rd = List.map (fun e -> match e.[0] with
        | 'p' -> M.RNotReady | 'e' -> M.REof | 'x' -> M.RIoErr
        | 'c' -> M.RChunk (bytes_of_string (unhex (String.sub e 1 (String.length e - 1))))
        | _ -> failwith "rd") (split_nonempty ',' (String.sub r 1 (String.length r - 1))) in
      let wr = List.map (fun e -> match e.[0] with
        | 'p' -> M.WNotReady | 'z' -> M.WZero | 'x' -> M.WIoErr
        | 'a' -> M.WAccept (n_of_int (int_of_string (String.sub e 1 (String.length e - 1))))
        | _ -> failwith "wr") (split_nonempty ',' (String.sub w 1 (String.length w - 1))) in
      let fl = List.map (fun e -> match e.[0] with
        | 'o' -> M.FOk | 'p' -> M.FNotReady | 'x' -> M.FIoErr | _ -> failwith "fl")
        (split_nonempty ',' (String.sub l 1 (String.length l - 1))) in
      let ops = split_nonempty ',' (String.sub o 1 (String.length o - 1)) in
      let c = ref (M.client_init { M.io_rd = rd; M.io_wr = wr; M.io_fl = fl; M.io_wire = [] }) in
      let per_cmd = List.map (fun op ->
        match String.split_on_char ':' op with
        | [args; polls] ->
          (match M.call !c (bytes_of_string (unhex args)) with
           | None -> "OVERFLOW"
           | Some (c1, s0) ->
             c := c1;
             let s = ref s0 in
             let items = ref [] in
             let fin = ref false in
             for _ = 1 to int_of_string polls do
               if not !fin then begin
                 let ((c2, s2), out) = M.stream_poll !c !s in
                 c := c2; s := s2;
                 items := show_pout out :: !items;
                 if out = M.PNone then fin := true
               end
             done;
             String.concat "," (List.rev !items))
        | _ -> "BADOP") ops in
      Printf.printf "%s;wire=%s\n" (String.concat ";" per_cmd) (hex (string_of_bytes (!c).M.c_io.M.io_wire))
    | _ -> print_endline "BADCASE")

(* ---- framed: "R<reads>|K<polls>" -> per-poll outputs of the framed connection ---- *)
let parse_reads (r : string) : M.rd_ev list =
  List.map (fun e -> match e.[0] with
    | 'p' -> M.RNotReady | 'e' -> M.REof | 'x' -> M.RIoErr
    | 'c' -> M.RChunk (bytes_of_string (unhex (String.sub e 1 (String.length e - 1))))
    | _ -> failwith "rd") (split_nonempty ',' (String.sub r 1 (String.length r - 1)))

let cmd_framed () =
  iter_lines (fun line ->
    match String.split_on_char '|' line with
    | [r; k] ->
      let rd = ref (parse_reads r) in
      let st = ref M.rf_init in
      let outs = ref [] in
      for _ = 1 to int_of_string (String.sub k 1 (String.length k - 1)) do
        let ((st', o), rd') = M.fr_poll !st !rd in
        st := st'; rd := rd'; outs := show_pout o :: !outs
      done;
      print_endline (String.concat "," (List.rev !outs))
    | _ -> print_endline "BADCASE")

(* ---- probes: argv[2..] = repetition counts -> one hex line per probe read off the grammar (Synth.v) ---- *)
let cmd_probes () =
  let ns = List.map (fun a -> n_of_int (int_of_string a)) (List.tl (List.tl (Array.to_list Sys.argv))) in
  List.iter (fun p -> print_endline (hex (string_of_bytes p))) (M.probes ns)

let cmd_sentences () =
  List.iter (fun p -> print_endline (hex (string_of_bytes p))) (M.sentences ())

(* ---- per-function correspondence: `fninputs [cap]` prints "<fn name>\t<hex input>" lines read off the grammar (standalone
   sentences of every parser function, their prefixes, followers and one-byte substitutions); `fnrun` reads such lines
   and prints the model's answer for that function on that buffer ---- *)
let fn_name_list () = List.map string_of_coq_string (M.fn_names ())
let cmd_fninputs () =
  let cap = if Array.length Sys.argv > 2 then int_of_string Sys.argv.(2) else 300 in
  let names = Array.of_list (fn_name_list ()) in
  let followers = [""; "\r\n"; " "; ")"; "x"; "]"; "\""; "\r"] in
  let subs = [' '; '('; ')'; 'x'; '\r'; '0'; '"'; '\\'; '{'] in
  List.iter (fun (k, ws) ->
    let name = names.(int_of_n k) in
    let seen = Hashtbl.create 64 in
    let count = ref 0 in
    let emit s = if !count < cap && not (Hashtbl.mem seen s) then begin
        Hashtbl.add seen s (); incr count; print_endline (name ^ "\t" ^ hex s) end in
    let ws = List.map string_of_bytes ws in
    (* whole sentences with every follower first, then prefixes, then substitutions *)
    List.iter (fun w -> List.iter (fun f -> emit (w ^ f)) followers) ws;
    List.iter (fun w -> for l = 0 to String.length w - 1 do emit (String.sub w 0 l) done) ws;
    List.iter (fun w ->
      for p = 0 to min (String.length w) 48 - 1 do
        List.iter (fun c -> if w.[p] <> c then emit (String.sub w 0 p ^ String.make 1 c ^ String.sub w (p + 1) (String.length w - p - 1) ^ "\r\n")) subs
      done) ws)
    (M.fn_sentences ())
let cmd_fnrun () =
  let tbl = Hashtbl.create 256 in
  List.iteri (fun i n -> Hashtbl.replace tbl n i) (fn_name_list ());
  iter_lines (fun line ->
    match String.index_opt line '\t' with
    | None -> print_endline "BADCASE"
    | Some t ->
      let name = String.sub line 0 t and h = String.sub line (t + 1) (String.length line - t - 1) in
      match Hashtbl.find_opt tbl name with
      | None -> print_endline "NOFN"
      | Some k -> print_endline (show_res (M.run_fn (n_of_int k) (bytes_of_string (unhex h)))))

let () =
  match Sys.argv.(1) with
  | "probes" -> cmd_probes ()
  | "sentences" -> cmd_sentences ()
  | "fninputs" -> cmd_fninputs ()
  | "fnrun" -> cmd_fnrun ()
  | "framed" -> cmd_framed ()
  | "client" -> cmd_client ()
  | "parse" -> cmd_parse ()
  | "owned" -> cmd_owned ()
  | "chains" -> cmd_chains ()
  | "frames" -> cmd_frames ()
  | "builder" -> cmd_builder ()
  | "bodystruct" -> cmd_bodystruct ()
  | "tags" -> cmd_tags ()
  | c -> prerr_endline ("unknown sub-command " ^ c); exit 2
