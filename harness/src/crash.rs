//! C01 crash oracle: the parser run on a 2 MiB thread in a child process, so that a stack overflow
//! (which aborts the process and cannot be caught) is observed by the parent as the child's death.
//!   harness crash-gen <max depth>         prints the nesting sweep as hex lines
//!   harness crash                         reads hex lines on stdin, prints `<hex>\t<verdict>` with
//!                                         verdict = OK|INC|ERR|FAIL|PANIC|ABORT(<signal/exit status>)|TIMEOUT
use crate::util::{hex, unhex};
use std::io::{BufRead, BufReader, Write};
use std::process::{Command, Stdio};

const LEAF: &str = "\"TEXT\" \"PLAIN\" NIL NIL NIL \"7BIT\" 1 1";

pub fn nest_inputs(max: usize) -> Vec<Vec<u8>> {
    let depths: Vec<usize> = [1usize, 2, 3, 8, 16, 30, 31, 32, 33, 34, 64, 100, 150, 200, 400, 1000, 5000, 20000]
        .iter()
        .copied()
        .filter(|d| *d <= max)
        .collect();
    let mut out = vec![];
    for &n in &depths {
        for kw in ["BODYSTRUCTURE", "BODY"] {
            // 1. nested multiparts, well formed
            let mut s = format!("* 1 FETCH ({} ", kw);
            s.push_str(&"(".repeat(n));
            s.push_str(&format!("({})", LEAF));
            for _ in 0..n {
                s.push_str(" \"MIXED\")");
            }
            s.push_str(")\r\n");
            out.push(s.into_bytes());
            // 2. only opening parentheses (a hostile prefix), with and without CRLF
            out.push(format!("* 1 FETCH ({} {}", kw, "(".repeat(n)).into_bytes());
            out.push(format!("* 1 FETCH ({} {}\r\n", kw, "(".repeat(n)).into_bytes());
            // 3. chain of message/rfc822 parts
            let mut s = format!("* 1 FETCH ({} ", kw);
            for _ in 0..n {
                s.push_str("(\"MESSAGE\" \"RFC822\" NIL NIL NIL \"7BIT\" 1 (NIL NIL NIL NIL NIL NIL NIL NIL NIL NIL) ");
            }
            s.push_str(&format!("({})", LEAF));
            for _ in 0..n {
                s.push_str(" 1)");
            }
            s.push_str(")\r\n");
            out.push(s.into_bytes());
            // 4. alternating multipart / message
            let mut s = format!("* 1 FETCH ({} ", kw);
            for k in 0..n {
                if k % 2 == 0 {
                    s.push('(');
                } else {
                    s.push_str("(\"MESSAGE\" \"RFC822\" NIL NIL NIL \"7BIT\" 1 (NIL NIL NIL NIL NIL NIL NIL NIL NIL NIL) ");
                }
            }
            s.push_str(&format!("({})", LEAF));
            for k in (0..n).rev() {
                if k % 2 == 0 {
                    s.push_str(" \"MIXED\")");
                } else {
                    s.push_str(" 1)");
                }
            }
            s.push_str(")\r\n");
            out.push(s.into_bytes());
        }
        // 5. body extension nesting
        let mut s = format!("* 1 FETCH (BODYSTRUCTURE ({} NIL NIL NIL NIL ", LEAF);
        s.push_str(&"(".repeat(n));
        s.push('1');
        s.push_str(&")".repeat(n));
        s.push_str("))\r\n");
        out.push(s.into_bytes());
        out.push(format!("* 1 FETCH (BODYSTRUCTURE ({} NIL NIL NIL NIL {}", LEAF, "(".repeat(n)).into_bytes());
        // 6. extension nesting inside nested multiparts (both counters at once)
        let m = n.min(40);
        let mut s = String::from("* 1 FETCH (BODYSTRUCTURE ");
        s.push_str(&"(".repeat(m));
        s.push_str(&format!("({} NIL NIL NIL NIL {}1{})", LEAF, "(".repeat(n), ")".repeat(n)));
        for _ in 0..m {
            s.push_str(" \"MIXED\")");
        }
        s.push_str(")\r\n");
        out.push(s.into_bytes());
        // 7. parentheses where no recursion exists (flags, envelope, lists)
        out.push(format!("* FLAGS {}\r\n", "(".repeat(n)).into_bytes());
        out.push(format!("* 1 FETCH (ENVELOPE {}\r\n", "(".repeat(n)).into_bytes());
        out.push(format!("* LIST {} \"/\" x\r\n", "(".repeat(n)).into_bytes());
        out.push(format!("* OK [{}\r\n", "[".repeat(n)).into_bytes());
    }
    out.extend(wide_inputs(max));
    out
}

/// Width instead of depth: one token or one flat list made of n repeated units (path components of a METADATA entry
/// name, escape pairs of a quoted string, digits, list elements of every repetition the grammar has).  A parser that
/// handles a repetition by recursion instead of a loop uses stack in proportion to n; the responses stay below 64 KiB
/// up to the largest n that fits.
pub fn wide_inputs(max: usize) -> Vec<Vec<u8>> {
    let mut out: Vec<Vec<u8>> = vec![];
    for &n in [50usize, 1000, 5000, 20000].iter().filter(|d| **d <= max) {
        let rep = |unit: &str, k: usize| unit.repeat(k);
        // cap every response at about 64 KiB
        let fit = |unit: &str| (60000 / unit.len().max(1)).min(n);
        let mut push = |s: String| out.push(s.into_bytes());
        // METADATA entry names: quoted, literal, bare; shared / private; vendor paths
        let k = fit("/a");
        let path = format!("/private/comment{}", rep("/a", k));
        push(format!("* METADATA \"\" (\"{}\" \"x\")\r\n", path));
        push(format!("* METADATA \"\" ({{{}}}\r\n{} \"x\")\r\n", path.len(), path));
        push(format!("* METADATA \"\" ({} \"x\")\r\n", path));
        push(format!("* METADATA \"\" \"/shared/vendor/x{}\"\r\n", rep("/b", k)));
        push(format!("* METADATA INBOX {}\r\n", rep("/shared/comment ", fit("/shared/comment "))));
        push(format!("* OK [METADATA LONGENTRIES {}] x\r\n", rep("9", fit("9"))));
        // quoted strings made of escape pairs, long atoms, long texts, long numerals
        push(format!("* LIST () \"/\" \"{}\"\r\n", rep("\\\\", fit("\\\\"))));
        push(format!("* LIST () \"/\" \"{}\"\r\n", rep("\\\"", fit("\\\""))));
        push(format!("* LIST () \"/\" {}\r\n", rep("a", fit("a"))));
        push(format!("* OK {}\r\n", rep("x ", fit("x "))));
        push(format!("* {}1 EXISTS\r\n", rep("0", fit("0"))));
        push(format!("* 1 FETCH (RFC822.SIZE {}1)\r\n", rep("0", fit("0"))));
        push(format!("* 1 FETCH (RFC822 {{{}1}}\r\nx)\r\n", rep("0", fit("0"))));
        // flat repetitions
        push(format!("* SEARCH{}\r\n", rep(" 1", fit(" 1"))));
        push(format!("* SORT{}\r\n", rep(" 7", fit(" 7"))));
        push(format!("* FLAGS (\\Seen{})\r\n", rep(" a", fit(" a"))));
        push(format!("* 1 FETCH (FLAGS (\\Seen{}))\r\n", rep(" \\Draft", fit(" \\Draft"))));
        push(format!("* 1 FETCH (X-GM-LABELS (a{}))\r\n", rep(" \"b\"", fit(" \"b\""))));
        push(format!("* OK [PERMANENTFLAGS (\\*{})] x\r\n", rep(" k", fit(" k"))));
        push(format!("* CAPABILITY IMAP4rev1{}\r\n", rep(" AUTH=X", fit(" AUTH=X"))));
        push(format!("* ENABLED{}\r\n", rep(" X", fit(" X"))));
        push(format!("* VANISHED (EARLIER) 1{}\r\n", rep(",2:3", fit(",2:3"))));
        push(format!("* OK [COPYUID 1 1{} 5{}] x\r\n", rep(",2", fit(",2") / 2), rep(",6:7", fit(",6:7") / 2)));
        push(format!("* ID (\"a\" \"b\"{})\r\n", rep(" \"c\" NIL", fit(" \"c\" NIL"))));
        push(format!("* ACL INBOX{}\r\n", rep(" u lr", fit(" u lr"))));
        push(format!("* LISTRIGHTS INBOX u lr{}\r\n", rep(" a", fit(" a"))));
        push(format!("* QUOTA \"\" (STORAGE 1 2{})\r\n", rep(" MESSAGE 1 2", fit(" MESSAGE 1 2"))));
        push(format!("* QUOTAROOT INBOX{}\r\n", rep(" \"r\"", fit(" \"r\""))));
        push(format!("* STATUS x (MESSAGES 1{})\r\n", rep(" UNSEEN 2", fit(" UNSEEN 2"))));
        push(format!("* LIST (\\Noselect{}) \"/\" x\r\n", rep(" \\X", fit(" \\X"))));
        push(format!("* 1 FETCH (BODY[HEADER.FIELDS (a{})] NIL)\r\n", rep(" b", fit(" b"))));
        push(format!("* 1 FETCH (BODY[1{}] NIL)\r\n", rep(".1", fit(".1"))));
        push(format!("* 1 FETCH (UID 1{})\r\n", rep(" UID 1", fit(" UID 1"))));
        let addr = "(NIL NIL \"a\" \"b\")";
        push(format!("* 1 FETCH (ENVELOPE (NIL NIL ({}) NIL NIL NIL NIL NIL NIL NIL))\r\n", rep(addr, fit(addr))));
        push(format!("* 1 FETCH (BODYSTRUCTURE (\"TEXT\" \"PLAIN\" (\"a\" \"b\"{}) NIL NIL \"7BIT\" 1 1))\r\n", rep(" \"c\" \"d\"", fit(" \"c\" \"d\""))));
        push(format!("* 1 FETCH (BODYSTRUCTURE ({} \"MIXED\"))\r\n", rep(&format!("({})", LEAF), fit(&format!("({})", LEAF)))));
        push(format!("* 1 FETCH (BODYSTRUCTURE ({} NIL NIL (\"en\"{}) NIL))\r\n", LEAF, rep(" \"de\"", fit(" \"de\""))));
        push(format!("* 1 FETCH (BODYSTRUCTURE ({} NIL NIL NIL NIL (1{})))\r\n", LEAF, rep(" 2", fit(" 2"))));
    }
    out
}

fn run_on_small_stack(input: Vec<u8>) -> String {
    let h = std::thread::Builder::new()
        .stack_size(2 * 1024 * 1024)
        .spawn(move || crate::parse::run_parser(&input).split(' ').next().unwrap().to_string())
        .unwrap();
    h.join().unwrap_or_else(|_| "PANIC".to_string())
}

pub fn child() {
    std::panic::set_hook(Box::new(|_| {}));
    let stdin = std::io::stdin();
    let out = std::io::stdout();
    for (k, line) in stdin.lock().lines().enumerate() {
        let line = line.unwrap();
        {
            let mut o = out.lock();
            writeln!(o, "BEGIN {}", k).unwrap();
            o.flush().unwrap();
        }
        let v = run_on_small_stack(unhex(line.trim()));
        let mut o = out.lock();
        writeln!(o, "END {} {}", k, v).unwrap();
        o.flush().unwrap();
    }
}

pub fn parent() {
    let stdin = std::io::stdin();
    let inputs: Vec<String> = stdin.lock().lines().map(|l| l.unwrap().trim().to_string()).filter(|l| !l.is_empty()).collect();
    let exe = std::env::current_exe().unwrap();
    let mut next = 0usize;
    let mut hangs = 0;
    while next < inputs.len() && hangs < 2 {
        let mut ch = Command::new(&exe).arg("crash-child").stdin(Stdio::piped()).stdout(Stdio::piped()).stderr(Stdio::null()).spawn().unwrap();
        {
            let mut si = ch.stdin.take().unwrap();
            let batch: Vec<u8> = inputs[next..].join("\n").into_bytes();
            // feed from a thread so that a dying child cannot block us
            std::thread::spawn(move || {
                let _ = si.write_all(&batch);
                let _ = si.write_all(b"\n");
            });
        }
        let so = BufReader::new(ch.stdout.take().unwrap());
        let base = next;
        let mut began: Option<usize> = None;
        for line in so.lines() {
            let line = match line {
                Ok(l) => l,
                Err(_) => break,
            };
            let p: Vec<&str> = line.split(' ').collect();
            if p[0] == "BEGIN" {
                began = Some(base + p[1].parse::<usize>().unwrap());
            } else if p[0] == "END" {
                let k = base + p[1].parse::<usize>().unwrap();
                println!("{}\t{}", inputs[k], p[2]);
                next = k + 1;
                began = None;
            }
        }
        let status = ch.wait().unwrap();
        if let Some(k) = began {
            // the child died while parsing input k (status 99: its watchdog gave up waiting for the parser)
            if status.code() == Some(99) {
                hangs += 1;
                println!("{}\tHANG(no verdict within {} s)", inputs[k], crate::util::HANG_LIMIT_SECS);
                next = k + 1;
                continue;
            }
            println!("{}\tABORT({})", inputs[k], status);
            next = k + 1;
        } else if !status.success() && next < inputs.len() {
            println!("{}\tABORT({})", inputs[next], status);
            next += 1;
        }
    }
}

pub fn gen(args: &[String]) {
    let max: usize = args.first().map(|s| s.parse().unwrap()).unwrap_or(20000);
    for i in nest_inputs(max) {
        println!("{}", hex(&i));
    }
}
