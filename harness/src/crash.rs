//! C01 crash oracle: the parser run on a 2 MiB thread in a child process, so that a stack overflow
//! (which aborts the process and cannot be caught) is observed by the parent as the child's death.
//!   harness crash-gen <max depth>         prints the nesting sweep as hex lines
//!   harness crash                         reads hex lines on stdin, prints `<hex>\t<verdict>` with
//!                                         verdict = OK|INC|ERR|FAIL|PANIC|ABORT(<signal/exit status>)|TIMEOUT
use crate::util::{hex, unhex};
use std::io::{BufRead, BufReader, Write};
use std::process::{Command, Stdio};

const LEAF: &str = "\"TEXT\" \"PLAIN\" NIL NIL NIL \"7BIT\" 1 1";

pub fn nest_inputs(max: usize) -> Vec<Vec<u8>> {
    let depths: Vec<usize> = [1usize, 2, 3, 8, 16, 30, 31, 32, 33, 34, 64, 100, 150, 200, 400, 1000, 5000, 20000]
        .iter()
        .copied()
        .filter(|d| *d <= max)
        .collect();
    let mut out = vec![];
    for &n in &depths {
        for kw in ["BODYSTRUCTURE", "BODY"] {
            // 1. nested multiparts, well formed
            let mut s = format!("* 1 FETCH ({} ", kw);
            s.push_str(&"(".repeat(n));
            s.push_str(&format!("({})", LEAF));
            for _ in 0..n {
                s.push_str(" \"MIXED\")");
            }
            s.push_str(")\r\n");
            out.push(s.into_bytes());
            // 2. only opening parentheses (a hostile prefix), with and without CRLF
            out.push(format!("* 1 FETCH ({} {}", kw, "(".repeat(n)).into_bytes());
            out.push(format!("* 1 FETCH ({} {}\r\n", kw, "(".repeat(n)).into_bytes());
            // 3. chain of message/rfc822 parts
            let mut s = format!("* 1 FETCH ({} ", kw);
            for _ in 0..n {
                s.push_str("(\"MESSAGE\" \"RFC822\" NIL NIL NIL \"7BIT\" 1 (NIL NIL NIL NIL NIL NIL NIL NIL NIL NIL) ");
            }
            s.push_str(&format!("({})", LEAF));
            for _ in 0..n {
                s.push_str(" 1)");
            }
            s.push_str(")\r\n");
            out.push(s.into_bytes());
            // 4. alternating multipart / message
            let mut s = format!("* 1 FETCH ({} ", kw);
            for k in 0..n {
                if k % 2 == 0 {
                    s.push('(');
                } else {
                    s.push_str("(\"MESSAGE\" \"RFC822\" NIL NIL NIL \"7BIT\" 1 (NIL NIL NIL NIL NIL NIL NIL NIL NIL NIL) ");
                }
            }
            s.push_str(&format!("({})", LEAF));
            for k in (0..n).rev() {
                if k % 2 == 0 {
                    s.push_str(" \"MIXED\")");
                } else {
                    s.push_str(" 1)");
                }
            }
            s.push_str(")\r\n");
            out.push(s.into_bytes());
        }
        // 5. body extension nesting
        let mut s = format!("* 1 FETCH (BODYSTRUCTURE ({} NIL NIL NIL NIL ", LEAF);
        s.push_str(&"(".repeat(n));
        s.push('1');
        s.push_str(&")".repeat(n));
        s.push_str("))\r\n");
        out.push(s.into_bytes());
        out.push(format!("* 1 FETCH (BODYSTRUCTURE ({} NIL NIL NIL NIL {}", LEAF, "(".repeat(n)).into_bytes());
        // 6. extension nesting inside nested multiparts (both counters at once)
        let m = n.min(40);
        let mut s = String::from("* 1 FETCH (BODYSTRUCTURE ");
        s.push_str(&"(".repeat(m));
        s.push_str(&format!("({} NIL NIL NIL NIL {}1{})", LEAF, "(".repeat(n), ")".repeat(n)));
        for _ in 0..m {
            s.push_str(" \"MIXED\")");
        }
        s.push_str(")\r\n");
        out.push(s.into_bytes());
        // 7. parentheses where no recursion exists (flags, envelope, lists)
        out.push(format!("* FLAGS {}\r\n", "(".repeat(n)).into_bytes());
        out.push(format!("* 1 FETCH (ENVELOPE {}\r\n", "(".repeat(n)).into_bytes());
        out.push(format!("* LIST {} \"/\" x\r\n", "(".repeat(n)).into_bytes());
        out.push(format!("* OK [{}\r\n", "[".repeat(n)).into_bytes());
    }
    out
}

fn run_on_small_stack(input: Vec<u8>) -> String {
    let h = std::thread::Builder::new()
        .stack_size(2 * 1024 * 1024)
        .spawn(move || crate::parse::run_parser(&input).split(' ').next().unwrap().to_string())
        .unwrap();
    h.join().unwrap_or_else(|_| "PANIC".to_string())
}

pub fn child() {
    std::panic::set_hook(Box::new(|_| {}));
    let stdin = std::io::stdin();
    let out = std::io::stdout();
    for (k, line) in stdin.lock().lines().enumerate() {
        let line = line.unwrap();
        {
            let mut o = out.lock();
            writeln!(o, "BEGIN {}", k).unwrap();
            o.flush().unwrap();
        }
        let v = run_on_small_stack(unhex(line.trim()));
        let mut o = out.lock();
        writeln!(o, "END {} {}", k, v).unwrap();
        o.flush().unwrap();
    }
}

pub fn parent() {
    let stdin = std::io::stdin();
    let inputs: Vec<String> = stdin.lock().lines().map(|l| l.unwrap().trim().to_string()).filter(|l| !l.is_empty()).collect();
    let exe = std::env::current_exe().unwrap();
    let mut next = 0usize;
    let mut hangs = 0;
    while next < inputs.len() && hangs < 2 {
        let mut ch = Command::new(&exe).arg("crash-child").stdin(Stdio::piped()).stdout(Stdio::piped()).stderr(Stdio::null()).spawn().unwrap();
        {
            let mut si = ch.stdin.take().unwrap();
            let batch: Vec<u8> = inputs[next..].join("\n").into_bytes();
            // feed from a thread so that a dying child cannot block us
            std::thread::spawn(move || {
                let _ = si.write_all(&batch);
                let _ = si.write_all(b"\n");
            });
        }
        let so = BufReader::new(ch.stdout.take().unwrap());
        let base = next;
        let mut began: Option<usize> = None;
        for line in so.lines() {
            let line = match line {
                Ok(l) => l,
                Err(_) => break,
            };
            let p: Vec<&str> = line.split(' ').collect();
            if p[0] == "BEGIN" {
                began = Some(base + p[1].parse::<usize>().unwrap());
            } else if p[0] == "END" {
                let k = base + p[1].parse::<usize>().unwrap();
                println!("{}\t{}", inputs[k], p[2]);
                next = k + 1;
                began = None;
            }
        }
        let status = ch.wait().unwrap();
        if let Some(k) = began {
            // the child died while parsing input k (status 99: its watchdog gave up waiting for the parser)
            if status.code() == Some(99) {
                hangs += 1;
                println!("{}\tHANG(no verdict within {} s)", inputs[k], crate::util::HANG_LIMIT_SECS);
                next = k + 1;
                continue;
            }
            println!("{}\tABORT({})", inputs[k], status);
            next = k + 1;
        } else if !status.success() && next < inputs.len() {
            println!("{}\tABORT({})", inputs[next], status);
            next += 1;
        }
    }
}

pub fn gen(args: &[String]) {
    let max: usize = args.first().map(|s| s.parse().unwrap()).unwrap_or(20000);
    for i in nest_inputs(max) {
        println!("{}", hex(&i));
    }
}
