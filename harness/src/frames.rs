//! C07: delivered frames under buffer growth / reuse, later decodes, drops in any order, allocator churn,
//! the connection being dropped, and a move to another thread.
//! For every frame: a snapshot (canonical dump of `parsed()`, copy of `raw_bytes()`) is taken at delivery; every
//! borrowed string of the parsed view must lie inside `raw_bytes()` (address range); at every checkpoint each
//! retained frame must dump and read exactly as at delivery.
//! Output: `<events>\t<id=hex(raw)|...>\t<verdict>`; events for the model: W<hex>:<slack> D X<id> F N<slack> C.
use crate::dump;
use crate::mockio::{MockIo, Rd};
use crate::parse::gen_pair;
use crate::util::{hex, Rng};
use futures_core::Stream;
use std::pin::Pin;
use std::task::{Context, Poll, Waker};
use tokio_imap::{ImapCodec, ResponseData};
use tokio_util::codec::Framed;

struct Held {
    id: usize,
    frame: ResponseData,
    dump: String,
    raw: Vec<u8>,
}

/// address ranges of the executable's own mappings: string constants of the library (e.g. the canonical "INBOX")
fn static_ranges() -> &'static Vec<(usize, usize)> {
    static R: std::sync::OnceLock<Vec<(usize, usize)>> = std::sync::OnceLock::new();
    R.get_or_init(|| {
        let exe = std::env::current_exe().ok().and_then(|p| p.to_str().map(|s| s.to_string())).unwrap_or_default();
        let maps = std::fs::read_to_string("/proc/self/maps").unwrap_or_default();
        maps.lines()
            .filter(|l| !exe.is_empty() && l.ends_with(&exe))
            .filter_map(|l| {
                let r = l.split_whitespace().next()?;
                let (a, b) = r.split_once('-')?;
                Some((usize::from_str_radix(a, 16).ok()?, usize::from_str_radix(b, 16).ok()?))
            })
            .collect()
    })
}

fn borrows_inside(frame: &ResponseData) -> Result<String, String> {
    let raw = frame.raw_bytes();
    let (lo, hi) = (raw.as_ptr() as usize, raw.as_ptr() as usize + raw.len());
    // first pass: addresses only -- nothing a dangling pointer could lead to is read
    dump::start_recording();
    dump::addresses_only(true);
    let _ = dump::response(frame.parsed());
    dump::addresses_only(false);
    let ranges = dump::stop_recording();
    for (p, n) in ranges {
        if n > 0 && !(p >= lo && p + n <= hi) && !static_ranges().iter().any(|(a, b)| p >= *a && p + n <= *b) {
            return Err(format!("a borrowed string of the parsed view ({} bytes at {:#x}) lies outside the frame's own bytes [{:#x}, {:#x})", n, p, lo, hi));
        }
    }
    Ok(dump::to_string(&dump::response(frame.parsed())))
}

fn verify(h: &Held, when: &str) -> Option<String> {
    // raw first: it never touches memory the frame does not own
    if h.frame.raw_bytes() != &h.raw[..] {
        return Some(format!("frame {}: raw bytes changed {}", h.id, when));
    }
    match borrows_inside(&h.frame) {
        Err(e) => Some(format!("frame {}: {} ({})", h.id, e, when)),
        Ok(d) => {
            if d != h.dump {
                Some(format!("frame {}: the parsed view changed {}: at delivery {} now {}", h.id, when, &h.dump[..h.dump.len().min(300)], &d[..d.len().min(300)]))
            } else {
                None
            }
        }
    }
}

fn churn(rng: &mut Rng, sizes: &[usize]) {
    let mut keep: Vec<Vec<u8>> = vec![];
    for _ in 0..6 {
        let n = if sizes.is_empty() || rng.chance(1, 3) { 1 + rng.below(70000) } else { *rng.pick(sizes) + rng.below(64) };
        keep.push(vec![0xEE; n.max(1)]);
        if rng.chance(1, 2) {
            keep.pop();
        }
    }
}

fn big_fetch(rng: &mut Rng, len: usize) -> Vec<u8> {
    let mut s = format!("* {} FETCH (UID {} BODY[] {{{}}}\r\n", 1 + rng.below(99999), 1 + rng.below(99999), len).into_bytes();
    let pat: &[u8] = *rng.pick(&[&b"the quick brown fox jumps over the lazy dog\r\n"[..], &b")\r\nA0001 OK done\r\n"[..], &b"{5}\r\n\"(\\"[..], &b"\x01\x7f\xff"[..]]);
    for k in 0..len {
        s.push(pat[k % pat.len()]);
    }
    s.extend_from_slice(b" FLAGS (\\Seen))\r\n");
    s
}

pub fn gen_history_stream(rng: &mut Rng, count: usize, max_lit: usize) -> Vec<u8> {
    gen_history_stream_nv(rng, count, max_lit, false)
}

/// `near_valid`: some lines are what a quirky server might send instead of a response -- a response ended by a bare
/// LF or a bare CR, a blank line, a line with a stray byte.  The decoder answers an error there (the history ends);
/// the frames delivered before must stay intact all the same.
pub fn gen_history_stream_nv(rng: &mut Rng, count: usize, max_lit: usize, near_valid: bool) -> Vec<u8> {
    let sizes = [0usize, 1, 100, 700, 8191, 8192, 9000, 40000, 70000, 150000, 300000, 1048576];
    let mut s = vec![];
    for i in 0..count {
        if near_valid && i > 0 && rng.chance(1, 6) {
            let text = *rng.pick(&["notice one: quota at 91 percent", "notice two: scheduled downtime!", "x", "[ALERT] disk"]);
            match rng.below(5) {
                0 => s.extend_from_slice(format!("* OK {}\n", text).as_bytes()),
                1 => s.extend_from_slice(format!("* {} EXISTS\n", rng.below(99)).as_bytes()),
                2 => s.extend_from_slice(b"\r\n"),
                3 => s.extend_from_slice(format!("* OK {}\r", text).as_bytes()),
                _ => s.extend_from_slice(format!("* NO {}\x00\r\n", text).as_bytes()),
            }
            // ... and the server goes on
            s.extend_from_slice(format!("* {} EXISTS\r\n* OK {}\n* {} RECENT\r\n", rng.below(99), text, rng.below(9)).as_bytes());
            continue;
        }
        if rng.chance(1, 7) {
            let ok: Vec<usize> = sizes.iter().copied().filter(|x| *x <= max_lit).collect();
            let len = *rng.pick(&ok);
            s.extend(big_fetch(rng, len));
        } else if rng.chance(1, 5) {
            s.extend_from_slice(format!("A{:04} OK FETCH completed, the mailbox is in good shape\r\n", rng.below(10000)).as_bytes());
        } else {
            let (_, e) = gen_pair(rng, true);
            s.extend(e);
        }
    }
    s
}

/// one history; returns (events, final frames, verdict)
pub fn run_history(rng: &mut Rng, stream: &[u8], keep_num: usize, keep_den: usize) -> (String, String, String) {
    run_history_tol(rng, stream, keep_num, keep_den, false)
}

/// `tolerate_errors`: a decoder error ends the receiving part of the history without being a verdict
pub fn run_history_tol(rng: &mut Rng, stream: &[u8], keep_num: usize, keep_den: usize, tolerate_errors: bool) -> (String, String, String) {
    let _w = crate::util::watch(stream);
    let waker = Waker::noop();
    let mut cx = Context::from_waker(&waker);
    // chunking: bursts, packets, single bytes
    let mut reads = vec![];
    let mut chunks: Vec<Vec<u8>> = vec![];
    let mut pos = 0;
    // (re-parsing an unfinished megabyte literal after every few bytes is quadratic in the implementation: keep tiny
    // packets for streams below 100 kB)
    let big = stream.len() > 100_000;
    let mode = if big { 3 + rng.below(2) } else { rng.below(5) };
    while pos < stream.len() {
        let n = match mode {
            0 => 1 + rng.below(3),
            1 => 512,
            2 => 1500,
            3 => (if big { 1000 } else { 1 }) + rng.below(70000),
            _ if big => *rng.pick(&[1500usize, 4096, 8192, 16384, 65536]),
            _ => *rng.pick(&[1usize, 7, 100, 4096, 8192, 16384, 65536]),
        };
        let end = (pos + n).min(stream.len());
        chunks.push(stream[pos..end].to_vec());
        reads.push(Rd::Chunk(stream[pos..end].to_vec()));
        if rng.chance(1, 6) {
            reads.push(Rd::NotReady);
        }
        pos = end;
    }
    reads.push(Rd::Eof);
    let total_chunks = chunks.len();
    let io = MockIo::new(reads, vec![], vec![]);
    let mut fr = Some(Framed::new(io.clone(), ImapCodec::default()));
    let mut events: Vec<String> = vec![];
    let mut held: Vec<Held> = vec![];
    let mut sizes: Vec<usize> = vec![];
    let mut next_id = 0usize;
    let mut logged_chunks = 0usize;
    let _ = &chunks;
    let mut verdict: Option<String> = None;
    let mut polls = 0usize;
    // one W event per read the transport actually served (a large chunk may be handed over in several pieces)
    let mut stream_pos = 0usize;
    let mut log_writes = |events: &mut Vec<String>, logged: &mut usize, rng: &mut Rng| {
        let st = io.0.borrow();
        while *logged < st.log.len() {
            let l = &st.log[*logged];
            *logged += 1;
            if l.starts_with('r') && l.len() > 1 && l.as_bytes()[1].is_ascii_digit() {
                let n: usize = l[1..].parse().unwrap();
                events.push(format!("W{}:{}", hex(&stream[stream_pos..stream_pos + n]), rng.below(9000)));
                stream_pos += n;
                if rng.chance(1, 5) {
                    events.push(if rng.chance(1, 2) { "F".to_string() } else { format!("N{}", rng.below(9000)) });
                }
            }
        }
    };
    loop {
        polls += 1;
        if polls > 20 * total_chunks + 2000 {
            verdict = Some("the connection made no progress".into());
            break;
        }
        let item = match fr.as_mut() {
            Some(f) => Pin::new(f).poll_next(&mut cx),
            None => break,
        };
        log_writes(&mut events, &mut logged_chunks, rng);
        match item {
            Poll::Pending => continue,
            Poll::Ready(None) => break,
            Poll::Ready(Some(Err(_))) if tolerate_errors => break,
            Poll::Ready(Some(Err(e))) => {
                verdict = Some(format!("decoder error on a valid stream: {}", &e.to_string()[..e.to_string().len().min(120)]));
                break;
            }
            Poll::Ready(Some(Ok(frame))) => {
                events.push("D".into());
                let id = next_id;
                next_id += 1;
                let raw = frame.raw_bytes().to_vec();
                sizes.push(raw.len());
                match borrows_inside(&frame) {
                    Err(e) => {
                        verdict = Some(format!("frame {}: {} (at delivery)", id, e));
                        break;
                    }
                    Ok(d) => {
                        // the delivered value is the one-piece parse of the frame's bytes
                        let reference = crate::parse::run_parser(&raw);
                        if reference != format!("OK {} {}", raw.len(), d) {
                            verdict = Some(format!("frame {}: delivered view differs from the parse of its own bytes", id));
                            break;
                        }
                        if rng.chance(keep_num, keep_den) {
                            held.push(Held { id, frame, dump: d, raw });
                        } else {
                            events.push(format!("X{}", id));
                            drop(frame);
                        }
                    }
                }
                // drop some earlier frames, in any order
                while !held.is_empty() && rng.chance(1, 4) {
                    let k = rng.below(held.len());
                    let h = held.swap_remove(k);
                    events.push(format!("X{}", h.id));
                    drop(h);
                }
                churn(rng, &sizes);
                if next_id % 7 == 0 {
                    for h in &held {
                        if let Some(v) = verify(h, "while the connection keeps receiving") {
                            verdict = Some(v);
                        }
                    }
                    if verdict.is_some() {
                        break;
                    }
                }
            }
        }
    }
    // the connection is dropped; the allocator is churned; every retained frame is read again, here and on another thread
    if verdict.is_none() {
        events.push("C".into());
        drop(fr.take());
        drop(io);
        churn(rng, &sizes);
        churn(rng, &sizes);
        for h in &held {
            if let Some(v) = verify(h, "after the connection was dropped") {
                verdict = Some(v);
                break;
            }
        }
    }
    let mut finals: Vec<String> = vec![];
    if verdict.is_none() {
        let moved = std::thread::spawn(move || {
            let mut out = vec![];
            let mut bad = None;
            for h in &held {
                if let Some(v) = verify(h, "on another thread") {
                    bad = Some(v);
                }
                out.push(format!("{}={}", h.id, hex(h.frame.raw_bytes())));
            }
            // dropped there, in reverse order
            let mut held = held;
            while let Some(h) = held.pop() {
                drop(h);
            }
            (out, bad)
        })
        .join();
        match moved {
            Ok((out, bad)) => {
                finals = out;
                verdict = bad;
            }
            Err(_) => verdict = Some("panic while reading frames on another thread".into()),
        }
    }
    finals.sort_by_key(|s| s.split('=').next().unwrap().parse::<usize>().unwrap());
    (events.join(";"), finals.join("|"), verdict.map(|v| format!("BAD {}", v)).unwrap_or_else(|| "OK".into()))
}

pub fn main(args: &[String]) {
    let seed: u64 = args.first().map(|s| s.parse().unwrap()).unwrap_or(1);
    let n: usize = args.get(1).map(|s| s.parse().unwrap()).unwrap_or(20);
    let max_lit: usize = args.get(2).map(|s| s.parse().unwrap()).unwrap_or(70000);
    let max_count: usize = args.get(3).map(|s| s.parse().unwrap()).unwrap_or(60);
    std::panic::set_hook(Box::new(|_| {}));
    let mut rng = Rng::new(seed);
    for k in 0..n {
        let count = 1 + rng.below(max_count);
        let near_valid = k % 4 == 3;
        let stream = gen_history_stream_nv(&mut rng, count, max_lit, near_valid);
        let (kn, kd) = if near_valid { (1usize, 1usize) } else { *rng.pick(&[(1usize, 1usize), (1, 2), (1, 8), (1, 40)]) };
        let r = std::panic::catch_unwind(std::panic::AssertUnwindSafe(|| run_history_tol(&mut rng, &stream, kn, kd, near_valid)));
        match r {
            Ok((ev, fin, v)) => println!("{}\t{}\t{}", ev, fin, v),
            Err(_) => println!("history {}\t\tBAD panic", k),
        }
    }
}
