//! C04 / C05 / C06 / C11: the real `Framed<MockIo, ImapCodec>` and the real client driven by scripted
//! sessions, hand-polled.  One output line per session:
//!   `<session>\t<observations>\t<reference>`
//! session  = `R<read results actually consumed>|W<write script>|L<flush script>|O<ops>` (what the model replays)
//! observations = per poll: `F:<hex raw>:<value dump>` | `E:<kind>` | `N` | `P`, `;`-separated per command, then `wire=<hex>`
//! reference = one-shot parse of the whole server stream: `F:<hex raw>:<tag or ->` ... then `END:<clean|truncated|malformed>`,
//!             and the command lines in issue order.
use crate::dump;
use crate::genresp::{self, Enc};
use crate::mockio::{Fl, MockIo, Rd, Wr};
use crate::parse::gen_pair;
use crate::util::{hex, Rng};
use futures_core::Stream;
use imap_proto::builders::command::{Command, CommandBuilder};
use imap_proto::types::Response;
use std::pin::Pin;
use std::task::{Context, Poll, Waker};
use tokio_imap::{Client, ResponseData};

fn err_kind(e: &std::io::Error) -> &'static str {
    let m = e.to_string();
    if m.contains("bytes remaining on stream") {
        "remaining"
    } else if m.contains("during parsing of") {
        "decode"
    } else if m.contains("mock read error") {
        "io"
    } else if m.contains("stream ended before command completion") {
        "ended"
    } else if m.contains("mock write error") || m.contains("mock flush error") || m.contains("failed to write frame") {
        "write"
    } else {
        "other"
    }
}

fn show_item(r: &Option<Result<ResponseData, std::io::Error>>) -> String {
    match r {
        None => "N".into(),
        Some(Err(e)) => format!("E:{}", err_kind(e)),
        Some(Ok(rd)) => {
            let v = dump::to_string(&dump::response(rd.parsed()));
            let raw = rd.raw_bytes().to_vec();
            format!("F:{}:{}", hex(&raw), v)
        }
    }
}

pub struct Cmd {
    pub args: Vec<u8>,
    pub polls: usize, // poll at most this many times, stop at None
}

pub struct Session {
    pub cmds: Vec<Cmd>,
    pub reads: Vec<Rd>,
    pub writes: Vec<Wr>,
    pub flushes: Vec<Fl>,
    pub server: Vec<u8>, // the whole byte stream the read script carries (for the reference)
}

fn look_alike(rng: &mut Rng, tag: &str) -> String {
    let num: u32 = tag[1..].parse().unwrap_or(0);
    match rng.below(11) {
        // the same number in another spelling is another tag
        7 => format!("A{}", num),
        8 => format!("A0{}", &tag[1..]),
        9 => format!("A{:0w$}", num, w = 1 + rng.below(8)),
        10 => format!("a{}", num),
        0 => tag.to_ascii_lowercase(),
        1 => tag[..tag.len() - 1].to_string(),
        2 => format!("{}0", tag),
        3 => format!("A{:04}", rng.below(10000)),
        4 => format!("{}x", &tag[..1]),
        5 => tag.replace('A', "B"),
        _ => genresp::atom(rng).replace('+', "p"),
    }
}

fn completion(rng: &mut Rng, tag: &str) -> Vec<u8> {
    let st = *rng.pick(&["OK", "NO", "BAD", "ok", "No"]);
    let mut s = format!("{} {}", tag, st);
    match rng.below(4) {
        0 => {}
        1 => s.push_str(" done"),
        2 => s.push_str(" [READ-WRITE] selected"),
        _ => s.push_str(" [UIDNEXT 12]"),
    }
    s.push_str("\r\n");
    s.into_bytes()
}

pub fn gen_session(rng: &mut Rng, big_args: bool) -> Session {
    let ncmd = 1 + rng.below(6);
    let mut cmds = vec![];
    let mut server: Vec<u8> = vec![];
    let start_tag = 1; // a fresh client
    let end_mode = rng.below(6); // how the server stream ends
    // a chatty server: tens of responses for one command, arriving in whole bursts with the transport always ready
    let chatty = rng.chance(1, 10);
    // a backlog: a long command abandoned while the transport does not take it, then the next command
    let backlog = big_args && rng.chance(1, 8);
    for k in 0..ncmd {
        let tag = format!("A{:04}", (start_tag + k) % 10000);
        let args: Vec<u8> = match rng.below(8) {
            0 => CommandBuilder::check().args,
            1 => CommandBuilder::close().args,
            2 => CommandBuilder::login(&genresp::quoted_safe(rng), "p\"w").args,
            3 => Command::from(CommandBuilder::select("INBOX")).args,
            4 => CommandBuilder::list("", "*").args,
            5 if big_args => {
                let n = [0usize, 1, 100, 8180, 8190, 8192, 8200, 20000][rng.below(8)];
                let mut a = b"LOGIN \"u\" \"".to_vec();
                a.extend(std::iter::repeat(b'x').take(n));
                a.push(b'"');
                a
            }
            _ => Command::from(CommandBuilder::fetch().num(1 + rng.below(9) as u32).attr(imap_proto::types::Attribute::Uid)).args,
        };
        // server side for this command
        let nresp = if chatty { 12 + rng.below(50) } else { rng.below(6) };
        for _ in 0..nresp {
            let kinds = if chatty { 1 + rng.below(5) } else if big_args { 7 } else { 5 };
            match rng.below(kinds) {
                0 => {
                    let la = look_alike(rng, &tag);
                    server.extend(completion(rng, &la))
                }
                5 => {
                    // a message body of tens of kilobytes (the receive buffer grows well beyond its initial 8 KiB)
                    let len = *rng.pick(&[9000usize, 20000, 40000]);
                    server.extend_from_slice(format!("* {} FETCH (BODY[] {{{}}}\r\n", 1 + rng.below(99), len).as_bytes());
                    for k in 0..len {
                        server.push(b"mail text )\r\nA0001 OK\r\n"[k % 23]);
                    }
                    server.extend_from_slice(b")\r\n");
                }
                _ => loop {
                    let (v, enc) = gen_pair(rng, true);
                    // untagged data only; tagged look-alikes are produced above
                    if !matches!(v, Response::Done { .. }) && enc.len() < 3000 {
                        server.extend(enc);
                        break;
                    }
                },
            }
        }
        let last = k + 1 == ncmd;
        if last && end_mode == 0 {
            // the completion never comes: EOF / garbage / truncation below
        } else {
            server.extend(completion(rng, &tag));
        }
        let polls = if rng.chance(1, 6) { rng.below(5) } else { 40 + nresp };
        cmds.push(Cmd { args, polls });
    }
    match end_mode {
        1 => {
            let (_, e) = gen_pair(rng, true);
            server.extend(e) // unsolicited data after the last completion
        }
        2 => server.extend_from_slice(b"* garbage that is not a response\r\n"),
        3 => {
            let (_, e) = gen_pair(rng, true);
            let cut = rng.below(e.len().max(1));
            server.extend_from_slice(&e[..cut]) // truncated
        }
        _ => {}
    }
    // chunk the server stream
    let mut reads = vec![];
    let mut pos = 0;
    let fine = rng.chance(1, 3) && server.len() < 20000;
    let coarse = !fine && (chatty || rng.chance(1, 3));
    if !chatty && rng.chance(1, 4) {
        reads.push(Rd::NotReady);
    }
    while pos < server.len() {
        let small = rng.chance(1, 3);
        // coarse: whole bursts, so that a completion and whatever follows it arrive in one read
        let n = if fine { 1 + rng.below(3) } else if coarse { 1 + rng.below(70000) } else { 1 + rng.below(if small { 10 } else { 400 }) };
        let end = (pos + n).min(server.len());
        reads.push(Rd::Chunk(server[pos..end].to_vec()));
        pos = end;
        if rng.chance(1, if chatty { 40 } else { 5 }) {
            reads.push(Rd::NotReady);
        }
    }
    match rng.below(4) {
        0 => reads.push(Rd::Eof),
        1 => {
            reads.push(Rd::Eof);
            reads.push(Rd::Eof);
        }
        2 if rng.chance(1, 3) => reads.push(Rd::Err),
        _ => {}
    }
    let mut writes = vec![];
    for _ in 0..rng.below(8) {
        writes.push(match rng.below(12) {
            0..=3 => Wr::Accept(1),
            4..=7 => Wr::Accept(1 + rng.below(50)),
            8..=9 => Wr::NotReady,
            10 if rng.chance(1, 4) => Wr::Zero,
            11 if rng.chance(1, 4) => Wr::Err,
            _ => Wr::Accept(10000),
        });
    }
    let mut flushes = vec![];
    for _ in 0..rng.below(4) {
        flushes.push(match rng.below(6) {
            0..=1 => Fl::NotReady,
            2 if rng.chance(1, 3) => Fl::Err,
            _ => Fl::Ok,
        });
    }
    if backlog {
        let k = rng.below(cmds.len());
        let n = [8192usize, 8200, 20000][rng.below(3)];
        let mut a = b"LOGIN \"u\" \"".to_vec();
        a.extend(std::iter::repeat(b'x').take(n));
        a.push(b'"');
        cmds[k].args = a;
        cmds[k].polls = 1 + rng.below(2);
        let mut w = vec![];
        // what the earlier commands need goes through, then the transport stops taking bytes for a while
        for _ in 0..k {
            w.push(Wr::Accept(10000));
        }
        for _ in 0..1 + rng.below(4) {
            w.push(Wr::NotReady);
        }
        w.extend(writes);
        writes = w;
    }
    Session { cmds, reads, writes, flushes, server }
}

/// Runs the session on the real client; returns (observations, read results actually consumed).
pub fn run_session(s: &Session) -> (String, Vec<String>, Vec<u8>, String) {
    let _w = crate::util::watch(&s.server);
    let waker = Waker::noop();
    let mut cx = Context::from_waker(&waker);
    let io = MockIo::new(s.reads.clone(), s.writes.clone(), s.flushes.clone());
    let mut client = Client::from_transport(io.clone());
    let mut obs: Vec<String> = vec![];
    for c in &s.cmds {
        let mut items: Vec<String> = vec![];
        {
            let mut st = client.call_generic(Command { args: c.args.clone(), next_state: None });
            for _ in 0..c.polls {
                let before = io.0.borrow().log.len();
                let r = match Pin::new(&mut st).poll_next(&mut cx) {
                    Poll::Pending => {
                        // Pending is only legitimate when the transport said "not ready" during this poll
                        // (that is what registers the wake-up)
                        let woke = io.0.borrow().log[before..].iter().any(|e| e.ends_with('P'));
                        items.push(if woke { "P" } else { "PX" }.into());
                        continue;
                    }
                    Poll::Ready(r) => r,
                };
                let done = r.is_none();
                items.push(show_item(&r));
                if done {
                    break;
                }
            }
        }
        obs.push(items.join(","));
    }
    let st = io.0.borrow();
    let consumed: Vec<String> = st.log.iter().filter(|l| l.starts_with('r')).cloned().collect();
    (obs.join(";"), consumed, st.wire.clone(), st.log.join(","))
}

fn show_wr(w: &Wr) -> String {
    match w {
        Wr::Accept(k) => format!("a{}", k),
        Wr::NotReady => "p".into(),
        Wr::Zero => "z".into(),
        Wr::Err => "x".into(),
    }
}
fn show_fl(f: &Fl) -> String {
    match f {
        Fl::Ok => "o".into(),
        Fl::NotReady => "p".into(),
        Fl::Err => "x".into(),
    }
}

/// the reference: parse the whole server stream in one piece
pub fn reference(server: &[u8]) -> String {
    let _w = crate::util::watch(server);
    let mut out = vec![];
    let mut pos = 0;
    let end;
    loop {
        let rest = &server[pos..];
        match Response::from_bytes(rest) {
            Ok((rem, resp)) => {
                let used = rest.len() - rem.len();
                let tag = match &resp {
                    Response::Done { tag, .. } => hex(tag.0.as_bytes()),
                    _ => "-".to_string(),
                };
                out.push(format!("F:{}:{}", hex(&rest[..used]), tag));
                pos += used;
                if used == 0 {
                    end = "stuck";
                    break;
                }
            }
            Err(nom::Err::Incomplete(_)) => {
                end = if rest.is_empty() { "clean" } else { "truncated" };
                break;
            }
            Err(_) => {
                end = "malformed";
                break;
            }
        }
    }
    out.push(format!("END:{}", end));
    out.join(",")
}

pub fn emit_session(s: &Session) {
    let (obs, consumed, wire, tlog) = run_session(s);
    // the model replays the reads that actually happened (chunk sizes as the transport delivered them)
    let mut pos = 0usize;
    let mut rd = vec![];
    for c in &consumed {
        match c.as_str() {
            "rP" => rd.push("p".to_string()),
            "rE" => rd.push("e".to_string()),
            "rX" => rd.push("x".to_string()),
            _ => {
                let n: usize = c[1..].parse().unwrap();
                rd.push(format!("c{}", hex(&s.server[pos..pos + n])));
                pos += n;
            }
        }
    }
    let ops: Vec<String> = s.cmds.iter().map(|c| format!("{}:{}", hex(&c.args), c.polls)).collect();
    let sess = format!(
        "R{}|W{}|L{}|O{}",
        rd.join(","),
        s.writes.iter().map(show_wr).collect::<Vec<_>>().join(","),
        s.flushes.iter().map(show_fl).collect::<Vec<_>>().join(","),
        ops.join(",")
    );
    let lines: Vec<String> = s
        .cmds
        .iter()
        .enumerate()
        .map(|(k, c)| {
            let mut l = format!("A{:04} ", (k + 1) % 10000).into_bytes();
            l.extend_from_slice(&c.args);
            l.extend_from_slice(b"\r\n");
            hex(&l)
        })
        .collect();
    println!("{}\t{};wire={}\t{}|{}|{}", sess, obs, hex(&wire), reference(&s.server), lines.join(","), tlog);
}

pub fn main(args: &[String]) {
    let seed: u64 = args.first().map(|s| s.parse().unwrap()).unwrap_or(1);
    let n: usize = args.get(1).map(|s| s.parse().unwrap()).unwrap_or(200);
    std::panic::set_hook(Box::new(|_| {}));
    let mut rng = Rng::new(seed);
    for k in 0..n {
        let s = gen_session(&mut rng, k % 3 == 0);
        emit_session(&s);
    }
    let _ = Enc::new(&mut rng, true);
}

// ------------------------------------------------------------------------------------------------
// C04: the real Framed<MockIo, ImapCodec> alone.
// line: `R<read results consumed>|K<polls>\t<per poll: F:<raw>:<dump> | E:<kind> | N | P<delivered>/<complete in the bytes received>>\t<reference>`

fn count_complete(bytes: &[u8]) -> (usize, &'static str) {
    let mut pos = 0;
    let mut n = 0;
    loop {
        let rest = &bytes[pos..];
        match Response::from_bytes(rest) {
            Ok((rem, _)) => {
                let used = rest.len() - rem.len();
                if used == 0 {
                    return (n, "stuck");
                }
                pos += used;
                n += 1;
            }
            Err(nom::Err::Incomplete(_)) => return (n, if rest.is_empty() { "clean" } else { "truncated" }),
            Err(_) => return (n, "malformed"),
        }
    }
}

pub fn run_framed(stream: &[u8], reads: Vec<Rd>, polls: usize) -> String {
    let _w = crate::util::watch(stream);
    use tokio_util::codec::Framed;
    let waker = Waker::noop();
    let mut cx = Context::from_waker(&waker);
    let io = MockIo::new(reads, vec![], vec![]);
    let mut fr = Framed::new(io.clone(), tokio_imap::ImapCodec::default());
    let mut obs = vec![];
    let mut delivered = 0usize;
    for _ in 0..polls {
        let polled = std::panic::catch_unwind(std::panic::AssertUnwindSafe(|| Pin::new(&mut fr).poll_next(&mut cx)));
        let polled = match polled {
            Ok(p) => p,
            Err(_) => {
                obs.push("PANIC".to_string());
                break;
            }
        };
        match polled {
            Poll::Pending => {
                // how many bytes has the transport handed over so far?
                let got: usize = io.0.borrow().log.iter().filter(|l| l.starts_with('r') && l.len() > 1 && l.as_bytes()[1].is_ascii_digit()).map(|l| l[1..].parse::<usize>().unwrap()).sum();
                let (m, _) = count_complete(&stream[..got]);
                obs.push(format!("P{}/{}", delivered, m));
            }
            Poll::Ready(r) => {
                if matches!(r, Some(Ok(_))) {
                    delivered += 1;
                }
                obs.push(show_item(&r));
            }
        }
    }
    let st = io.0.borrow();
    let mut pos = 0usize;
    let mut rd = vec![];
    for c in st.log.iter().filter(|l| l.starts_with('r')) {
        match c.as_str() {
            "rP" => rd.push("p".to_string()),
            "rE" => rd.push("e".to_string()),
            "rX" => rd.push("x".to_string()),
            _ => {
                let n: usize = c[1..].parse().unwrap();
                rd.push(format!("c{}", hex(&stream[pos..pos + n])));
                pos += n;
            }
        }
    }
    format!("R{}|K{}\t{}\t{}", rd.join(","), polls, obs.join(","), reference(stream))
}

fn gen_stream(rng: &mut Rng) -> Vec<u8> {
    let n = 1 + rng.below(12);
    let mut s = vec![];
    for _ in 0..n {
        // a stray line end between responses (a quirky server's blank line, a lone CR or LF): malformed input
        if rng.chance(1, 24) {
            let stray: &[u8] = *rng.pick(&[&b"\r\n"[..], &b"\r"[..], &b"\n"[..], &b"\r\r\n"[..]]);
            s.extend_from_slice(stray);
        }
        match rng.below(8) {
            0 => {
                // a multi-kilobyte or empty literal
                let len = *rng.pick(&[0usize, 0, 1, 4000, 9000, 20000]);
                s.extend_from_slice(format!("* {} FETCH (BODY[] {{{}}}\r\n", 1 + rng.below(99), len).as_bytes());
                let pat: &[u8] = *rng.pick(&[&b"abc\r\n)* 1 OK\r\n{3}\r\n"[..], &b"xy{4096}\r\n"[..], &b"{99999}\r\nA0001 OK done\r\n"[..], &b"\"(\\"[..]]);
                for k in 0..len {
                    s.push(pat[k % pat.len()]);
                }
                s.extend_from_slice(b")\r\n");
            }
            _ => {
                let (_, e) = gen_pair(rng, true);
                if e.len() < 20000 {
                    s.extend(e);
                }
            }
        }
        // a response ended by a bare LF (quirky server): malformed from there on
        if rng.chance(1, 40) && s.ends_with(b"\r\n") {
            let k = s.len() - 2;
            s.remove(k);
        }
    }
    match rng.below(6) {
        0 => {
            let cut = rng.below(s.len().max(1));
            s.truncate(cut);
        }
        1 => s.extend_from_slice(b"* this line is not a response\r\n* 1 EXISTS\r\n"),
        _ => {}
    }
    s
}

fn chunked(stream: &[u8], cuts: &[usize], rng: &mut Rng, eof: bool, notready: bool) -> Vec<Rd> {
    let mut reads = vec![];
    let mut prev = 0;
    let mut cs: Vec<usize> = cuts.iter().copied().filter(|c| *c > 0 && *c < stream.len()).collect();
    cs.sort();
    cs.dedup();
    cs.push(stream.len());
    for c in cs {
        if notready && rng.chance(1, 3) {
            reads.push(Rd::NotReady);
        }
        if c > prev {
            reads.push(Rd::Chunk(stream[prev..c].to_vec()));
        }
        prev = c;
    }
    if notready && rng.chance(1, 2) {
        reads.push(Rd::NotReady);
    }
    if eof {
        reads.push(Rd::Eof);
    }
    reads
}

/// the literals of a stream under the IMAP framing rule: (first content byte, one past the last content byte)
fn literal_spans(stream: &[u8]) -> Vec<(usize, usize)> {
    let mut spans = vec![];
    let mut pos = 0usize;
    while pos < stream.len() {
        // end of the current line
        let mut e = pos;
        while e + 1 < stream.len() && !(stream[e] == b'\r' && stream[e + 1] == b'\n') {
            e += 1;
        }
        if e + 1 >= stream.len() {
            break;
        }
        let line = &stream[pos..e];
        let mut next = e + 2;
        if line.ends_with(b"}") {
            let mut k = line.len() - 1;
            while k > 0 && line[k - 1].is_ascii_digit() {
                k -= 1;
            }
            if k > 0 && line[k - 1] == b'{' && k < line.len() - 1 {
                if let Ok(n) = std::str::from_utf8(&line[k..line.len() - 1]).unwrap().parse::<usize>() {
                    if next + n <= stream.len() {
                        spans.push((next, next + n));
                        next += n;
                    }
                }
            }
        }
        pos = next;
    }
    spans
}

pub fn framed_main(args: &[String]) {
    let seed: u64 = args.first().map(|s| s.parse().unwrap()).unwrap_or(1);
    let n: usize = args.get(1).map(|s| s.parse().unwrap()).unwrap_or(50);
    std::panic::set_hook(Box::new(|_| {}));
    let mut rng = Rng::new(seed);
    // regression corpus: short final responses at every cut (the size-hint defect 479ba35 withheld `* OK [Mail]`)
    for c in [&b"* OK [Mail]\r\n"[..], b"* SORT\r\n", b"* SEARCH\r\n", b"+ \r\n", b"* 1 EXISTS\r\n", b"A1 OK\r\n", b"* OK [M] x\r\n", b"* LIST () NIL x\r\n", b"* 1 FETCH (UID 1)\r\n* S 1\r\n",
              b"* OK a\r\n\r\n* OK b\r\n", b"\r\n* 1 EXISTS\r\n", b"* 1 EXISTS\r\n\r", b"* LIST (\\HasNoChildren) \"/\" {5}\r\nINBOX\r\n",
              b"* LSUB () \".\" {0}\r\n\r\n* 2 EXISTS\r\n", b"* STATUS {3}\r\nabc (MESSAGES 1)\r\n* SEARCH 1 2\r\n"] {
        for cut in 1..c.len() {
            let reads = vec![Rd::Chunk(c[..cut].to_vec()), Rd::NotReady, Rd::Chunk(c[cut..].to_vec()), Rd::NotReady];
            println!("{}", run_framed(c, reads, 12));
        }
    }
    // a literal longer than any read buffer whose content has no line end in it, cut at every boundary of the literal
    for len in [8193usize, 9000, 70000] {
        let mut big = format!("* 1 FETCH (UID 7 BODY[] {{{}}}\r\n", len).into_bytes();
        big.extend(std::iter::repeat(b'Q').take(len));
        big.extend_from_slice(b")\r\nA0001 OK done\r\n");
        for (a, b) in literal_spans(&big) {
            for c in [a - 1, a, a + 1, b - 1, b, b + 1] {
                let reads = vec![Rd::Chunk(big[..c].to_vec()), Rd::NotReady, Rd::Chunk(big[c..].to_vec()), Rd::NotReady];
                println!("{}", run_framed(&big, reads, 12));
            }
        }
    }
    for k in 0..n {
        let stream = gen_stream(&mut rng);
        let polls = 40;
        // every cut inside the last (possibly short) response of the stream
        {
            let mut pos = 0usize;
            let mut last = 0usize;
            while let Ok((rem, _)) = Response::from_bytes(&stream[pos..]) {
                let used = stream.len() - pos - rem.len();
                if used == 0 {
                    break;
                }
                last = pos;
                pos += used;
            }
            let end = pos.min(last + 120);
            for cut in last + 1..end {
                let reads = vec![Rd::Chunk(stream[..cut].to_vec()), Rd::NotReady, Rd::Chunk(stream[cut..].to_vec()), Rd::NotReady];
                println!("{}", run_framed(&stream, reads, polls));
            }
        }
        // cuts at the boundaries of literals: around the end of the header line and around the end of the content
        for (a, b) in literal_spans(&stream).into_iter().take(3) {
            let mut cuts: Vec<usize> = vec![a.saturating_sub(1), a, a + 1, b.saturating_sub(1), b, b + 1];
            cuts.retain(|c| *c > 0 && *c < stream.len());
            cuts.dedup();
            for c in cuts {
                let reads = vec![Rd::Chunk(stream[..c].to_vec()), Rd::NotReady, Rd::Chunk(stream[c..].to_vec()), Rd::NotReady];
                println!("{}", run_framed(&stream, reads, polls));
            }
            // the last bytes of the content one at a time
            if b >= a + 3 && b < stream.len() {
                let reads = vec![Rd::Chunk(stream[..b - 3].to_vec()), Rd::NotReady, Rd::Chunk(stream[b - 3..b - 2].to_vec()), Rd::Chunk(stream[b - 2..b - 1].to_vec()),
                                 Rd::NotReady, Rd::Chunk(stream[b - 1..b].to_vec()), Rd::NotReady, Rd::Chunk(stream[b..].to_vec()), Rd::NotReady];
                println!("{}", run_framed(&stream, reads, polls));
            }
        }
        // whole, every single cut (short streams) or sampled cuts, pairs of cuts, many cuts down to single bytes
        println!("{}", run_framed(&stream, chunked(&stream, &[], &mut rng, true, false), polls));
        let singles: Vec<usize> = if stream.len() <= 160 && k % 4 == 0 { (1..stream.len()).collect() } else { (0..12).map(|_| rng.below(stream.len().max(1))).collect() };
        for c in singles {
            let eof = rng.chance(2, 3);
            let nr = rng.chance(1, 3);
            println!("{}", run_framed(&stream, chunked(&stream, &[c], &mut rng, eof, nr), polls));
        }
        let pairs = if stream.len() <= 60 && k % 8 == 0 { stream.len() * stream.len() / 2 } else { 12 };
        if stream.len() <= 60 && k % 8 == 0 {
            for a in 1..stream.len() {
                for b in a + 1..stream.len() {
                    println!("{}", run_framed(&stream, chunked(&stream, &[a, b], &mut rng, true, false), polls));
                }
            }
        } else {
            for _ in 0..pairs {
                let (a, b) = (rng.below(stream.len().max(1)), rng.below(stream.len().max(1)));
                let eof = rng.chance(2, 3);
                let nr = rng.chance(1, 2);
                println!("{}", run_framed(&stream, chunked(&stream, &[a, b], &mut rng, eof, nr), polls));
            }
        }
        // cuts at protocol-looking places: right after every "}" CR LF and every CR LF (also inside literals)
        let mut special: Vec<usize> = vec![];
        for p in 2..stream.len() {
            if stream[p - 1] == b'\n' && stream[p - 2] == b'\r' {
                special.push(p);
                special.push(p - 1);
            }
        }
        for _ in 0..special.len().min(16) {
            let c = *rng.pick(&special);
            let mut reads = vec![Rd::Chunk(stream[..c].to_vec()), Rd::NotReady, Rd::Chunk(stream[c..].to_vec()), Rd::NotReady];
            if rng.chance(1, 2) {
                reads.push(Rd::Eof);
            }
            println!("{}", run_framed(&stream, reads, polls));
        }
        for _ in 0..4 {
            let ncuts = if stream.len() < 600 && rng.chance(1, 3) { stream.len() } else { 1 + rng.below(30) };
            let cuts: Vec<usize> = if ncuts >= stream.len() { (1..stream.len()).collect() } else { (0..ncuts).map(|_| rng.below(stream.len().max(1))).collect() };
            let eof = rng.chance(2, 3);
            let polls2 = if ncuts >= stream.len() { stream.len() + 20 } else { 80 };
            println!("{}", run_framed(&stream, chunked(&stream, &cuts, &mut rng, eof, true), polls2));
        }
    }
}
