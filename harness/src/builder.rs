//! C10: the text-taking builders on generated argument strings, through to the bytes the client
//! writes.  Case: `<which> <hex a> <hex b>` (b ignored by one-argument builders).
//! Output: `<case>\tOK <hex args> <hex wire>` or `<case>\tREFUSED` (the builder panicked on its
//! quoted_string(..).unwrap()).
use crate::mockio::MockIo;
use crate::util::{hex, Rng};
use futures_core::Stream;
use imap_proto::builders::command::{Command, CommandBuilder};
use std::pin::Pin;
use std::task::{Context, Poll, Waker};
use tokio_imap::Client;

fn build(which: &str, a: &str, b: &str) -> Option<Command> {
    let (a, b) = (a.to_string(), b.to_string());
    let which = which.to_string();
    std::panic::catch_unwind(move || match which.as_str() {
        "login" => CommandBuilder::login(&a, &b),
        "list" => CommandBuilder::list(&a, &b),
        "select" => CommandBuilder::select(&a).into(),
        "examine" => CommandBuilder::examine(&a).into(),
        _ => panic!("which"),
    })
    .ok()
}

fn wire_of(cmd: Command) -> Vec<u8> {
    let waker = Waker::noop();
    let mut cx = Context::from_waker(&waker);
    let io = MockIo::new(vec![], vec![], vec![]);
    let mut client = Client::from_transport(io.clone());
    let mut s = client.call_generic(cmd);
    match Pin::new(&mut s).poll_next(&mut cx) {
        Poll::Pending => {}
        _ => return b"UNEXPECTED".to_vec(),
    }
    let w = io.0.borrow().wire.clone();
    w
}

fn emit(which: &str, a: &str, b: &str) {
    let case = format!("{} {} {}", which, hex(a.as_bytes()), hex(b.as_bytes()));
    match build(which, a, b) {
        None => println!("{}\tREFUSED", case),
        Some(cmd) => {
            let args = cmd.args.clone();
            let wire = wire_of(cmd);
            println!("{}\tOK {} {}", case, hex(&args), hex(&wire));
        }
    }
}

const SPECIALS: &[char] = &['"', '\\', '\r', '\n', ' ', '{', '(', ')', '}', '\0', 'a', 'Z', '\x7f', '*', '%', '\t'];

fn random_string(rng: &mut Rng) -> String {
    let len = match rng.below(10) {
        0 => 0,
        1..=5 => rng.below(12),
        6..=8 => rng.below(80),
        _ => rng.below(1024),
    };
    let mut s = String::new();
    let crlf_ok = rng.chance(1, 3);
    for _ in 0..len {
        let c = match rng.below(10) {
            0..=2 => *rng.pick(SPECIALS),
            3..=6 => (32 + rng.below(95)) as u8 as char,
            7 => char::from_u32(0x80 + rng.below(0x700) as u32).unwrap_or('x'),
            8 => char::from_u32(0x800 + rng.below(0xF000) as u32).unwrap_or('y'),
            _ => char::from_u32(0x10000 + rng.below(0xFFFFF) as u32).unwrap_or('z'),
        };
        if (c == '\r' || c == '\n') && !crlf_ok {
            s.push('"');
        } else {
            s.push(c);
        }
        if s.len() > 1024 {
            break;
        }
    }
    s
}

pub fn main(args: &[String]) {
    let seed: u64 = args.first().map(|s| s.parse().unwrap()).unwrap_or(1);
    let maxlen: usize = args.get(1).map(|s| s.parse().unwrap()).unwrap_or(2);
    let n_random: usize = args.get(2).map(|s| s.parse().unwrap()).unwrap_or(20000);
    std::panic::set_hook(Box::new(|_| {}));
    let full: Vec<char> = (0u8..128).map(|b| b as char).collect();
    let mut reduced: Vec<char> = SPECIALS.to_vec();
    let mut rng = Rng::new(seed);
    while reduced.len() < 24 {
        let c = (rng.below(128) as u8) as char;
        if !reduced.contains(&c) {
            reduced.push(c);
        }
    }
    // exhaustive: every string over the alphabet up to the length bound, in every argument slot
    let slots: &[(&str, usize)] = &[("login", 0), ("login", 1), ("list", 0), ("list", 1), ("select", 0), ("examine", 0)];
    for (si, (which, slot)) in slots.iter().enumerate() {
        for len in 0..=maxlen {
            // full ASCII up to length 2 everywhere; at length 3 full ASCII only in the select slot
            let alpha: &Vec<char> = if len <= 2 || *which == "select" { &full } else { &reduced };
            let mut idx = vec![0usize; len];
            loop {
                let s: String = idx.iter().map(|i| alpha[*i]).collect();
                let other = if si % 2 == 0 { "x" } else { "o\"k" };
                if *slot == 0 {
                    emit(which, &s, other);
                } else {
                    emit(which, other, &s);
                }
                let mut k = len;
                loop {
                    if k == 0 {
                        break;
                    }
                    k -= 1;
                    idx[k] += 1;
                    if idx[k] < alpha.len() {
                        break;
                    }
                    idx[k] = 0;
                    if k == 0 {
                        k = usize::MAX;
                        break;
                    }
                }
                if len == 0 || k == usize::MAX {
                    break;
                }
            }
        }
    }
    for _ in 0..n_random {
        let which = *rng.pick(&["login", "list", "select", "examine"]);
        let a = random_string(&mut rng);
        let b = random_string(&mut rng);
        emit(which, &a, &b);
    }
}
