//! C15: `into_owned` on parsed and generated responses.  The borrowed response is parsed out of a heap
//! buffer; after `into_owned` the buffer is overwritten and freed and the allocator churned with blocks of
//! the same size, and only then is the owned value dumped and compared.
//! Output: `<hex input>\t<result as in parse, of the owned value>\t<verdict>` with verdict `SAME` or `DIFF <what>`.
use crate::dump;
use crate::parse::gen_pair;
use crate::util::{hex, unhex, Rng};
use imap_proto::types::*;

fn churn(len: usize, fill: u8) -> Vec<Vec<u8>> {
    (0..8).map(|k| vec![fill.wrapping_add(k as u8); len.max(1)]).collect()
}

/// into_owned of the parts, taken one by one out of a second parse of the same bytes
fn parts(enc: &[u8]) -> Option<String> {
    let mut buf = enc.to_vec();
    let reference = Response::from_bytes(enc).ok()?.1;
    let (_, r) = Response::from_bytes(&buf).ok()?;
    enum Part {
        Attr(Vec<AttributeValue<'static>>),
        Code(Option<ResponseCode<'static>>),
        Datum(MailboxDatum<'static>),
        Caps(Vec<Capability<'static>>),
        Nothing,
    }
    let owned = match r {
        Response::Fetch(_, attrs) => Part::Attr(attrs.into_iter().map(|a| a.into_owned()).collect()),
        Response::Done { code, .. } | Response::Data { code, .. } | Response::Continue { code, .. } => Part::Code(code.map(|c| c.into_owned())),
        Response::MailboxData(d) => Part::Datum(d.into_owned()),
        Response::Capabilities(c) => Part::Caps(c.into_iter().map(|c| c.into_owned()).collect()),
        _ => Part::Nothing,
    };
    for b in buf.iter_mut() {
        *b = 0xA5;
    }
    let n = buf.len();
    drop(buf);
    let _keep = churn(n, 0x11);
    match (owned, reference) {
        (Part::Attr(o), Response::Fetch(_, attrs)) => {
            if o != attrs {
                return Some("AttributeValue::into_owned changes a fetched attribute".into());
            }
        }
        (Part::Code(o), Response::Done { code, .. }) | (Part::Code(o), Response::Data { code, .. }) | (Part::Code(o), Response::Continue { code, .. }) => {
            if o != code {
                return Some("ResponseCode::into_owned changes the response code".into());
            }
        }
        (Part::Datum(o), Response::MailboxData(d)) => {
            if o != d {
                return Some("MailboxDatum::into_owned changes the mailbox datum".into());
            }
        }
        (Part::Caps(o), Response::Capabilities(c)) => {
            if o != c {
                return Some("Capability::into_owned changes a capability".into());
            }
        }
        _ => {}
    }
    None
}

pub fn check_one(enc: &[u8], generated: Option<&Response<'static>>) -> (String, String) {
    let _w = crate::util::watch(enc);
    let r = std::panic::catch_unwind(|| {
        let mut buf: Vec<u8> = enc.to_vec();
        let (before, consumed, owned) = {
            match Response::from_bytes(&buf) {
                Ok((rest, resp)) => {
                    let consumed = buf.len() - rest.len();
                    let before = dump::to_string(&dump::response(&resp));
                    (before, consumed, resp.into_owned())
                }
                Err(nom::Err::Incomplete(_)) => return ("INC".to_string(), "SAME".to_string()),
                Err(nom::Err::Error(_)) => return ("ERR".to_string(), "SAME".to_string()),
                Err(nom::Err::Failure(_)) => return ("FAIL".to_string(), "SAME".to_string()),
            }
        };
        for b in buf.iter_mut() {
            *b = 0xAA;
        }
        let n = buf.len();
        drop(buf);
        let _keep = churn(n, 0x55);
        let after = dump::to_string(&dump::response(&owned));
        let mut verdict = "SAME".to_string();
        if after != before {
            verdict = format!("DIFF the owned value differs from the borrowed one: before {} after {}", before, after);
        } else {
            match Response::from_bytes(enc) {
                Ok((_, again)) if again == owned => {}
                _ => verdict = "DIFF owned value != a second parse of the same bytes (PartialEq)".to_string(),
            }
            if let Some(g) = generated {
                if *g != owned {
                    verdict = "DIFF owned value != the generated value (PartialEq)".to_string();
                }
            }
            if let Some(p) = parts(enc) {
                verdict = format!("DIFF {}", p);
            }
        }
        (format!("OK {} {}", consumed, after), verdict)
    });
    r.unwrap_or_else(|_| ("PANIC".to_string(), "DIFF panic".to_string()))
}

pub fn main(args: &[String]) {
    let stream = args.first().map(|s| s.as_str()).unwrap_or("parsed").to_string();
    let seed: u64 = args.get(1).map(|s| s.parse().unwrap()).unwrap_or(1);
    let n: usize = args.get(2).map(|s| s.parse().unwrap()).unwrap_or(1000);
    std::panic::set_hook(Box::new(|_| {}));
    let mut rng = Rng::new(seed);
    match stream.as_str() {
        // generated values of every kind, their encodings parsed back
        "parsed" => {
            for _ in 0..n {
                let (v, enc) = gen_pair(&mut rng, true);
                let (res, verdict) = check_one(&enc, Some(&v));
                println!("{}\t{}\t{}", hex(&enc), res, verdict);
            }
        }
        // generated values themselves (already owning their data): into_owned must not change them either
        "generated" => {
            for _ in 0..n {
                let (v, enc) = gen_pair(&mut rng, true);
                let before = dump::to_string(&dump::response(&v));
                let owned = v.into_owned();
                let after = dump::to_string(&dump::response(&owned));
                println!("{}\tOK {} {}\t{}", hex(&enc), enc.len(), after, if before == after { "SAME".to_string() } else { format!("DIFF generated value changed by into_owned: before {}", before) });
            }
        }
        // nesting near the parser's bounds: body-extension lists j deep inside a part that sits k multiparts deep
        "deep" => {
            for k in 0..32usize {
                for j in (0..32usize).filter(|j| k < 4 || k + j >= 26 || *j % 7 == 0) {
                    let mut part = String::from("(\"TEXT\" \"PLAIN\" NIL NIL NIL \"7BIT\" 1 1 NIL NIL NIL NIL");
                    if j > 0 {
                        part.push(' ');
                        part.push_str(&"(".repeat(j));
                        part.push_str("7 \"x\"");
                        part.push_str(&")".repeat(j));
                    }
                    part.push(')');
                    let mut body = part;
                    for _ in 0..k {
                        body = format!("({} \"MIXED\")", body);
                    }
                    let enc = format!("* 1 FETCH (BODYSTRUCTURE {})\r\n", body).into_bytes();
                    let (res, verdict) = check_one(&enc, None);
                    println!("{}\t{}\t{}", hex(&enc), res, verdict);
                }
            }
        }
        "corpus" => {
            let mut line = String::new();
            while std::io::stdin().read_line(&mut line).unwrap_or(0) > 0 {
                let h = line.trim();
                if !h.is_empty() {
                    let enc = unhex(h);
                    let (res, verdict) = check_one(&enc, None);
                    println!("{}\t{}\t{}", h, res, verdict);
                }
                line.clear();
            }
        }
        s => {
            eprintln!("unknown owned stream {s}");
            std::process::exit(2);
        }
    }
}
