//! A scripted transport: AsyncRead + AsyncWrite whose every answer comes from a script, polled by
//! hand with a no-op waker (no executor crate is available offline).
use std::cell::RefCell;
use std::collections::VecDeque;
use std::rc::Rc;
use std::io;
use std::pin::Pin;
use std::task::{Context, Poll};
use tokio::io::{AsyncRead, AsyncWrite, ReadBuf};

#[derive(Debug, Clone, PartialEq)]
pub enum Rd {
    Chunk(Vec<u8>),
    NotReady,
    Eof,
    Err,
}
#[derive(Debug, Clone, PartialEq)]
pub enum Wr {
    Accept(usize),
    NotReady,
    Zero,
    Err,
}
#[derive(Debug, Clone, PartialEq)]
pub enum Fl {
    Ok,
    NotReady,
    Err,
}

#[derive(Default)]
pub struct State {
    pub reads: VecDeque<Rd>,
    pub writes: VecDeque<Wr>,
    pub flushes: VecDeque<Fl>,
    pub wire: Vec<u8>,
    /// every transport call, in order: "r<n>" bytes read, "rP" read pending, "rE" eof, "rX" error,
    /// "w<n>", "wP", "wX", "fO", "fP", "fX"
    pub log: Vec<String>,
    /// exhausted read script: true = Pending forever, false = Eof
    pub read_default_pending: bool,
}

/// The transport handed to the client; the harness keeps a clone of the handle to script and observe it.
#[derive(Clone)]
pub struct MockIo(pub Rc<RefCell<State>>);

impl MockIo {
    pub fn new(reads: Vec<Rd>, writes: Vec<Wr>, flushes: Vec<Fl>) -> Self {
        MockIo(Rc::new(RefCell::new(State {
            reads: reads.into(),
            writes: writes.into(),
            flushes: flushes.into(),
            wire: vec![],
            log: vec![],
            read_default_pending: true,
        })))
    }
}

impl AsyncRead for MockIo {
    fn poll_read(
        self: Pin<&mut Self>,
        _cx: &mut Context<'_>,
        buf: &mut ReadBuf<'_>,
    ) -> Poll<io::Result<()>> {
        let mut me = self.0.borrow_mut();
        let ev = me.reads.pop_front();
        match ev {
            None => {
                if me.read_default_pending {
                    me.log.push("rP".into());
                    Poll::Pending
                } else {
                    me.log.push("rE".into());
                    Poll::Ready(Ok(()))
                }
            }
            Some(Rd::NotReady) => {
                me.log.push("rP".into());
                Poll::Pending
            }
            Some(Rd::Eof) => {
                me.log.push("rE".into());
                Poll::Ready(Ok(()))
            }
            Some(Rd::Err) => {
                me.log.push("rX".into());
                Poll::Ready(Err(io::Error::new(io::ErrorKind::ConnectionReset, "mock read error")))
            }
            Some(Rd::Chunk(c)) => {
                let n = c.len().min(buf.remaining());
                buf.put_slice(&c[..n]);
                if n < c.len() {
                    me.reads.push_front(Rd::Chunk(c[n..].to_vec()));
                }
                me.log.push(format!("r{}", n));
                Poll::Ready(Ok(()))
            }
        }
    }
}

impl AsyncWrite for MockIo {
    fn poll_write(
        self: Pin<&mut Self>,
        _cx: &mut Context<'_>,
        buf: &[u8],
    ) -> Poll<io::Result<usize>> {
        let mut me = self.0.borrow_mut();
        let ev = me.writes.pop_front();
        match ev {
            Some(Wr::NotReady) => {
                me.log.push("wP".into());
                Poll::Pending
            }
            Some(Wr::Zero) => {
                me.log.push("w0".into());
                Poll::Ready(Ok(0))
            }
            Some(Wr::Err) => {
                me.log.push("wX".into());
                Poll::Ready(Err(io::Error::new(io::ErrorKind::BrokenPipe, "mock write error")))
            }
            Some(Wr::Accept(k)) => {
                let n = k.max(1).min(buf.len());
                me.wire.extend_from_slice(&buf[..n]);
                me.log.push(format!("w{}", n));
                Poll::Ready(Ok(n))
            }
            None => {
                me.wire.extend_from_slice(buf);
                me.log.push(format!("w{}", buf.len()));
                Poll::Ready(Ok(buf.len()))
            }
        }
    }
    fn poll_flush(self: Pin<&mut Self>, _cx: &mut Context<'_>) -> Poll<io::Result<()>> {
        let mut me = self.0.borrow_mut();
        let ev = me.flushes.pop_front();
        match ev {
            Some(Fl::NotReady) => {
                me.log.push("fP".into());
                Poll::Pending
            }
            Some(Fl::Err) => {
                me.log.push("fX".into());
                Poll::Ready(Err(io::Error::new(io::ErrorKind::BrokenPipe, "mock flush error")))
            }
            Some(Fl::Ok) | None => {
                me.log.push("fO".into());
                Poll::Ready(Ok(()))
            }
        }
    }
    fn poll_shutdown(self: Pin<&mut Self>, _cx: &mut Context<'_>) -> Poll<io::Result<()>> {
        Poll::Ready(Ok(()))
    }
}
