//! Generator of response *values* (the crate's own types, owned) and an independent, RFC-derived
//! printer that renders a value with random spelling choices (keyword case, atom/quoted/literal,
//! leading zeros, tolerated deviations).  The printed bytes must parse back to exactly the value.
use crate::util::Rng;
use imap_proto::types::*;
use std::borrow::Cow;
use std::collections::HashMap;

// ------------------------------------------------------------------------------------------------ classes
pub fn is_atom_char(c: u8) -> bool {
    (1..=127).contains(&c) && c >= 32 && !b"(){ %*\"\\]".contains(&c) && c != 127 || c == 127 && false
}
pub fn is_astring_char(c: u8) -> bool {
    is_atom_char(c) || c == b']'
}
pub fn is_tag_char(c: u8) -> bool {
    is_astring_char(c) && c != b'+'
}
pub fn is_quoted_safe(c: u8) -> bool {
    (1..=127).contains(&c) && c != b'\r' && c != b'\n' && c != b'"' && c != b'\\'
}
/// quoted-safe bytes, with `\` and `"` only as the escape pairs `\\` and `\"`: such a string can be sent between
/// double quotes as it stands, and the crate (which does not unescape) returns it as it stands
pub fn is_escaped_wellformed(b: &[u8]) -> bool {
    let mut k = 0;
    while k < b.len() {
        if b[k] == b'\\' {
            if k + 1 < b.len() && (b[k + 1] == b'\\' || b[k + 1] == b'"') {
                k += 2;
                continue;
            }
            return false;
        }
        if !is_quoted_safe(b[k]) {
            return false;
        }
        k += 1;
    }
    true
}
pub fn is_text_char(c: u8) -> bool {
    (1..=127).contains(&c) && c != b'\r' && c != b'\n'
}

// ------------------------------------------------------------------------------------------------ string material
const WORDS: &[&str] = &[
    "INBOX", "inbox", "Inbox", "iNbOx", "inboX", "Sent", "Drafts", "Archive/2024", "NIL", "nil", "a", "x", "foo.bar", "user@example.org", "=?UTF-8?Q?x?=",
    "7BIT", "TEXT", "PLAIN", "UTF-8", "charset", "OK", "FETCH", "BODY", "UID", "1", "42", "{5}", "[x]", "+", "~", "STORAGE", "MESSAGE",
    "IMAP4rev1", "AUTH=PLAIN", "\\Seen", "\\*", "Foo Bar", "multi word name", "(paren)", "100%", "star*",
];
const LOOKALIKES: &[&str] = &[
    ")\r\nA0001 OK done\r\n", "{5}\r\n", "\r\n", "\r", "\n", "\"", "\\", "\\\"", ")", "(", "((", "))", "]", " ", "* 1 EXISTS\r\n", "NIL", "{0}\r\n",
    "A0001 OK\r\n", "\"unbalanced", "+ go ahead\r\n", "}", "{", "\t",
];

pub fn atom(rng: &mut Rng) -> String {
    let n = 1 + { let big = rng.chance(1, 8); rng.below(if big { 40 } else { 8 }) };
    let mut s = String::new();
    while s.len() < n {
        let c = (33 + rng.below(94)) as u8;
        if is_atom_char(c) {
            s.push(c as char);
        }
    }
    s
}
pub fn astring_atom(rng: &mut Rng) -> String {
    let mut s = atom(rng);
    if rng.chance(1, 6) {
        s.push(']');
    }
    s
}
pub fn quoted_safe(rng: &mut Rng) -> String {
    let n = { let big = rng.chance(1, 8); rng.below(if big { 60 } else { 12 }) };
    let mut s = String::new();
    for _ in 0..n {
        let c = if rng.chance(1, 12) { (1 + rng.below(31)) as u8 } else { (32 + rng.below(96)) as u8 };
        if is_quoted_safe(c) {
            s.push(c as char);
        }
    }
    s
}
/// any valid UTF-8 without NUL (needs a literal when it is not quoted-safe)
pub fn utf8_any(rng: &mut Rng) -> String {
    if rng.chance(1, 14) {
        // escape pairs in the middle and at the very end (`"Public Folders\\"`, `"say \"hi\""`)
        let mut s = quoted_safe(rng);
        for _ in 0..1 + rng.below(3) {
            s.push_str(if rng.chance(1, 2) { "\\\\" } else { "\\\"" });
            if rng.chance(1, 2) {
                s.push_str(&quoted_safe(rng));
            }
        }
        return s;
    }
    match rng.below(10) {
        0..=3 => rng.pick(WORDS).to_string(),
        4..=5 => quoted_safe(rng),
        6 => rng.pick(LOOKALIKES).to_string(),
        7 => {
            let mut s = quoted_safe(rng);
            s.push_str(*rng.pick(LOOKALIKES));
            s.push_str(&quoted_safe(rng));
            s
        }
        _ => {
            let n = rng.below(10);
            let mut s = String::new();
            for _ in 0..n {
                let c = match rng.below(4) {
                    0 => char::from_u32(0x80 + rng.below(0x700) as u32),
                    1 => char::from_u32(0x800 + rng.below(0xD000) as u32),
                    2 => char::from_u32(0x10000 + rng.below(0xFFFF) as u32),
                    _ => char::from_u32(1 + rng.below(126) as u32),
                };
                s.push(c.unwrap_or('?'));
            }
            s
        }
    }
}
/// arbitrary non-NUL bytes
pub fn bytes_any(rng: &mut Rng) -> Vec<u8> {
    match rng.below(10) {
        0..=5 => utf8_any(rng).into_bytes(),
        6..=8 => {
            let n = rng.below(24);
            (0..n).map(|_| (1 + rng.below(255)) as u8).collect()
        }
        _ => {
            let n = if rng.chance(1, 10) { 2000 + rng.below(6000) } else { rng.below(300) };
            (0..n).map(|_| (1 + rng.below(255)) as u8).collect()
        }
    }
}

fn num32(rng: &mut Rng) -> u32 {
    match rng.below(12) {
        0 => 0,
        1 => 1,
        2 => 1 << 31,
        3 => u32::MAX,
        4 => u32::MAX - 1,
        5 => (1 << 31) - 1,
        6..=8 => rng.below(100) as u32,
        _ => rng.next() as u32,
    }
}
fn num64(rng: &mut Rng) -> u64 {
    match rng.below(12) {
        0 => 0,
        1 => 1,
        2 => 1 << 63,
        3 => u64::MAX,
        4 => u64::MAX - 1,
        5 => u32::MAX as u64 + 1,
        6..=8 => rng.below(1000) as u64,
        _ => rng.next(),
    }
}

// ------------------------------------------------------------------------------------------------ printer
pub struct Enc<'r> {
    pub out: Vec<u8>,
    pub rng: &'r mut Rng,
    /// spelling freedom: false = canonical spelling everywhere (upper-case keywords, quoted when possible...)
    pub vary: bool,
    /// positions (byte offset, length) of literal contents, for C08
    pub literal_spans: Vec<(usize, usize)>,
    /// numerals written: (byte offset, length, width of the field in bits, inside a bracketed response code)
    pub num_spans: Vec<(usize, usize, u8, bool)>,
    pub in_code: bool,
    /// spell every `string` as a literal (C08)
    pub force_literal: bool,
    /// C16 reference server only: RFC 3501 7.4.2 lets any number of further body-extension items follow the first one
    /// (`*(SP body-extension)`, "client implementations ... MUST be prepared to accept such extension data"); when set,
    /// some BODYSTRUCTURE extension tails get one or two more.  Reached only if the FETCH builder can ask for
    /// BODYSTRUCTURE (the pinned builder offers the non-extensible BODY only).
    pub more_ext: Option<Rng>,
}

impl<'r> Enc<'r> {
    pub fn new(rng: &'r mut Rng, vary: bool) -> Self {
        Enc { out: vec![], rng, vary, literal_spans: vec![], num_spans: vec![], in_code: false, force_literal: false, more_ext: None }
    }
    pub fn raw(&mut self, s: &[u8]) {
        self.out.extend_from_slice(s);
    }
    pub fn sp(&mut self) {
        self.out.push(b' ');
    }
    pub fn kw(&mut self, k: &str) {
        let mode = if self.vary { self.rng.below(4) } else { 0 };
        for ch in k.chars() {
            let c = match mode {
                0 => ch.to_ascii_uppercase(),
                1 => ch.to_ascii_lowercase(),
                2 => ch,
                _ => {
                    if self.rng.chance(1, 2) {
                        ch.to_ascii_uppercase()
                    } else {
                        ch.to_ascii_lowercase()
                    }
                }
            };
            self.out.push(c as u8);
        }
    }
    pub fn num(&mut self, n: u64) {
        self.num_bits(n, 64)
    }
    pub fn num32(&mut self, n: u64) {
        self.num_bits(n, 32)
    }
    fn num_bits(&mut self, n: u64, bits: u8) {
        let start = self.out.len();
        if self.vary && self.rng.chance(1, 6) {
            let big = self.rng.chance(1, 5);
            let z = 1 + self.rng.below(if big { 30 } else { 3 });
            for _ in 0..z {
                self.out.push(b'0');
            }
        }
        self.raw(n.to_string().as_bytes());
        let in_code = self.in_code;
        self.num_spans.push((start, self.out.len() - start, bits, in_code));
    }
    pub fn nil(&mut self) {
        self.kw("NIL");
    }
    pub fn literal(&mut self, b: &[u8]) {
        self.out.push(b'{');
        self.num32(b.len() as u64);
        self.raw(b"}\r\n");
        self.literal_spans.push((self.out.len(), b.len()));
        self.raw(b);
    }
    pub fn quoted(&mut self, b: &[u8]) {
        self.out.push(b'"');
        self.raw(b);
        self.out.push(b'"');
    }
    /// `string`: quoted when the content allows it, else literal
    pub fn string(&mut self, b: &[u8]) {
        let can_quote = is_escaped_wellformed(b);
        if can_quote && !self.force_literal && !(self.vary && self.rng.chance(1, 4)) {
            self.quoted(b)
        } else {
            self.literal(b)
        }
    }
    /// `astring`: additionally an atom when the content allows it
    pub fn astring(&mut self, b: &[u8]) {
        let can_atom = !b.is_empty() && b.iter().all(|c| is_astring_char(*c));
        if can_atom && !(self.force_literal && self.rng.chance(1, 2)) && (!self.vary || self.rng.chance(1, 2)) {
            self.raw(b)
        } else {
            self.string(b)
        }
    }
    pub fn nstring(&mut self, b: &Option<Cow<[u8]>>) {
        match b {
            None => self.nil(),
            Some(x) => self.string(x),
        }
    }
    pub fn nstr(&mut self, b: &Option<Cow<str>>) {
        match b {
            None => self.nil(),
            Some(x) => self.string(x.as_bytes()),
        }
    }
    /// mailbox: "INBOX" may be spelled in any case
    pub fn mailbox(&mut self, m: &str) {
        if m == "INBOX" && self.vary {
            let mut s = Vec::new();
            for ch in "INBOX".chars() {
                s.push(if self.rng.chance(1, 2) { ch.to_ascii_lowercase() } else { ch } as u8);
            }
            self.astring(&s)
        } else {
            self.astring(m.as_bytes())
        }
    }
}

// ------------------------------------------------------------------------------------------------ values + encodings
fn mailbox_name(rng: &mut Rng) -> String {
    if rng.chance(1, 5) {
        return "INBOX".into();
    }
    loop {
        let s = match rng.below(4) {
            0 => astring_atom(rng),
            1 => quoted_safe(rng),
            _ => utf8_any(rng),
        };
        if !s.eq_ignore_ascii_case("INBOX") {
            return s;
        }
    }
}

fn flag(rng: &mut Rng, perm: bool) -> String {
    match rng.below(6) {
        0 if perm => "\\*".into(),
        0..=2 => format!("\\{}", atom(rng)),
        3 => {
            // a system flag, in any letter case (the case a server sent is part of the value)
            let f = *rng.pick(&["\\Seen", "\\Answered", "\\Flagged", "\\Deleted", "\\Draft", "\\Recent"]);
            if rng.chance(1, 2) {
                f.chars().map(|c| if rng.chance(1, 2) { c.to_ascii_uppercase() } else { c.to_ascii_lowercase() }).collect()
            } else {
                f.to_string()
            }
        }
        _ => astring_atom(rng),
    }
}

fn capability(rng: &mut Rng) -> Capability<'static> {
    match rng.below(5) {
        0 => Capability::Imap4rev1,
        1 => Capability::Auth(Cow::Owned(atom(rng))),
        _ => loop {
            // near misses of the two special spellings stay ordinary atoms
            let a = if rng.chance(1, 4) {
                format!("IMAP4rev1{}", atom(rng))
            } else if rng.chance(1, 4) {
                rng.pick(&["IMAP4rev2", "IMAP4REV2", "IMAP4rev", "IMAP4", "IMAP4rev11", "MAP4rev1", "IMAP4rev0", "AUTH", "AUTH-PLAIN", "AUTHX=Y", "XAUTH=PLAIN", "LITERAL+", "LOGINDISABLED"]).to_string()
            } else if rng.chance(1, 6) {
                "AUTH=".into()
            } else {
                atom(rng)
            };
            if !a.eq_ignore_ascii_case("IMAP4rev1") && !(a.len() > 5 && a.as_bytes()[..5].eq_ignore_ascii_case(b"AUTH=")) {
                return Capability::Atom(Cow::Owned(a));
            }
        },
    }
}
fn enc_capability(e: &mut Enc, c: &Capability) {
    match c {
        Capability::Imap4rev1 => e.kw("IMAP4rev1"),
        Capability::Auth(a) => {
            e.kw("AUTH=");
            e.raw(a.as_bytes())
        }
        Capability::Atom(a) => e.raw(a.as_bytes()),
    }
}
fn capabilities_with_rev1(rng: &mut Rng) -> Vec<Capability<'static>> {
    let n = rng.below(6);
    let mut v: Vec<Capability> = (0..n).map(|_| capability(rng)).collect();
    if !v.contains(&Capability::Imap4rev1) {
        let p = rng.below(v.len() + 1);
        v.insert(p, Capability::Imap4rev1);
    }
    v
}
fn enc_capability_data(e: &mut Enc, v: &[Capability]) {
    e.kw("CAPABILITY");
    for c in v {
        e.sp();
        enc_capability(e, c);
    }
}

fn uid_set(rng: &mut Rng) -> Vec<UidSetMember> {
    let n = 1 + rng.below(4);
    (0..n)
        .map(|_| {
            if rng.chance(1, 2) {
                UidSetMember::Uid(num32(rng))
            } else {
                let (a, b) = (num32(rng), num32(rng));
                UidSetMember::UidRange(a.min(b)..=a.max(b))
            }
        })
        .collect()
}
fn enc_range(e: &mut Enc, r: &std::ops::RangeInclusive<u32>, allow_single: bool) {
    let (a, b) = (*r.start(), *r.end());
    if a == b && allow_single && e.rng.chance(1, 2) {
        e.num32(a as u64);
        return;
    }
    if e.vary && e.rng.chance(1, 2) {
        e.num32(b as u64);
        e.raw(b":");
        e.num32(a as u64);
    } else {
        e.num32(a as u64);
        e.raw(b":");
        e.num32(b as u64);
    }
}
fn enc_uid_set(e: &mut Enc, s: &[UidSetMember]) {
    for (i, m) in s.iter().enumerate() {
        if i > 0 {
            e.raw(b",");
        }
        match m {
            UidSetMember::Uid(n) => e.num32(*n as u64),
            UidSetMember::UidRange(r) => enc_range(e, r, false),
        }
    }
}

fn response_code(rng: &mut Rng) -> ResponseCode<'static> {
    match rng.below(19) {
        0 => ResponseCode::Alert,
        1 => ResponseCode::BadCharset(if rng.chance(1, 2) {
            None
        } else {
            Some((0..1 + rng.below(3)).map(|_| Cow::Owned(if rng.chance(1, 2) { astring_atom(rng) } else { utf8_any(rng) })).collect())
        }),
        2 => ResponseCode::Capabilities(capabilities_with_rev1(rng)),
        3 => ResponseCode::HighestModSeq(num64(rng)),
        4 => ResponseCode::Parse,
        5 => ResponseCode::PermanentFlags((0..rng.below(5)).map(|_| Cow::Owned(flag(rng, true))).collect()),
        6 => ResponseCode::ReadOnly,
        7 => ResponseCode::ReadWrite,
        8 => ResponseCode::TryCreate,
        9 => ResponseCode::UidNext(num32(rng)),
        10 => ResponseCode::UidValidity(num32(rng)),
        11 => ResponseCode::Unseen(num32(rng)),
        12 => ResponseCode::AppendUid(num32(rng), uid_set(rng)),
        13 => ResponseCode::CopyUid(num32(rng), uid_set(rng), uid_set(rng)),
        14 => ResponseCode::UidNotSticky,
        15 => ResponseCode::MetadataLongEntries(num64(rng)),
        16 => ResponseCode::MetadataMaxSize(num64(rng)),
        17 => ResponseCode::MetadataTooMany,
        _ => ResponseCode::MetadataNoPrivate,
    }
}
fn enc_response_code(e: &mut Enc, c: &ResponseCode) {
    e.raw(b"[");
    e.in_code = true;
    match c {
        ResponseCode::Alert => e.kw("ALERT"),
        ResponseCode::BadCharset(v) => {
            e.kw("BADCHARSET");
            if let Some(l) = v {
                e.raw(b" (");
                for (i, x) in l.iter().enumerate() {
                    if i > 0 {
                        e.sp();
                    }
                    e.astring(x.as_bytes());
                }
                e.raw(b")");
            }
        }
        ResponseCode::Capabilities(v) => enc_capability_data(e, v),
        ResponseCode::HighestModSeq(n) => {
            e.kw("HIGHESTMODSEQ ");
            e.num(*n)
        }
        ResponseCode::Parse => e.kw("PARSE"),
        ResponseCode::PermanentFlags(v) => {
            e.kw("PERMANENTFLAGS ");
            e.raw(b"(");
            for (i, x) in v.iter().enumerate() {
                if i > 0 {
                    e.sp();
                }
                e.raw(x.as_bytes());
            }
            e.raw(b")");
        }
        ResponseCode::ReadOnly => e.kw("READ-ONLY"),
        ResponseCode::ReadWrite => e.kw("READ-WRITE"),
        ResponseCode::TryCreate => e.kw("TRYCREATE"),
        ResponseCode::UidNext(n) => {
            e.kw("UIDNEXT ");
            e.num32(*n as u64)
        }
        ResponseCode::UidValidity(n) => {
            e.kw("UIDVALIDITY ");
            e.num32(*n as u64)
        }
        ResponseCode::Unseen(n) => {
            e.kw("UNSEEN ");
            e.num32(*n as u64)
        }
        ResponseCode::AppendUid(n, s) => {
            e.kw("APPENDUID ");
            e.num32(*n as u64);
            e.sp();
            enc_uid_set(e, s)
        }
        ResponseCode::CopyUid(n, a, b) => {
            e.kw("COPYUID ");
            e.num32(*n as u64);
            e.sp();
            enc_uid_set(e, a);
            e.sp();
            enc_uid_set(e, b)
        }
        ResponseCode::UidNotSticky => e.kw("UIDNOTSTICKY"),
        ResponseCode::MetadataLongEntries(n) => {
            e.kw("METADATA LONGENTRIES ");
            e.num(*n)
        }
        ResponseCode::MetadataMaxSize(n) => {
            e.kw("METADATA MAXSIZE ");
            e.num(*n)
        }
        ResponseCode::MetadataTooMany => e.kw("METADATA TOOMANY"),
        ResponseCode::MetadataNoPrivate => e.kw("METADATA NOPRIVATE"),
        _ => {}
    }
    e.in_code = false;
    e.raw(b"]");
}

fn info_text(rng: &mut Rng) -> String {
    // text that cannot be mistaken for a response code: does not start with '['
    loop {
        let n = 1 + rng.below(30);
        let mut s = String::new();
        for _ in 0..n {
            let c = if rng.chance(1, 15) { (1 + rng.below(31)) as u8 } else { (32 + rng.below(96)) as u8 };
            if is_text_char(c) {
                s.push(c as char);
            }
        }
        // blanks at either end belong to the text: "[CODE]  two blanks" has the text " two blanks"
        if rng.chance(1, 6) {
            s.insert(0, ' ');
        }
        if rng.chance(1, 8) {
            s.push(' ');
        }
        if !s.is_empty() && !s.starts_with('[') {
            return s;
        }
    }
}
/// (code, information) in the library's canonical form
fn resp_text(rng: &mut Rng) -> (Option<ResponseCode<'static>>, Option<Cow<'static, str>>) {
    let code = if rng.chance(1, 2) { Some(response_code(rng)) } else { None };
    let info = match (rng.below(4), code.is_some()) {
        (0, _) => None,
        (1, true) => Some(Cow::Owned(String::new())), // "[CODE] " with nothing after the space
        _ => Some(Cow::Owned(if rng.chance(1, 8) && code.is_some() { format!("[{}", info_text(rng)) } else { info_text(rng) })),
    };
    (code, info)
}
fn enc_resp_text(e: &mut Enc, code: &Option<ResponseCode>, info: &Option<Cow<str>>) {
    if let Some(c) = code {
        enc_response_code(e, c);
        if let Some(t) = info {
            e.sp();
            e.raw(t.as_bytes());
        }
    } else if let Some(t) = info {
        e.raw(t.as_bytes());
    }
}

fn status(rng: &mut Rng) -> Status {
    match rng.below(5) {
        0 => Status::Ok,
        1 => Status::No,
        2 => Status::Bad,
        3 => Status::PreAuth,
        _ => Status::Bye,
    }
}
fn enc_status(e: &mut Enc, s: &Status) {
    e.kw(match s {
        Status::Ok => "OK",
        Status::No => "NO",
        Status::Bad => "BAD",
        Status::PreAuth => "PREAUTH",
        Status::Bye => "BYE",
    })
}

fn address(rng: &mut Rng) -> Address<'static> {
    let f = |rng: &mut Rng| if rng.chance(1, 4) { None } else { Some(Cow::Owned(bytes_any(rng))) };
    Address { name: f(rng), adl: f(rng), mailbox: f(rng), host: f(rng) }
}
fn enc_address(e: &mut Enc, a: &Address) {
    e.raw(b"(");
    e.nstring(&a.name);
    e.sp();
    e.nstring(&a.adl);
    e.sp();
    e.nstring(&a.mailbox);
    e.sp();
    e.nstring(&a.host);
    e.raw(b")");
}
fn opt_addresses(rng: &mut Rng) -> Option<Vec<Address<'static>>> {
    if rng.chance(1, 3) {
        None
    } else {
        Some((0..1 + rng.below(3)).map(|_| address(rng)).collect())
    }
}
fn enc_opt_addresses(e: &mut Enc, a: &Option<Vec<Address>>) {
    match a {
        None => e.nil(),
        Some(l) => {
            e.raw(b"(");
            for (i, x) in l.iter().enumerate() {
                // adjacent addresses with or without a space (tolerated deviation)
                if i > 0 && !(e.vary && e.rng.chance(1, 3)) {
                    e.sp();
                }
                enc_address(e, x);
            }
            e.raw(b")");
        }
    }
}
fn envelope(rng: &mut Rng) -> Envelope<'static> {
    let f = |rng: &mut Rng| if rng.chance(1, 4) { None } else { Some(Cow::Owned(bytes_any(rng))) };
    Envelope {
        date: f(rng),
        subject: f(rng),
        from: opt_addresses(rng),
        sender: opt_addresses(rng),
        reply_to: opt_addresses(rng),
        to: opt_addresses(rng),
        cc: opt_addresses(rng),
        bcc: opt_addresses(rng),
        in_reply_to: f(rng),
        message_id: f(rng),
    }
}
fn enc_envelope(e: &mut Enc, v: &Envelope) {
    e.raw(b"(");
    e.nstring(&v.date);
    e.sp();
    e.nstring(&v.subject);
    for a in [&v.from, &v.sender, &v.reply_to, &v.to, &v.cc, &v.bcc] {
        e.sp();
        enc_opt_addresses(e, a);
    }
    e.sp();
    e.nstring(&v.in_reply_to);
    e.sp();
    e.nstring(&v.message_id);
    e.raw(b")");
}

fn str_any(rng: &mut Rng) -> Cow<'static, str> {
    Cow::Owned(utf8_any(rng))
}
fn nstr_any(rng: &mut Rng) -> Option<Cow<'static, str>> {
    if rng.chance(1, 3) {
        None
    } else {
        Some(str_any(rng))
    }
}
fn body_params(rng: &mut Rng) -> BodyParams<'static> {
    if rng.chance(1, 2) {
        None
    } else {
        Some((0..1 + rng.below(3)).map(|_| (str_any(rng), str_any(rng))).collect())
    }
}
fn enc_body_params(e: &mut Enc, p: &BodyParams) {
    match p {
        None => e.nil(),
        Some(l) => {
            e.raw(b"(");
            for (i, (k, v)) in l.iter().enumerate() {
                if i > 0 {
                    e.sp();
                }
                e.string(k.as_bytes());
                e.sp();
                e.string(v.as_bytes());
            }
            e.raw(b")");
        }
    }
}
fn content_encoding(rng: &mut Rng) -> ContentEncoding<'static> {
    match rng.below(7) {
        0 => ContentEncoding::SevenBit,
        1 => ContentEncoding::EightBit,
        2 => ContentEncoding::Binary,
        3 => ContentEncoding::Base64,
        4 => ContentEncoding::QuotedPrintable,
        _ => loop {
            let s = if rng.chance(1, 3) { format!("7BIT{}", atom(rng)) } else { utf8_any(rng) };
            if !["7BIT", "8BIT", "BINARY", "BASE64", "QUOTED-PRINTABLE"].iter().any(|k| s.eq_ignore_ascii_case(k)) {
                return ContentEncoding::Other(Cow::Owned(s));
            }
        },
    }
}
fn enc_content_encoding(e: &mut Enc, c: &ContentEncoding) {
    let q = |e: &mut Enc, k: &str| {
        e.raw(b"\"");
        e.kw(k);
        e.raw(b"\"");
    };
    match c {
        ContentEncoding::SevenBit => q(e, "7BIT"),
        ContentEncoding::EightBit => q(e, "8BIT"),
        ContentEncoding::Binary => q(e, "BINARY"),
        ContentEncoding::Base64 => q(e, "BASE64"),
        ContentEncoding::QuotedPrintable => q(e, "QUOTED-PRINTABLE"),
        ContentEncoding::Other(s) => e.string(s.as_bytes()),
    }
}
fn body_extension(rng: &mut Rng, depth: usize) -> BodyExtension<'static> {
    match rng.below(if depth == 0 { 2 } else { 3 }) {
        0 => BodyExtension::Num(num32(rng)),
        1 => BodyExtension::Str(nstr_any(rng)),
        _ => BodyExtension::List((0..1 + rng.below(3)).map(|_| body_extension(rng, depth - 1)).collect()),
    }
}
fn enc_body_extension(e: &mut Enc, x: &BodyExtension) {
    match x {
        BodyExtension::Num(n) => e.num32(*n as u64),
        BodyExtension::Str(s) => e.nstr(s),
        BodyExtension::List(l) => {
            e.raw(b"(");
            for (i, y) in l.iter().enumerate() {
                if i > 0 {
                    e.sp();
                }
                enc_body_extension(e, y);
            }
            e.raw(b")");
        }
    }
}
fn disposition(rng: &mut Rng) -> Option<ContentDisposition<'static>> {
    if rng.chance(1, 2) {
        None
    } else {
        Some(ContentDisposition { ty: str_any(rng), params: body_params(rng) })
    }
}
fn enc_disposition(e: &mut Enc, d: &Option<ContentDisposition>) {
    match d {
        None => e.nil(),
        Some(d) => {
            e.raw(b"(");
            e.string(d.ty.as_bytes());
            e.sp();
            enc_body_params(e, &d.params);
            e.raw(b")");
        }
    }
}
fn language(rng: &mut Rng) -> Option<Vec<Cow<'static, str>>> {
    if rng.chance(1, 2) {
        None
    } else {
        Some((0..1 + rng.below(3)).map(|_| str_any(rng)).collect())
    }
}
fn enc_language(e: &mut Enc, l: &Option<Vec<Cow<str>>>) {
    match l {
        None => e.nil(),
        Some(v) if v.len() == 1 && e.rng.chance(1, 2) => e.string(v[0].as_bytes()),
        Some(v) => {
            e.raw(b"(");
            for (i, x) in v.iter().enumerate() {
                if i > 0 {
                    e.sp();
                }
                e.string(x.as_bytes());
            }
            e.raw(b")");
        }
    }
}
/// the positional optional tail: first SP x [SP dsp [SP lang [SP loc [SP ext]]]]
struct ExtTail<'a> {
    disposition: &'a Option<ContentDisposition<'a>>,
    language: &'a Option<Vec<Cow<'a, str>>>,
    location: &'a Option<Cow<'a, str>>,
    extension: &'a Option<BodyExtension<'a>>,
}
fn enc_ext_tail(e: &mut Enc, first_present: bool, first: &mut dyn FnMut(&mut Enc), t: &ExtTail) {
    // how many positions must be written: up to the last non-None one
    let need = if t.extension.is_some() {
        5
    } else if t.location.is_some() {
        4
    } else if t.language.is_some() {
        3
    } else if t.disposition.is_some() {
        2
    } else if first_present {
        1
    } else {
        0
    };
    let upto = if e.vary && t.extension.is_none() { need + e.rng.below(5 - need.min(4)) } else { need };
    let upto = upto.min(4).max(need);
    if upto >= 1 {
        e.sp();
        first(e);
    }
    if upto >= 2 {
        e.sp();
        enc_disposition(e, t.disposition);
    }
    if upto >= 3 {
        e.sp();
        enc_language(e, t.language);
    }
    if upto >= 4 {
        e.sp();
        e.nstr(t.location);
    }
    if need >= 5 {
        e.sp();
        enc_body_extension(e, t.extension.as_ref().unwrap());
        if let Some(mut r) = e.more_ext.take() {
            if r.chance(1, 3) {
                for _ in 0..1 + r.below(2) {
                    e.sp();
                    plain_extension(&mut e.out, &mut r, 2);
                }
            }
            e.more_ext = Some(r);
        }
    }
}
/// a further body-extension item in its plainest spelling (number, NIL, quoted atom-like string, list of those)
fn plain_extension(out: &mut Vec<u8>, r: &mut Rng, depth: usize) {
    match r.below(if depth == 0 { 3 } else { 4 }) {
        0 => out.extend_from_slice(r.below(100000).to_string().as_bytes()),
        1 => out.extend_from_slice(b"NIL"),
        2 => {
            out.push(b'"');
            for _ in 0..1 + r.below(6) {
                out.push(b'a' + r.below(26) as u8);
            }
            out.push(b'"');
        }
        _ => {
            out.push(b'(');
            for i in 0..1 + r.below(3) {
                if i > 0 {
                    out.push(b' ');
                }
                plain_extension(out, r, depth - 1);
            }
            out.push(b')');
        }
    }
}

fn single_part(rng: &mut Rng) -> BodyContentSinglePart<'static> {
    BodyContentSinglePart {
        id: nstr_any(rng),
        md5: nstr_any(rng),
        description: nstr_any(rng),
        transfer_encoding: content_encoding(rng),
        octets: num32(rng),
    }
}
fn common(rng: &mut Rng, ty: Cow<'static, str>, subtype: Cow<'static, str>) -> BodyContentCommon<'static> {
    BodyContentCommon {
        ty: ContentType { ty, subtype, params: body_params(rng) },
        disposition: disposition(rng),
        language: language(rng),
        location: nstr_any(rng),
    }
}
fn opt_ext(rng: &mut Rng) -> Option<BodyExtension<'static>> {
    if rng.chance(1, 3) {
        Some(body_extension(rng, 3))
    } else {
        None
    }
}
pub fn body_structure(rng: &mut Rng, depth: usize) -> BodyStructure<'static> {
    let k = if depth == 0 { rng.below(2) } else { rng.below(4) };
    match k {
        0 if rng.chance(1, 8) => {
            // message/* other than rfc822 is an ordinary basic part (bounces, read receipts)
            let ty = if rng.chance(1, 2) { "MESSAGE" } else { "message" };
            let st = *rng.pick(&["DELIVERY-STATUS", "disposition-notification", "PARTIAL", "global"]);
            BodyStructure::Basic { common: common(rng, Cow::Owned(ty.to_string()), Cow::Owned(st.to_string())), other: single_part(rng), extension: opt_ext(rng) }
        }
        0 => loop {
            let ty = utf8_any(rng);
            if !ty.eq_ignore_ascii_case("TEXT") && !ty.eq_ignore_ascii_case("MESSAGE") {
                return BodyStructure::Basic {
                    common: { let st = str_any(rng); common(rng, Cow::Owned(ty), st) },
                    other: single_part(rng),
                    extension: opt_ext(rng),
                };
            }
        },
        1 => BodyStructure::Text {
            common: { let st = str_any(rng); common(rng, Cow::Borrowed("TEXT"), st) },
            other: single_part(rng),
            lines: num32(rng),
            extension: opt_ext(rng),
        },
        2 => BodyStructure::Message {
            common: common(rng, Cow::Borrowed("MESSAGE"), Cow::Borrowed("RFC822")),
            other: single_part(rng),
            envelope: envelope(rng),
            body: Box::new(body_structure(rng, depth - 1)),
            lines: num32(rng),
            extension: opt_ext(rng),
        },
        _ if depth >= 3 && rng.chance(1, 5) => {
            // wide rather than deep: tens of sibling parts, many of them multiparts themselves (a digest of
            // forwarded messages); the depth stays small, only the count is large
            let n = 33 + rng.below(16);
            let bodies = (0..n)
                .map(|_| {
                    if rng.chance(3, 4) {
                        BodyStructure::Multipart {
                            common: common(rng, Cow::Borrowed("MULTIPART"), Cow::Borrowed("ALTERNATIVE")),
                            bodies: (0..1 + rng.below(2)).map(|_| body_structure(rng, 0)).collect(),
                            extension: None,
                        }
                    } else {
                        body_structure(rng, 0)
                    }
                })
                .collect();
            BodyStructure::Multipart { common: common(rng, Cow::Borrowed("MULTIPART"), Cow::Borrowed("DIGEST")), bodies, extension: opt_ext(rng) }
        }
        _ => BodyStructure::Multipart {
            common: { let st = str_any(rng); common(rng, Cow::Borrowed("MULTIPART"), st) },
            bodies: (0..1 + { let big = rng.chance(1, 6); rng.below(if big { 6 } else { 3 }) }).map(|_| body_structure(rng, depth - 1)).collect(),
            extension: opt_ext(rng),
        },
    }
}
fn enc_body_fields(e: &mut Enc, c: &BodyContentCommon, o: &BodyContentSinglePart) {
    enc_body_params(e, &c.ty.params);
    e.sp();
    e.nstr(&o.id);
    e.sp();
    e.nstr(&o.description);
    e.sp();
    enc_content_encoding(e, &o.transfer_encoding);
    e.sp();
    e.num32(o.octets as u64);
}
/// `extensible` = BODYSTRUCTURE form; the non-extensible BODY form carries no extension data
pub fn enc_body_structure(e: &mut Enc, b: &BodyStructure, extensible: bool) {
    e.raw(b"(");
    match b {
        BodyStructure::Basic { common: c, other: o, extension } => {
            e.string(c.ty.ty.as_bytes());
            e.sp();
            e.string(c.ty.subtype.as_bytes());
            e.sp();
            enc_body_fields(e, c, o);
            if extensible {
                let t = ExtTail { disposition: &c.disposition, language: &c.language, location: &c.location, extension };
                let md5 = o.md5.clone();
                enc_ext_tail(e, md5.is_some(), &mut |e: &mut Enc| e.nstr(&md5), &t);
            }
        }
        BodyStructure::Text { common: c, other: o, lines, extension } => {
            e.raw(b"\"");
            e.kw("TEXT");
            e.raw(b"\"");
            e.sp();
            e.string(c.ty.subtype.as_bytes());
            e.sp();
            enc_body_fields(e, c, o);
            e.sp();
            e.num32(*lines as u64);
            if extensible {
                let t = ExtTail { disposition: &c.disposition, language: &c.language, location: &c.location, extension };
                let md5 = o.md5.clone();
                enc_ext_tail(e, md5.is_some(), &mut |e: &mut Enc| e.nstr(&md5), &t);
            }
        }
        BodyStructure::Message { common: c, other: o, envelope: env, body, lines, extension } => {
            e.raw(b"\"");
            e.kw("MESSAGE");
            e.raw(b"\" \"");
            e.kw("RFC822");
            e.raw(b"\"");
            e.sp();
            enc_body_fields(e, c, o);
            e.sp();
            enc_envelope(e, env);
            e.sp();
            enc_body_structure(e, body, extensible);
            e.sp();
            e.num32(*lines as u64);
            if extensible {
                let t = ExtTail { disposition: &c.disposition, language: &c.language, location: &c.location, extension };
                let md5 = o.md5.clone();
                enc_ext_tail(e, md5.is_some(), &mut |e: &mut Enc| e.nstr(&md5), &t);
            }
        }
        BodyStructure::Multipart { common: c, bodies, extension } => {
            for x in bodies {
                enc_body_structure(e, x, extensible);
            }
            e.sp();
            e.string(c.ty.subtype.as_bytes());
            if extensible {
                let t = ExtTail { disposition: &c.disposition, language: &c.language, location: &c.location, extension };
                let params = c.ty.params.clone();
                enc_ext_tail(e, params.is_some(), &mut |e: &mut Enc| enc_body_params(e, &params), &t);
            }
        }
    }
    e.raw(b")");
}
/// drop everything a non-extensible BODY reply cannot carry
pub fn strip_extension(b: &mut BodyStructure) {
    match b {
        BodyStructure::Basic { common: c, other, extension } | BodyStructure::Text { common: c, other, extension, .. } => {
            c.disposition = None;
            c.language = None;
            c.location = None;
            other.md5 = None;
            *extension = None;
        }
        BodyStructure::Message { common: c, other, extension, body, .. } => {
            c.disposition = None;
            c.language = None;
            c.location = None;
            other.md5 = None;
            *extension = None;
            strip_extension(body);
        }
        BodyStructure::Multipart { common: c, bodies, extension } => {
            c.disposition = None;
            c.language = None;
            c.location = None;
            c.ty.params = None;
            *extension = None;
            for x in bodies {
                strip_extension(x);
            }
        }
    }
}

fn section_path(rng: &mut Rng) -> SectionPath {
    if rng.chance(1, 2) {
        SectionPath::Full(if rng.chance(1, 2) { MessageSection::Header } else { MessageSection::Text })
    } else {
        SectionPath::Part(
            (0..1 + rng.below(4)).map(|_| num32(rng)).collect(),
            match rng.below(4) {
                0 => None,
                1 => Some(MessageSection::Header),
                2 => Some(MessageSection::Text),
                _ => Some(MessageSection::Mime),
            },
        )
    }
}
fn enc_msgtext(e: &mut Enc, m: &MessageSection) {
    match m {
        MessageSection::Header => {
            if e.vary && e.rng.chance(1, 3) {
                e.kw("HEADER.FIELDS");
                if e.rng.chance(1, 2) {
                    e.kw(".NOT");
                }
                e.raw(b" (");
                let n = e.rng.below(3);
                for i in 0..n {
                    if i > 0 {
                        e.sp();
                    }
                    let a = astring_atom(e.rng);
                    e.astring(a.as_bytes());
                }
                e.raw(b")");
            } else {
                e.kw("HEADER")
            }
        }
        MessageSection::Text => e.kw("TEXT"),
        MessageSection::Mime => e.kw("MIME"),
    }
}
fn enc_section_path(e: &mut Enc, p: &SectionPath) {
    match p {
        SectionPath::Full(m) => enc_msgtext(e, m),
        SectionPath::Part(v, m) => {
            for (i, n) in v.iter().enumerate() {
                if i > 0 {
                    e.raw(b".");
                }
                e.num32(*n as u64);
            }
            if let Some(m) = m {
                e.raw(b".");
                enc_msgtext(e, m);
            }
        }
    }
}

fn nbytes(rng: &mut Rng) -> Option<Cow<'static, [u8]>> {
    if rng.chance(1, 5) {
        None
    } else {
        Some(Cow::Owned(bytes_any(rng)))
    }
}
pub fn attribute_value(rng: &mut Rng) -> AttributeValue<'static> {
    match rng.below(14) {
        0 | 1 => AttributeValue::BodySection {
            section: if rng.chance(1, 3) { None } else { Some(section_path(rng)) },
            index: if rng.chance(1, 2) { None } else { Some(num32(rng)) },
            data: nbytes(rng),
        },
        2 => AttributeValue::BodyStructure(body_structure(rng, 4)),
        3 => AttributeValue::Envelope(Box::new(envelope(rng))),
        4 => AttributeValue::Flags((0..rng.below(5)).map(|_| Cow::Owned(flag(rng, true))).collect()),
        5 => AttributeValue::InternalDate(str_any(rng)),
        6 => AttributeValue::ModSeq(num64(rng)),
        7 => AttributeValue::Rfc822(nbytes(rng)),
        8 => AttributeValue::Rfc822Header(nbytes(rng)),
        9 => AttributeValue::Rfc822Size(num32(rng)),
        10 => AttributeValue::Rfc822Text(nbytes(rng)),
        11 => AttributeValue::Uid(num32(rng)),
        12 => AttributeValue::GmailLabels((0..rng.below(4)).map(|_| Cow::Owned(gmail_label(rng))).collect()),
        _ => AttributeValue::GmailMsgId(num64(rng)),
    }
}
fn gmail_label(rng: &mut Rng) -> String {
    if rng.chance(1, 2) {
        flag(rng, false)
    } else {
        quoted_safe(rng)
    }
}
fn enc_gmail_labels(e: &mut Enc, v: &[Cow<str>]) {
    e.kw("X-GM-LABELS ");
    e.raw(b"(");
    for (i, x) in v.iter().enumerate() {
        if i > 0 {
            e.sp();
        }
        let b = x.as_bytes();
        let flag_like = !b.is_empty()
            && (b.iter().all(|c| is_astring_char(*c)) || (b[0] == b'\\' && b[1..].iter().all(|c| is_atom_char(*c))));
        if flag_like && (!e.vary || e.rng.chance(2, 3) || !b.iter().all(|c| is_quoted_safe(*c))) {
            e.raw(b)
        } else {
            e.quoted(b)
        }
    }
    e.raw(b")");
}
fn enc_flag_list(e: &mut Enc, v: &[Cow<str>]) {
    e.raw(b"(");
    for (i, x) in v.iter().enumerate() {
        if i > 0 {
            e.sp();
        }
        e.raw(x.as_bytes());
    }
    e.raw(b")");
}
pub fn enc_attribute_value(e: &mut Enc, a: &AttributeValue) {
    match a {
        AttributeValue::BodySection { section, index, data } => {
            e.kw("BODY");
            e.raw(b"[");
            if let Some(p) = section {
                enc_section_path(e, p);
            }
            e.raw(b"]");
            if let Some(n) = index {
                e.raw(b"<");
                e.num32(*n as u64);
                e.raw(b">");
            }
            e.sp();
            e.nstring(data);
        }
        AttributeValue::BodyStructure(b) => {
            e.kw("BODYSTRUCTURE ");
            enc_body_structure(e, b, true);
        }
        AttributeValue::Envelope(v) => {
            e.kw("ENVELOPE ");
            enc_envelope(e, v);
        }
        AttributeValue::Flags(v) => {
            e.kw("FLAGS ");
            enc_flag_list(e, v);
        }
        AttributeValue::InternalDate(d) => {
            e.kw("INTERNALDATE ");
            e.string(d.as_bytes());
        }
        AttributeValue::ModSeq(n) => {
            e.kw("MODSEQ ");
            e.raw(b"(");
            e.num(*n);
            e.raw(b")");
        }
        AttributeValue::Rfc822(x) => {
            e.kw("RFC822 ");
            e.nstring(x);
        }
        AttributeValue::Rfc822Header(x) => {
            e.kw("RFC822.HEADER ");
            if e.vary && e.rng.chance(1, 4) {
                e.sp(); // DavMail's doubled space
            }
            e.nstring(x);
        }
        AttributeValue::Rfc822Size(n) => {
            e.kw("RFC822.SIZE ");
            e.num32(*n as u64);
        }
        AttributeValue::Rfc822Text(x) => {
            e.kw("RFC822.TEXT ");
            e.nstring(x);
        }
        AttributeValue::Uid(n) => {
            e.kw("UID ");
            e.num32(*n as u64);
        }
        AttributeValue::GmailLabels(v) => enc_gmail_labels(e, v),
        AttributeValue::GmailMsgId(n) => {
            e.kw("X-GM-MSGID ");
            e.num(*n);
        }
        _ => {}
    }
}

fn name_attribute(rng: &mut Rng) -> NameAttribute<'static> {
    match rng.below(14) {
        0 => NameAttribute::NoInferiors,
        1 => NameAttribute::NoSelect,
        2 => NameAttribute::Marked,
        3 => NameAttribute::Unmarked,
        4 => NameAttribute::All,
        5 => NameAttribute::Archive,
        6 => NameAttribute::Drafts,
        7 => NameAttribute::Flagged,
        8 => NameAttribute::Junk,
        9 => NameAttribute::Sent,
        10 => NameAttribute::Trash,
        _ => loop {
            let s = if rng.chance(1, 3) { format!("\\All{}", atom(rng)) } else if rng.chance(1, 8) { "\\".to_string() } else { format!("\\{}", atom(rng)) };
            let known = ["\\Noinferiors", "\\Noselect", "\\Marked", "\\Unmarked", "\\All", "\\Archive", "\\Drafts", "\\Flagged", "\\Junk", "\\Sent", "\\Trash"];
            if !known.iter().any(|k| s.eq_ignore_ascii_case(k)) {
                return NameAttribute::Extension(Cow::Owned(s));
            }
        },
    }
}
fn enc_name_attribute(e: &mut Enc, a: &NameAttribute) {
    match a {
        NameAttribute::NoInferiors => e.kw("\\Noinferiors"),
        NameAttribute::NoSelect => e.kw("\\Noselect"),
        NameAttribute::Marked => e.kw("\\Marked"),
        NameAttribute::Unmarked => e.kw("\\Unmarked"),
        NameAttribute::All => e.kw("\\All"),
        NameAttribute::Archive => e.kw("\\Archive"),
        NameAttribute::Drafts => e.kw("\\Drafts"),
        NameAttribute::Flagged => e.kw("\\Flagged"),
        NameAttribute::Junk => e.kw("\\Junk"),
        NameAttribute::Sent => e.kw("\\Sent"),
        NameAttribute::Trash => e.kw("\\Trash"),
        NameAttribute::Extension(s) => e.raw(s.as_bytes()),
        _ => {}
    }
}

fn status_attribute(rng: &mut Rng) -> StatusAttribute {
    match rng.below(6) {
        0 => StatusAttribute::HighestModSeq(num64(rng)),
        1 => StatusAttribute::Messages(num32(rng)),
        2 => StatusAttribute::Recent(num32(rng)),
        3 => StatusAttribute::UidNext(num32(rng)),
        4 => StatusAttribute::UidValidity(num32(rng)),
        _ => StatusAttribute::Unseen(num32(rng)),
    }
}
fn enc_status_attribute(e: &mut Enc, a: &StatusAttribute) {
    match a {
        StatusAttribute::HighestModSeq(n) => {
            e.kw("HIGHESTMODSEQ ");
            e.num(*n)
        }
        StatusAttribute::Messages(n) => {
            e.kw("MESSAGES ");
            e.num32(*n as u64)
        }
        StatusAttribute::Recent(n) => {
            e.kw("RECENT ");
            e.num32(*n as u64)
        }
        StatusAttribute::UidNext(n) => {
            e.kw("UIDNEXT ");
            e.num32(*n as u64)
        }
        StatusAttribute::UidValidity(n) => {
            e.kw("UIDVALIDITY ");
            e.num32(*n as u64)
        }
        StatusAttribute::Unseen(n) => {
            e.kw("UNSEEN ");
            e.num32(*n as u64)
        }
        _ => {}
    }
}

fn entry_component(rng: &mut Rng) -> String {
    let n = 1 + rng.below(8);
    let mut s = String::new();
    while s.len() < n {
        let c = (0x1a + rng.below(0x80 - 0x1a)) as u8;
        if c > 0x19 && c < 0x80 && c != b'*' && c != b'%' && c != b'/' && c != b' ' && c != b'\r' {
            s.push(c as char);
        }
    }
    s
}
pub fn entry_name(rng: &mut Rng) -> String {
    let mut s = String::from(if rng.chance(1, 2) { "/private" } else { "/shared" });
    match rng.below(3) {
        0 if s == "/shared" => s.push_str("/admin"),
        0 | 1 => s.push_str("/comment"),
        _ => {
            s.push_str("/vendor/");
            s.push_str(&entry_component(rng));
        }
    }
    for _ in 0..rng.below(3) {
        s.push('/');
        s.push_str(&entry_component(rng));
    }
    s
}

fn rights(rng: &mut Rng) -> (String, Vec<AclRight>) {
    let n = 1 + rng.below(6);
    let mut s = String::new();
    for _ in 0..n {
        let c = match rng.below(8) {
            0..=5 => *rng.pick(&['l', 'r', 's', 'w', 'i', 'p', 'k', 'x', 't', 'e', 'a', 'n', 'c', 'd']),
            6 => (33 + rng.below(94)) as u8 as char,
            _ => char::from_u32(0xA0 + rng.below(0x2000) as u32).unwrap_or('z'),
        };
        s.push(c);
    }
    let v = s.chars().map(AclRight::from).collect();
    (s, v)
}

pub fn gen_response(rng: &mut Rng) -> Response<'static> {
    match rng.below(34) {
        0 => Response::Capabilities(capabilities_with_rev1(rng)),
        1 => Response::Capabilities((0..rng.below(4)).map(|_| Capability::Atom(Cow::Owned(atom(rng)))).collect()),
        2 | 3 => {
            let (code, information) = resp_text(rng);
            Response::Continue { code, information }
        }
        4..=6 => {
            let (code, information) = resp_text(rng);
            let mut tag = String::new();
            while tag.is_empty() {
                let n = 1 + rng.below(8);
                for _ in 0..n {
                    let c = (33 + rng.below(94)) as u8;
                    if is_tag_char(c) {
                        tag.push(c as char);
                    }
                }
            }
            if rng.chance(1, 2) {
                tag = format!("A{:04}", rng.below(10000));
            }
            Response::Done { tag: RequestId(tag), status: status(rng), code, information }
        }
        7 | 8 => {
            let (code, information) = resp_text(rng);
            Response::Data { status: status(rng), code, information }
        }
        9 => Response::Expunge(num32(rng)),
        10 => Response::Vanished {
            earlier: rng.chance(1, 2),
            uids: (0..1 + rng.below(4))
                .map(|_| {
                    let (a, b) = (num32(rng), if rng.chance(1, 3) { 0 } else { num32(rng) });
                    if b == 0 {
                        a..=a
                    } else {
                        a.min(b)..=a.max(b)
                    }
                })
                .collect(),
        },
        11..=16 => Response::Fetch(num32(rng), (0..1 + rng.below(4)).map(|_| attribute_value(rng)).collect()),
        17 => Response::MailboxData(MailboxDatum::Exists(num32(rng))),
        18 => Response::MailboxData(MailboxDatum::Flags((0..rng.below(5)).map(|_| Cow::Owned(flag(rng, true))).collect())),
        19 | 20 => Response::MailboxData(MailboxDatum::List {
            name_attributes: (0..rng.below(4)).map(|_| name_attribute(rng)).collect(),
            delimiter: if rng.chance(1, 3) { None } else { Some(Cow::Owned(if rng.chance(1, 2) { "/".into() } else { quoted_safe(rng) })) },
            name: Cow::Owned(mailbox_name(rng)),
        }),
        21 => Response::MailboxData(MailboxDatum::Search((0..rng.below(6)).map(|_| num32(rng)).collect())),
        22 => Response::MailboxData(MailboxDatum::Sort((0..rng.below(6)).map(|_| num32(rng)).collect())),
        23 => Response::MailboxData(MailboxDatum::Status {
            mailbox: Cow::Owned(mailbox_name(rng)),
            status: (0..rng.below(5)).map(|_| status_attribute(rng)).collect(),
        }),
        24 => Response::MailboxData(MailboxDatum::Recent(num32(rng))),
        25 => Response::MailboxData(MailboxDatum::MetadataSolicited {
            mailbox: Cow::Owned(mailbox_name(rng)),
            values: (0..1 + rng.below(3))
                .map(|_| Metadata { entry: entry_name(rng), value: if rng.chance(1, 3) { None } else { Some(utf8_any(rng)) } })
                .collect(),
        }),
        26 => Response::MailboxData(MailboxDatum::MetadataUnsolicited {
            mailbox: Cow::Owned(mailbox_name(rng)),
            values: (0..rng.below(4)).map(|_| Cow::Owned(entry_name(rng))).collect(),
        }),
        27 => {
            if rng.chance(1, 2) {
                Response::MailboxData(MailboxDatum::GmailLabels((0..rng.below(4)).map(|_| Cow::Owned(gmail_label(rng))).collect()))
            } else {
                Response::MailboxData(MailboxDatum::GmailMsgId(num64(rng)))
            }
        }
        28 => Response::Quota(Quota {
            root_name: Cow::Owned(if rng.chance(1, 3) { String::new() } else { utf8_any(rng) }),
            resources: (0..rng.below(4))
                .map(|_| QuotaResource {
                    name: match rng.below(4) {
                        0 => QuotaResourceName::Storage,
                        1 => QuotaResourceName::Message,
                        _ => loop {
                            let a = if rng.chance(1, 3) { format!("STORAGE{}", atom(rng)) } else { utf8_any(rng) };
                            if !a.eq_ignore_ascii_case("STORAGE") && !a.eq_ignore_ascii_case("MESSAGE") {
                                break QuotaResourceName::Atom(Cow::Owned(a));
                            }
                        },
                    },
                    usage: num64(rng),
                    limit: num64(rng),
                })
                .collect(),
        }),
        29 => Response::QuotaRoot(QuotaRoot {
            mailbox_name: Cow::Owned(utf8_any(rng)),
            quota_root_names: (0..rng.below(4)).map(|_| Cow::Owned(utf8_any(rng))).collect(),
        }),
        30 => Response::Id(if rng.chance(1, 4) {
            None
        } else {
            let mut m: HashMap<Cow<str>, Cow<str>> = HashMap::new();
            // (an empty map is what a server that sends only NIL-valued fields parses to)
            for _ in 0..rng.below(5) {
                m.insert(Cow::Owned(utf8_any(rng)), Cow::Owned(utf8_any(rng)));
            }
            Some(m)
        }),
        31 => Response::Acl(Acl {
            mailbox: Cow::Owned(mailbox_name(rng)),
            acls: (0..rng.below(4))
                .map(|_| AclEntry { identifier: Cow::Owned(utf8_any(rng)), rights: rights(rng).1 })
                .collect(),
        }),
        32 => Response::ListRights(ListRights {
            mailbox: Cow::Owned(mailbox_name(rng)),
            identifier: Cow::Owned(utf8_any(rng)),
            required: rights(rng).1,
            optional: if rng.chance(1, 3) { vec![] } else { rights(rng).1 },
        }),
        _ => Response::MyRights(MyRights { mailbox: Cow::Owned(mailbox_name(rng)), rights: rights(rng).1 }),
    }
}

fn rights_string(v: &[AclRight]) -> String {
    v.iter().map(|r| char::from(*r)).collect()
}
fn enc_rights(e: &mut Enc, v: &[AclRight]) {
    let s = rights_string(v);
    e.astring(s.as_bytes());
}
fn sp1(e: &mut Enc) {
    // space1: one or more SP / TAB
    e.sp();
    if e.vary && e.rng.chance(1, 6) {
        let n = 1 + e.rng.below(2);
        for _ in 0..n {
            { let tab = e.rng.chance(1, 3); e.raw(if tab { b"\t" } else { b" " }); }
        }
    }
}

pub fn enc_response(e: &mut Enc, r: &Response) {
    match r {
        Response::Continue { code, information } => {
            e.raw(b"+");
            // "+" with or without the space (tolerated) -- without it only when the text does not start with SP
            let starts_sp = code.is_none() && information.as_ref().map(|t| t.starts_with(' ')).unwrap_or(false);
            if !(e.vary && e.rng.chance(1, 4)) || starts_sp {
                e.sp();
            }
            enc_resp_text(e, code, information);
            e.raw(b"\r\n");
            return;
        }
        Response::Done { tag, status: st, code, information } => {
            e.raw(tag.0.as_bytes());
            e.sp();
            enc_status(e, st);
            if code.is_some() || information.is_some() {
                e.sp();
                enc_resp_text(e, code, information);
            } else if e.vary && e.rng.chance(1, 3) {
                e.sp();
            }
            e.raw(b"\r\n");
            return;
        }
        _ => {}
    }
    e.raw(b"* ");
    match r {
        Response::Capabilities(v) => {
            if v.iter().all(|c| matches!(c, Capability::Atom(_))) {
                e.kw("ENABLED");
                for c in v {
                    e.sp();
                    enc_capability(e, c);
                }
            } else {
                enc_capability_data(e, v)
            }
        }
        Response::Data { status: st, code, information } => {
            enc_status(e, st);
            if code.is_some() || information.is_some() {
                e.sp();
                enc_resp_text(e, code, information);
            }
        }
        Response::Expunge(n) => {
            e.num32(*n as u64);
            e.kw(" EXPUNGE");
        }
        Response::Vanished { earlier, uids } => {
            e.kw("VANISHED");
            if *earlier {
                sp1(e);
                e.kw("(EARLIER)");
            }
            sp1(e);
            for (i, r) in uids.iter().enumerate() {
                if i > 0 {
                    e.raw(b",");
                }
                enc_range(e, r, true);
            }
        }
        Response::Fetch(n, attrs) => {
            e.num32(*n as u64);
            e.kw(" FETCH ");
            e.raw(b"(");
            for (i, a) in attrs.iter().enumerate() {
                if i > 0 {
                    e.sp();
                }
                enc_attribute_value(e, a);
            }
            e.raw(b")");
        }
        Response::MailboxData(d) => match d {
            MailboxDatum::Exists(n) => {
                e.num32(*n as u64);
                e.kw(" EXISTS");
            }
            MailboxDatum::Recent(n) => {
                e.num32(*n as u64);
                e.kw(" RECENT");
            }
            MailboxDatum::Flags(v) => {
                e.kw("FLAGS ");
                enc_flag_list(e, v);
            }
            MailboxDatum::List { name_attributes, delimiter, name } => {
                if e.vary && e.rng.chance(1, 3) {
                    e.kw("LSUB ");
                } else {
                    e.kw("LIST ");
                }
                e.raw(b"(");
                for (i, a) in name_attributes.iter().enumerate() {
                    if i > 0 {
                        e.sp();
                    }
                    enc_name_attribute(e, a);
                }
                e.raw(b") ");
                match delimiter {
                    None => e.nil(),
                    Some(d) => e.quoted(d.as_bytes()),
                }
                e.sp();
                e.mailbox(name);
            }
            MailboxDatum::Search(v) | MailboxDatum::Sort(v) => {
                e.kw(if matches!(d, MailboxDatum::Search(_)) { "SEARCH" } else { "SORT" });
                for n in v {
                    e.sp();
                    e.num32(*n as u64);
                }
                if e.vary && e.rng.chance(1, 4) {
                    e.sp(); // trailing space (tolerated)
                }
            }
            MailboxDatum::Status { mailbox, status } => {
                e.kw("STATUS ");
                e.mailbox(mailbox);
                e.raw(b" (");
                for (i, a) in status.iter().enumerate() {
                    if i > 0 {
                        e.sp();
                    }
                    enc_status_attribute(e, a);
                }
                e.raw(b")");
            }
            MailboxDatum::MetadataSolicited { mailbox, values } => {
                e.kw("METADATA ");
                e.mailbox(mailbox);
                e.raw(b" (");
                for (i, m) in values.iter().enumerate() {
                    if i > 0 {
                        e.sp();
                    }
                    e.astring(m.entry.as_bytes());
                    e.sp();
                    match &m.value {
                        None => e.nil(),
                        Some(v) => e.string(v.as_bytes()),
                    }
                }
                e.raw(b")");
            }
            MailboxDatum::MetadataUnsolicited { mailbox, values } => {
                e.kw("METADATA ");
                e.mailbox(mailbox);
                e.sp();
                for (i, m) in values.iter().enumerate() {
                    if i > 0 {
                        e.sp();
                    }
                    e.astring(m.as_bytes());
                }
            }
            MailboxDatum::GmailLabels(v) => enc_gmail_labels(e, v),
            MailboxDatum::GmailMsgId(n) => {
                e.kw("X-GM-MSGID ");
                e.num(*n);
            }
            _ => {}
        },
        Response::Quota(q) => {
            e.kw("QUOTA");
            sp1(e);
            e.astring(q.root_name.as_bytes());
            sp1(e);
            e.raw(b"(");
            for (i, r) in q.resources.iter().enumerate() {
                if i > 0 {
                    sp1(e);
                }
                match &r.name {
                    QuotaResourceName::Storage => e.kw("STORAGE"),
                    QuotaResourceName::Message => e.kw("MESSAGE"),
                    QuotaResourceName::Atom(a) => e.astring(a.as_bytes()),
                }
                sp1(e);
                e.num(r.usage);
                sp1(e);
                e.num(r.limit);
            }
            e.raw(b")");
        }
        Response::QuotaRoot(q) => {
            e.kw("QUOTAROOT");
            sp1(e);
            e.astring(q.mailbox_name.as_bytes());
            for n in &q.quota_root_names {
                sp1(e);
                e.astring(n.as_bytes());
            }
        }
        Response::Id(m) => {
            e.kw("ID");
            sp1(e);
            match m {
                None => e.nil(),
                Some(m) => {
                    e.raw(b"(");
                    let mut kv: Vec<(&Cow<str>, &Cow<str>)> = m.iter().collect();
                    kv.sort();
                    if e.vary && e.rng.chance(1, 2) {
                        kv.reverse();
                    }
                    // fields whose value is NIL are not part of the map: an empty map needs one, others may have some
                    let nil_first = kv.is_empty() || (e.vary && e.rng.chance(1, 5));
                    if nil_first {
                        e.string(b"zz-field-without-value");
                        sp1(e);
                        e.nil();
                    }
                    for (i, (k, v)) in kv.iter().enumerate() {
                        if i > 0 || nil_first {
                            sp1(e);
                        }
                        e.string(k.as_bytes());
                        sp1(e);
                        e.string(v.as_bytes());
                    }
                    if e.vary && e.rng.chance(1, 4) {
                        e.sp(); // space before the closing parenthesis (tolerated)
                    }
                    e.raw(b")");
                }
            }
        }
        Response::Acl(a) => {
            e.kw("ACL");
            sp1(e);
            e.mailbox(&a.mailbox);
            for x in &a.acls {
                sp1(e);
                e.astring(x.identifier.as_bytes());
                sp1(e);
                enc_rights(e, &x.rights);
            }
        }
        Response::ListRights(l) => {
            e.kw("LISTRIGHTS");
            sp1(e);
            e.mailbox(&l.mailbox);
            sp1(e);
            e.astring(l.identifier.as_bytes());
            sp1(e);
            enc_rights(e, &l.required);
            // optional rights: any grouping
            let mut i = 0;
            while i < l.optional.len() {
                let k = 1 + e.rng.below(l.optional.len() - i);
                sp1(e);
                enc_rights(e, &l.optional[i..i + k]);
                i += k;
            }
        }
        Response::MyRights(m) => {
            e.kw("MYRIGHTS");
            sp1(e);
            e.mailbox(&m.mailbox);
            sp1(e);
            enc_rights(e, &m.rights);
        }
        _ => {}
    }
    // any number of spaces before CRLF of an untagged response (tolerated; the STATUS case)
    // (not after a status response: there the text would absorb the spaces and the value would differ)
    if e.vary && !matches!(r, Response::Data { .. }) && e.rng.chance(1, 8) {
        for _ in 0..1 + e.rng.below(2) {
            e.sp();
        }
    }
    e.raw(b"\r\n");
}

pub fn kind_of(r: &Response) -> &'static str {
    match r {
        Response::Capabilities(_) => "Capabilities",
        Response::Continue { .. } => "Continue",
        Response::Done { .. } => "Done",
        Response::Data { .. } => "Data",
        Response::Expunge(_) => "Expunge",
        Response::Vanished { .. } => "Vanished",
        Response::Fetch(..) => "Fetch",
        Response::MailboxData(d) => match d {
            MailboxDatum::Exists(_) => "Exists",
            MailboxDatum::Flags(_) => "Flags",
            MailboxDatum::List { .. } => "List",
            MailboxDatum::Search(_) => "Search",
            MailboxDatum::Sort(_) => "Sort",
            MailboxDatum::Status { .. } => "Status",
            MailboxDatum::Recent(_) => "Recent",
            MailboxDatum::MetadataSolicited { .. } => "MetadataSolicited",
            MailboxDatum::MetadataUnsolicited { .. } => "MetadataUnsolicited",
            MailboxDatum::GmailLabels(_) => "GmailLabels",
            MailboxDatum::GmailMsgId(_) => "GmailMsgId",
            _ => "MailboxData?",
        },
        Response::Quota(_) => "Quota",
        Response::QuotaRoot(_) => "QuotaRoot",
        Response::Id(_) => "Id",
        Response::Acl(_) => "Acl",
        Response::ListRights(_) => "ListRights",
        Response::MyRights(_) => "MyRights",
        _ => "?",
    }
}
