//! The response parser on generated inputs.  Streams (chosen by name):
//!   valid    generated (value, encoding) pairs of every kind; third column = expected result
//!   second   a second spelling of the same values (for pairwise comparison, C12)
//!   prefix   every proper prefix of generated encodings (exhaustive in the cut position)
//!   follow   encoding ++ continuation (another response / random bytes)
//!   mutate   token-dictionary and byte-level mutations, splices, substitutions
//!   garbage  random printable lines terminated by CRLF
//!   corpus   hex lines read from stdin
//! Output: `<hex input>\t<result>[\t<expected>]` with result = `OK <consumed> <value>` | INC | ERR | FAIL | PANIC.
use crate::dump;
use crate::genresp::{self, Enc};
use crate::util::{hex, unhex, Rng};
use imap_proto::types::Response;

pub fn run_parser(input: &[u8]) -> String {
    let _w = crate::util::watch(input);
    let r = std::panic::catch_unwind(|| match Response::from_bytes(input) {
        Ok((rest, resp)) => format!("OK {} {}", input.len() - rest.len(), dump::to_string(&dump::response(&resp))),
        Err(nom::Err::Incomplete(_)) => "INC".to_string(),
        Err(nom::Err::Error(_)) => "ERR".to_string(),
        Err(nom::Err::Failure(_)) => "FAIL".to_string(),
    });
    r.unwrap_or_else(|_| "PANIC".to_string())
}

pub fn gen_pair(rng: &mut Rng, vary: bool) -> (Response<'static>, Vec<u8>) {
    let v = genresp::gen_response(rng);
    let mut e = Enc::new(rng, vary);
    genresp::enc_response(&mut e, &v);
    (v, e.out)
}

const TOKENS: &[&str] = &[
    "NIL", "nil", "(", ")", "((", "))", "[", "]", "{", "}", "{1}\r\n", "{0}\r\n", "\"", "\\", " ", "  ", "\r\n", "\r", "\n", "*", "+", "OK", "NO", "BAD", "BYE",
    "FETCH", "BODY", "BODY[", "BODYSTRUCTURE", "ENVELOPE", "FLAGS", "UID", "INTERNALDATE", "RFC822", "RFC822.SIZE", "MODSEQ", "X-GM-LABELS", "LIST", "LSUB",
    "STATUS", "SEARCH", "SORT", "EXISTS", "RECENT", "EXPUNGE", "CAPABILITY", "IMAP4rev1", "ENABLED", "METADATA", "/private", "/shared", "/vendor",
    "/comment", "/admin", "/private/vendor", "/shared/vendor/", "QUOTA", "QUOTAROOT", "STORAGE", "ID", "ACL", "MYRIGHTS", "LISTRIGHTS", "VANISHED",
    "(EARLIER)", "UIDNEXT", "UIDVALIDITY", "PERMANENTFLAGS", "APPENDUID", "COPYUID", "HIGHESTMODSEQ", "BADCHARSET", "ALERT", "4294967295",
    "4294967296", "18446744073709551615", "18446744073709551616", "0", "00000", "99999999999999999999999999", "\"TEXT\"", "\"MESSAGE\" \"RFC822\"",
    "\\Seen", "\\*", "1:5", "8:3", ",", ":", ".", "<", ">", "\t", "\0", "\u{ff}", "INBOX", "inbox", "HEADER", "HEADER.FIELDS", "MIME", "TEXT",
];

pub fn mutate(rng: &mut Rng, base: &[u8], other: &[u8]) -> Vec<u8> {
    let mut b = base.to_vec();
    let n = 1 + rng.below(3);
    for _ in 0..n {
        if b.is_empty() {
            break;
        }
        let pos = rng.below(b.len() + 1);
        match rng.below(9) {
            0 => {
                // insert a token
                let t = rng.pick(TOKENS).as_bytes().to_vec();
                b.splice(pos..pos, t);
            }
            1 => {
                // replace a token-sized span by a token
                let end = (pos + 1 + rng.below(6)).min(b.len());
                let t = rng.pick(TOKENS).as_bytes().to_vec();
                b.splice(pos.min(end)..end, t);
            }
            2 => {
                // delete a span
                let end = (pos + 1 + rng.below(4)).min(b.len());
                b.drain(pos.min(end)..end);
            }
            3 => {
                // flip / replace a byte
                if pos < b.len() {
                    b[pos] = match rng.below(4) {
                        0 => 0,
                        1 => 0xff,
                        2 => b[pos] ^ 0x20,
                        _ => rng.below(256) as u8,
                    };
                }
            }
            4 => {
                // splice with another response
                let cut = rng.below(other.len() + 1);
                b.truncate(pos);
                b.extend_from_slice(&other[cut..]);
            }
            5 => {
                // duplicate a span
                let end = (pos + 1 + rng.below(10)).min(b.len());
                let span = b[pos.min(end)..end].to_vec();
                b.splice(pos..pos, span);
            }
            6 => {
                // swap case of a run
                let end = (pos + 8).min(b.len());
                for c in &mut b[pos.min(end)..end] {
                    if c.is_ascii_alphabetic() {
                        *c ^= 0x20;
                    }
                }
            }
            7 => {
                // change a digit run into a boundary numeral
                if let Some(p) = b.iter().position(|c| c.is_ascii_digit()) {
                    let mut q = p;
                    while q < b.len() && b[q].is_ascii_digit() {
                        q += 1;
                    }
                    let t = rng.pick(&["0", "4294967295", "4294967296", "2147483648", "18446744073709551615", "18446744073709551616", "000000000000000000000000000001", "9999999999999999999999999999999999999999"]);
                    b.splice(p..q, t.as_bytes().to_vec());
                }
            }
            _ => {
                // truncate
                b.truncate(pos);
            }
        }
    }
    b
}

fn garbage_line(rng: &mut Rng) -> Vec<u8> {
    let mut b = Vec::new();
    match rng.below(4) {
        0 => b.extend_from_slice(b"* "),
        1 => b.extend_from_slice(b"+ "),
        2 => b.extend_from_slice(b"A1 "),
        _ => {}
    }
    let n = rng.below(60);
    for _ in 0..n {
        if rng.chance(1, 5) {
            b.extend_from_slice(rng.pick(TOKENS).as_bytes());
        } else {
            b.push((32 + rng.below(95)) as u8);
        }
    }
    // make sure the line is lexically one line: strip CR/LF inside, then terminate
    b.retain(|c| *c != b'\r' && *c != b'\n');
    b.extend_from_slice(b"\r\n");
    b
}

fn emit(input: &[u8], extra: Option<&str>) {
    match extra {
        Some(x) => println!("{}\t{}\t{}", hex(input), run_parser(input), x),
        None => println!("{}\t{}", hex(input), run_parser(input)),
    }
}

pub fn main(args: &[String]) {
    let stream = args.first().map(|s| s.as_str()).unwrap_or("valid").to_string();
    let seed: u64 = args.get(1).map(|s| s.parse().unwrap()).unwrap_or(1);
    let n: usize = args.get(2).map(|s| s.parse().unwrap()).unwrap_or(1000);
    std::panic::set_hook(Box::new(|_| {}));
    let mut rng = Rng::new(seed);
    match stream.as_str() {
        "valid" => {
            for _ in 0..n {
                let (v, enc) = gen_pair(&mut rng, true);
                let exp = format!("OK {} {}", enc.len(), dump::to_string(&dump::response(&v)));
                emit(&enc, Some(&format!("{} {}", genresp::kind_of(&v), exp)));
            }
        }
        "second" => {
            // same value stream as `valid` needs the same generator state: generate the value, then a second encoding
            for _ in 0..n {
                let v = genresp::gen_response(&mut rng);
                let mut e1 = Enc::new(&mut rng, true);
                genresp::enc_response(&mut e1, &v);
                let a = e1.out;
                let mut e2 = Enc::new(&mut rng, true);
                genresp::enc_response(&mut e2, &v);
                let b = e2.out;
                let ra = run_parser(&a);
                let rb = run_parser(&b);
                // compare values only (consumed lengths differ by construction)
                let va = ra.splitn(3, ' ').nth(2).unwrap_or(&ra).to_string();
                let vb = rb.splitn(3, ' ').nth(2).unwrap_or(&rb).to_string();
                println!("{}\t{}\t{} {}", hex(&a), ra, hex(&b), if va == vb && ra.starts_with("OK") && rb.starts_with("OK") { "SAME" } else { "DIFFERENT" });
                println!("{}\t{}", hex(&b), rb);
            }
        }
        "prefix" => {
            for _ in 0..n {
                let (_, enc) = gen_pair(&mut rng, true);
                if enc.len() > 400 {
                    continue;
                }
                for k in 0..enc.len() {
                    emit(&enc[..k], Some("P"));
                }
            }
        }
        "longline" => {
            // response lines far beyond 8 KiB (no literal): sampled proper prefixes must be incomplete, the whole line accepted
            for k in 0..n {
                let target = 8300 + rng.below(6000);
                let mut line: Vec<u8> = match k % 5 {
                    0 => {
                        let mut s = b"* SEARCH".to_vec();
                        while s.len() < target {
                            s.extend_from_slice(format!(" {}", 1 + rng.below(4000000000)).as_bytes());
                        }
                        s
                    }
                    1 => {
                        let mut s = b"* SORT".to_vec();
                        while s.len() < target {
                            s.extend_from_slice(format!(" {}", 1 + rng.below(99999)).as_bytes());
                        }
                        s
                    }
                    2 => {
                        let mut s = b"* CAPABILITY IMAP4rev1".to_vec();
                        while s.len() < target {
                            s.extend_from_slice(format!(" X-EXT{}", rng.below(100000)).as_bytes());
                        }
                        s
                    }
                    3 => {
                        let mut s = b"* 17 FETCH (FLAGS (\\Seen".to_vec();
                        while s.len() < target {
                            s.extend_from_slice(format!(" kw{}", rng.below(100000)).as_bytes());
                        }
                        s.extend_from_slice(b"))");
                        s
                    }
                    _ => {
                        let mut s = b"* OK [ALERT] ".to_vec();
                        while s.len() < target {
                            s.extend_from_slice(b"the quick brown fox ");
                        }
                        s
                    }
                };
                line.extend_from_slice(b"\r\n");
                let mut cuts: Vec<usize> = vec![1, 2, 100, 8191, 8192, 8193, 8194, 8200, line.len() - 2, line.len() - 1];
                let mut c = 300 + rng.below(200);
                while c < line.len() {
                    cuts.push(c);
                    c += 400 + rng.below(500);
                }
                for c in cuts {
                    if c < line.len() {
                        emit(&line[..c], Some("P"));
                    }
                }
                emit(&line, Some("W"));
            }
        }
        "follow" => {
            for _ in 0..n {
                let (_, a) = gen_pair(&mut rng, true);
                let mut x = match rng.below(3) {
                    0 => gen_pair(&mut rng, true).1,
                    1 => garbage_line(&mut rng),
                    _ => (0..rng.below(20)).map(|_| rng.below(256) as u8).collect(),
                };
                let mut b = a.clone();
                b.append(&mut x);
                emit(&b, Some(&format!("F {}", a.len())));
            }
        }
        "mutate" => {
            for _ in 0..n {
                let (_, a) = gen_pair(&mut rng, true);
                let (_, o) = gen_pair(&mut rng, true);
                let m = mutate(&mut rng, &a, &o);
                emit(&m, None);
                if rng.chance(1, 2) {
                    let mut m2 = m.clone();
                    m2.extend_from_slice(&o);
                    emit(&m2, None);
                }
            }
        }
        "literal" => {
            // C08: the content of every literal replaced by adversarial bytes; everything else must stay the same.
            // line: `<hex input>\t<result>\t<verdict>`
            let contents: Vec<Vec<u8>> = {
                let mut v: Vec<Vec<u8>> = vec![
                    b"".to_vec(), b")\r\nA0001 OK done\r\n".to_vec(), b"{5}\r\n".to_vec(), b"{99999}\r\n".to_vec(), b"\"".to_vec(), b"\\".to_vec(),
                    b"((((".to_vec(), b"))))".to_vec(), b"\r\n".to_vec(), b"\r".to_vec(), b"\n".to_vec(), b"* 1 EXISTS\r\n".to_vec(), b"NIL".to_vec(),
                    b"\" \"x\" (".to_vec(), b"]".to_vec(), b"[".to_vec(), b"+ go\r\n".to_vec(), b" ".to_vec(), b"{0}\r\n{0}\r\n".to_vec(),
                    b"A0001 BAD {3}\r\nabc\r\n".to_vec(),
                ];
                v.push((1u8..=127).collect());
                v.push(std::iter::repeat(b")\r\n* BYE\r\n".iter().copied()).take(6000).flatten().collect());
                v
            };
            for _ in 0..n {
                let v = genresp::gen_response(&mut rng);
                let mut e = Enc::new(&mut rng, true);
                e.force_literal = true;
                genresp::enc_response(&mut e, &v);
                let spans = e.literal_spans.clone();
                let enc = e.out;
                let (_, follow) = gen_pair(&mut rng, true);
                // up to six literal positions of the response: all of them, or a random sample (not always the first ones)
                let mut picked: Vec<usize> = (0..spans.len()).collect();
                while picked.len() > 6 {
                    let j = rng.below(picked.len());
                    picked.remove(j);
                }
                for (k, (off, len)) in spans.iter().enumerate().filter(|(k, _)| picked.contains(k)) {
                    // header = "{" digits "}" CRLF right before the content
                    let hdr_end = *off;
                    let mut hdr_start = hdr_end - 3; // before "}\r\n"
                    while hdr_start > 0 && enc[hdr_start - 1].is_ascii_digit() {
                        hdr_start -= 1;
                    }
                    if hdr_start == 0 || enc[hdr_start - 1] != b'{' {
                        continue;
                    }
                    let build = |content: &[u8]| -> Vec<u8> {
                        let mut b = enc[..hdr_start].to_vec();
                        b.extend_from_slice(content.len().to_string().as_bytes());
                        b.extend_from_slice(b"}\r\n");
                        b.extend_from_slice(content);
                        b.extend_from_slice(&enc[off + len..]);
                        b
                    };
                    let marker = format!("\u{1}<MARK-{}-{}>\u{2}", k, rng.below(1000000)).into_bytes();
                    let a = build(&marker);
                    let ra = run_parser(&a);
                    let mh = hex(&marker);
                    let want_prefix = format!("OK {} ", a.len());
                    if !ra.starts_with(&want_prefix) || ra.matches(&mh).count() > 1 {
                        // this position constrains its content (entry names, INBOX folding, ...) or shows it twice: not a free literal
                        continue;
                    }
                    // a position the value does not show at all (header field names of a body section) must still be
                    // skipped over by its length, the value staying as it is; a position whose content is interpreted
                    // (an ACL rights string) is not a free literal.  Told apart by a second marker.
                    if ra.matches(&mh).count() == 0 {
                        let other = format!("\u{1}<KRAM-{}-{}>\u{2}", k, rng.below(1000000)).into_bytes();
                        let ao = build(&other);
                        let ro = run_parser(&ao);
                        let strip = |s: &str| s.splitn(3, ' ').nth(2).unwrap_or("").to_string();
                        if !ro.starts_with("OK ") || strip(&ro) != strip(&ra) {
                            continue;
                        }
                    }
                    let base = &ra[want_prefix.len()..];
                    // is this a byte-string field (any CHAR8 content) or a text field (the library's type is str: only
                    // UTF-8 content can be its value)?  Decided by the implementation's own answer to a binary marker.
                    let marker2 = format!("\u{1}<BIN-{}>", rng.below(1000000)).into_bytes().into_iter().chain([0xff, 0xfe]).collect::<Vec<u8>>();
                    let a2 = build(&marker2);
                    let binary_ok = run_parser(&a2) == format!("OK {} {}", a2.len(), base.replace(&mh, &hex(&marker2)));
                    let rf = run_parser(&follow);
                    let ignored = ra.matches(&mh).count() == 0;
                    // a position whose content the value does not show is probed with the delimiters it must skip over
                    let mut tries: Vec<Vec<u8>> = vec![];
                    let x = rng.pick(&contents).clone();
                    tries.push(if rng.chance(1, 6) { (0..1 + rng.below(40)).map(|_| 1 + rng.below(255) as u8).collect() } else { x });
                    if ignored {
                        tries.push(b")".to_vec());
                        tries.push(b"(x) y\r\n".to_vec());
                    }
                    for x in tries {
                    let b = build(&x);
                    let mut bf = b.clone();
                    bf.extend_from_slice(&follow);
                    let rb = run_parser(&bf);
                    // the ID response is a map: its dump lists the pairs sorted by key, so sort again after the substitution
                    let resort = |s: &str| -> String {
                        match (s.find("(Response::Id (Some ["), s.rfind("]))")) {
                            (Some(a), Some(z)) if s[a..].starts_with("(Response::Id (Some [") => {
                                let inner = &s[a + 21..z];
                                if inner.is_empty() {
                                    return s.to_string(); // an empty map (every field had a NIL value)
                                }
                                let mut items: Vec<&str> = inner.split(") (T ").collect();
                                let n = items.len();
                                let mut owned: Vec<String> = items
                                    .drain(..)
                                    .enumerate()
                                    .map(|(i, t)| {
                                        let t = if i == 0 { t.trim_start_matches("(T ") } else { t };
                                        let t = if i + 1 == n { t.trim_end_matches(')') } else { t };
                                        t.to_string()
                                    })
                                    .collect();
                                owned.sort();
                                let keys: Vec<&str> = owned.iter().map(|t| t.split(' ').next().unwrap_or("")).collect();
                                if keys.windows(2).any(|w| w[0] == w[1]) {
                                    return "SKIP duplicate map key".to_string();
                                }
                                format!("{}(Response::Id (Some [{}]))", &s[..a], owned.iter().map(|t| format!("(T {})", t)).collect::<Vec<_>>().join(" "))
                            }
                            _ => s.to_string(),
                        }
                    };
                    let expect = resort(&format!("OK {} {}", b.len(), base.replace(&mh, &hex(&x))));
                    let rb = resort(&rb);
                    let utf8 = std::str::from_utf8(&x).is_ok();
                    let verdict = if expect.starts_with("SKIP") {
                        "OK".to_string()
                    } else if rb == expect {
                        // and the response that follows is untouched
                        let rest = run_parser(&bf[b.len()..]);
                        if rest == rf { "OK".to_string() } else { "BAD the response after the literal parses differently".to_string() }
                    } else if !utf8 && !binary_ok && rb == "ERR" {
                        "OK".to_string() // a text field cannot hold bytes that are not UTF-8: refusing the response is right
                    } else if !utf8 && !binary_ok && {
                        // known class: inside a bracketed response code, the failed code makes resp_text fall back to
                        // plain text, which ends the response at the CRLF of the literal header
                        let k: usize = rb.split(' ').nth(1).and_then(|t| t.parse().ok()).unwrap_or(0);
                        rb.starts_with("OK ") && k >= 3 && k < b.len() && &bf[k - 3..k] == b"}\r\n" && rb.contains("code=None") && bf[..k].contains(&b'[')
                    } {
                        "KNOWN resp-code-literal-fallback".to_string()
                    } else {
                        format!("BAD expected {}", &expect[..expect.len().min(300)])
                    };
                    println!("{}\t{}\t{}", hex(&bf), &rb[..rb.len().min(400)], verdict);
                    }
                }
            }
        }
        "stability" => {
            // pairs (B, B ++ X): B a prefix / mutation / splice / whole response, X empty / a response / random bytes.
            // Two lines per pair; the second carries `X <len B>`.
            for _ in 0..n {
                let (_, a) = gen_pair(&mut rng, true);
                let (_, o) = gen_pair(&mut rng, true);
                // a multi-byte UTF-8 character inserted somewhere (often inside a string), cut inside it
                if rng.chance(1, 6) {
                    let ch = *rng.pick(&["\u{fc}", "\u{20ac}", "\u{1f600}", "\u{e9}"]);
                    // prefer a position right after a double quote
                    let quotes: Vec<usize> = a.iter().enumerate().filter(|(_, c)| **c == b'"').map(|(k, _)| k + 1).collect();
                    let pos = if !quotes.is_empty() && rng.chance(2, 3) { *rng.pick(&quotes) } else { rng.below(a.len() + 1) };
                    let mut whole = a[..pos].to_vec();
                    whole.extend_from_slice(ch.as_bytes());
                    whole.extend_from_slice(&a[pos..]);
                    let cut = pos + 1 + rng.below(ch.len() - 1);
                    emit(&whole[..cut], Some("B"));
                    emit(&whole, Some(&format!("X {}", cut)));
                    continue;
                }
                let b: Vec<u8> = match rng.below(5) {
                    0 => a.clone(),
                    1 => a[..rng.below(a.len() + 1)].to_vec(),
                    2 | 3 => mutate(&mut rng, &a, &o),
                    _ => {
                        let mut m = mutate(&mut rng, &a, &o);
                        let cut = rng.below(m.len() + 1);
                        m.truncate(cut);
                        m
                    }
                };
                let x: Vec<u8> = match rng.below(4) {
                    0 => o.clone(),
                    1 => (0..1 + rng.below(12)).map(|_| rng.below(256) as u8).collect(),
                    2 => garbage_line(&mut rng),
                    _ => rng.pick(TOKENS).as_bytes().to_vec(),
                };
                emit(&b, Some("B"));
                let mut bx = b.clone();
                bx.extend_from_slice(&x);
                emit(&bx, Some(&format!("X {}", b.len())));
            }
        }
        "numeric" => {
            // every numeric position of generated responses, overwritten by numerals beyond the field's range.
            // third column: `N <bits> <in_code>`
            let over32: &[&str] = &["4294967296", "4294967297", "4294967300", "9999999999", "18446744073709551615", "18446744073709551616", "99999999999999999999999999999999999999999"];
            let over64: &[&str] = &["18446744073709551616", "18446744073709551617", "18446744073709551620", "340282366920938463463374607431768211456", "99999999999999999999999999999999999999999"];
            for _ in 0..n {
                let v = genresp::gen_response(&mut rng);
                let mut e = Enc::new(&mut rng, true);
                genresp::enc_response(&mut e, &v);
                let (enc, spans) = (e.out, e.num_spans);
                if spans.is_empty() {
                    continue;
                }
                for _ in 0..spans.len().min(3) {
                    let (off, len, bits, in_code) = spans[rng.below(spans.len())];
                    let numeral = if bits == 32 { *rng.pick(over32) } else { *rng.pick(over64) };
                    let mut m = enc[..off].to_vec();
                    if rng.chance(1, 4) {
                        for _ in 0..1 + rng.below(30) {
                            m.push(b'0');
                        }
                    }
                    m.extend_from_slice(numeral.as_bytes());
                    m.extend_from_slice(&enc[off + len..]);
                    emit(&m, Some(&format!("N {} {} {}", bits, if in_code { 1 } else { 0 }, numeral)));
                }
            }
        }
        "garbage" => {
            for _ in 0..n {
                let g = garbage_line(&mut rng);
                emit(&g, None);
            }
        }
        "corpus" => {
            let mut s = String::new();
            use std::io::Read;
            std::io::stdin().read_to_string(&mut s).unwrap();
            for line in s.lines() {
                let line = line.trim();
                if line.is_empty() || line.starts_with('#') {
                    continue;
                }
                emit(&unhex(line.split_whitespace().next().unwrap()), None);
            }
        }
        _ => {
            eprintln!("unknown stream {}", stream);
            std::process::exit(2);
        }
    }
}
