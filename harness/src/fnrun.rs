//! Per-function correspondence: the real parser functions that are `pub` all the way (table regenerated from the
//! source by rs2coq, coq/gen/gen_fns.rs), each run on its own inputs.  stdin: `<fn name>\t<hex input>` per line;
//! stdout: `OK <consumed>[ <value>]` | INC | ERR | FAIL | PANIC | SKIP (the function cannot be called from outside).
use crate::gen_fns::FNS;
use crate::util::unhex;
use nom::IResult;
use std::borrow::Cow;

pub trait Show {
    fn show(&self, b: &mut String);
}
fn hexb(b: &mut String, s: &[u8]) {
    b.push('x');
    for c in s {
        b.push_str(&format!("{:02x}", c));
    }
}
impl Show for &[u8] {
    fn show(&self, b: &mut String) {
        hexb(b, self)
    }
}
impl Show for &str {
    fn show(&self, b: &mut String) {
        hexb(b, self.as_bytes())
    }
}
impl Show for Cow<'_, str> {
    fn show(&self, b: &mut String) {
        hexb(b, self.as_bytes())
    }
}
impl Show for Cow<'_, [u8]> {
    fn show(&self, b: &mut String) {
        hexb(b, self)
    }
}
impl Show for u32 {
    fn show(&self, b: &mut String) {
        b.push_str(&self.to_string())
    }
}
impl Show for u64 {
    fn show(&self, b: &mut String) {
        b.push_str(&self.to_string())
    }
}
impl<T: Show> Show for Option<T> {
    fn show(&self, b: &mut String) {
        match self {
            None => b.push_str("None"),
            Some(x) => {
                b.push_str("(Some ");
                x.show(b);
                b.push(')');
            }
        }
    }
}
impl<T: Show> Show for Vec<T> {
    fn show(&self, b: &mut String) {
        b.push('[');
        for (i, x) in self.iter().enumerate() {
            if i > 0 {
                b.push(' ');
            }
            x.show(b);
        }
        b.push(']');
    }
}

pub fn verdict<T>(i: &[u8], r: IResult<&[u8], T>) -> String {
    match r {
        Ok((rest, _)) => format!("OK {}", i.len() - rest.len()),
        Err(nom::Err::Incomplete(_)) => "INC".into(),
        Err(nom::Err::Error(_)) => "ERR".into(),
        Err(nom::Err::Failure(_)) => "FAIL".into(),
    }
}
pub fn verdict_plain<T: Show>(i: &[u8], r: IResult<&[u8], T>) -> String {
    match r {
        Ok((rest, v)) => {
            let mut s = format!("OK {} ", i.len() - rest.len());
            v.show(&mut s);
            s
        }
        Err(nom::Err::Incomplete(_)) => "INC".into(),
        Err(nom::Err::Error(_)) => "ERR".into(),
        Err(nom::Err::Failure(_)) => "FAIL".into(),
    }
}

pub fn main(args: &[String]) {
    if args.first().map(|s| s.as_str()) == Some("list") {
        for (n, _) in FNS {
            println!("{}", n);
        }
        return;
    }
    std::panic::set_hook(Box::new(|_| {}));
    let mut line = String::new();
    while std::io::stdin().read_line(&mut line).unwrap_or(0) > 0 {
        let t = line.trim_end_matches(['\n', '\r']);
        if let Some((name, h)) = t.split_once('\t') {
            match FNS.iter().find(|(n, _)| *n == name) {
                None => println!("SKIP"),
                Some((_, f)) => {
                    let input = unhex(h);
                    let _w = crate::util::watch(&input);
                    let r = std::panic::catch_unwind(|| f(&input));
                    println!("{}", r.unwrap_or_else(|_| "PANIC".to_string()));
                }
            }
        } else if !t.is_empty() {
            println!("BADCASE");
        }
        line.clear();
    }
}
