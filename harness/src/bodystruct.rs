//! C17: BodyStructParser on generated trees.  A case is `<tree>|<labels>`: the tree in the form
//! `L<label>` / `M<label>(<child> <child> ...)`, the predicate "label is one of <labels>".
//! Output: `<case>\t<path>` with the path as `1.2.3`, `ROOT` for the empty path, `NONE`.
use crate::util::Rng;
use imap_proto::parser::bodystructure::BodyStructParser;
use imap_proto::types::*;
use std::borrow::Cow;

#[derive(Clone, Debug)]
pub enum T {
    L(u32),
    M(u32, Vec<T>),
}

fn common(label: u32, ty: &'static str) -> BodyContentCommon<'static> {
    BodyContentCommon {
        ty: ContentType {
            ty: Cow::Borrowed(ty),
            subtype: Cow::Owned(label.to_string()),
            params: None,
        },
        disposition: None,
        language: None,
        location: None,
    }
}
fn single() -> BodyContentSinglePart<'static> {
    BodyContentSinglePart {
        id: None,
        md5: None,
        description: None,
        transfer_encoding: ContentEncoding::SevenBit,
        octets: 0,
    }
}
fn envelope() -> Envelope<'static> {
    Envelope {
        date: None,
        subject: None,
        from: None,
        sender: None,
        reply_to: None,
        to: None,
        cc: None,
        bcc: None,
        in_reply_to: None,
        message_id: None,
    }
}

pub const INNER: u32 = 1_000_000;

fn build(t: &T) -> BodyStructure<'static> {
    match t {
        T::L(l) => match l % 3 {
            0 => BodyStructure::Basic { common: common(*l, "APPLICATION"), other: single(), extension: None },
            1 => BodyStructure::Text { common: common(*l, "TEXT"), other: single(), lines: 1, extension: None },
            // a message/rfc822 part encloses a body of its own; the walker treats the part as a leaf
            _ => BodyStructure::Message {
                common: common(*l, "MESSAGE"),
                other: single(),
                envelope: envelope(),
                body: Box::new(BodyStructure::Multipart {
                    common: common(INNER + *l, "MULTIPART"),
                    bodies: vec![BodyStructure::Text {
                        common: common(INNER + *l, "TEXT"),
                        other: single(),
                        lines: 1,
                        extension: None,
                    }],
                    extension: None,
                }),
                lines: 1,
                extension: None,
            },
        },
        T::M(l, cs) => BodyStructure::Multipart {
            common: common(*l, "MULTIPART"),
            bodies: cs.iter().map(build).collect(),
            extension: None,
        },
    }
}

fn label_of(b: &BodyStructure) -> u32 {
    let c = match b {
        BodyStructure::Basic { common, .. }
        | BodyStructure::Text { common, .. }
        | BodyStructure::Message { common, .. }
        | BodyStructure::Multipart { common, .. } => common,
    };
    c.ty.subtype.parse().unwrap()
}

fn show(t: &T, out: &mut String) {
    match t {
        T::L(l) => out.push_str(&format!("L{}", l)),
        T::M(l, cs) => {
            out.push_str(&format!("M{}(", l));
            for (i, c) in cs.iter().enumerate() {
                if i > 0 {
                    out.push(' ');
                }
                show(c, out);
            }
            out.push(')');
        }
    }
}

/// all ordered trees with exactly n nodes (shapes); labels assigned afterwards in preorder
fn shapes(n: usize) -> Vec<T> {
    if n == 0 {
        return vec![];
    }
    if n == 1 {
        return vec![T::L(0), T::M(0, vec![])];
    }
    // forests with n-1 nodes as children of a Multi root
    forests(n - 1).into_iter().map(|f| T::M(0, f)).collect()
}
fn forests(n: usize) -> Vec<Vec<T>> {
    if n == 0 {
        return vec![vec![]];
    }
    let mut out = vec![];
    for first in 1..=n {
        for t in shapes(first) {
            // an empty multipart is only generated as a single-node shape above; keep the count down
            for rest in forests(n - first) {
                let mut f = vec![t.clone()];
                f.extend(rest);
                out.push(f);
            }
        }
    }
    out
}

fn relabel(t: &mut T, next: &mut u32) {
    match t {
        T::L(l) => {
            *l = *next;
            *next += 1;
        }
        T::M(l, cs) => {
            *l = *next;
            *next += 1;
            for c in cs {
                relabel(c, next);
            }
        }
    }
}

/// make some sibling an exact copy of its left neighbour (same labels, same shape): parts that compare equal are
/// still different parts with their own specifiers
fn duplicate_siblings(t: &mut T, rng: &mut Rng) -> bool {
    match t {
        T::L(_) => false,
        T::M(_, cs) => {
            let mut done = false;
            if cs.len() >= 2 && rng.chance(1, 2) {
                let i = rng.below(cs.len() - 1);
                cs[i + 1] = cs[i].clone();
                done = true;
            }
            for c in cs.iter_mut() {
                if rng.chance(1, 3) && duplicate_siblings(c, rng) {
                    done = true;
                }
            }
            done
        }
    }
}

fn random_tree(rng: &mut Rng, depth: usize, budget: &mut usize) -> T {
    if depth == 0 || *budget == 0 || rng.chance(2, 5) {
        return T::L(0);
    }
    let width = if rng.chance(1, 10) { 20 + rng.below(40) } else { rng.below(7) };
    let mut cs = vec![];
    for _ in 0..width {
        if *budget == 0 {
            break;
        }
        *budget -= 1;
        cs.push(random_tree(rng, depth - 1, budget));
    }
    T::M(0, cs)
}

fn run_case(t: &T, labels: &[u32]) -> String {
    let tree = build(t);
    let res = std::panic::catch_unwind(|| {
        let p = BodyStructParser::new(&tree);
        p.search(|b| labels.contains(&label_of(b)))
    });
    match res {
        Err(_) => "PANIC".to_string(),
        Ok(None) => "NONE".to_string(),
        Ok(Some(p)) if p.is_empty() => "ROOT".to_string(),
        Ok(Some(p)) => p.iter().map(|x| x.to_string()).collect::<Vec<_>>().join("."),
    }
}

pub fn main(args: &[String]) {
    let seed: u64 = args.first().map(|s| s.parse().unwrap()).unwrap_or(1);
    let max_nodes: usize = args.get(1).map(|s| s.parse().unwrap()).unwrap_or(7);
    let n_random: usize = args.get(2).map(|s| s.parse().unwrap()).unwrap_or(300);
    std::panic::set_hook(Box::new(|_| {}));
    let mut rng = Rng::new(seed);
    let mut trees: Vec<(T, u32)> = vec![];
    for n in 1..=max_nodes {
        for mut t in shapes(n) {
            let mut next = 0;
            relabel(&mut t, &mut next);
            trees.push((t, next));
        }
    }
    for _ in 0..n_random {
        let mut budget = 60 + rng.below(200);
        let mut t = random_tree(&mut rng, 5, &mut budget);
        let mut next = 0;
        relabel(&mut t, &mut next);
        trees.push((t, next));
    }
    // trees in which some siblings are identical copies of each other
    let base: Vec<(T, u32)> = trees.iter().filter(|(_, n)| *n >= 3).cloned().collect();
    for (i, (t, n)) in base.iter().enumerate() {
        if i % 3 != 0 {
            continue;
        }
        let mut t2 = t.clone();
        if duplicate_siblings(&mut t2, &mut rng) {
            trees.push((t2, *n));
        }
    }
    for (t, n) in &trees {
        let mut s = String::new();
        show(t, &mut s);
        let mut preds: Vec<Vec<u32>> = vec![];
        if *n <= 12 {
            for l in 0..*n {
                preds.push(vec![l]);
            }
        } else {
            for _ in 0..10 {
                preds.push(vec![rng.below(*n as usize) as u32]);
            }
        }
        preds.push(vec![]); // matches nothing
        preds.push(vec![999_999]); // matches nothing
        preds.push((0..*n).collect()); // matches everything
        if *n >= 2 {
            for _ in 0..3 {
                let a = rng.below(*n as usize) as u32;
                let b = rng.below(*n as usize) as u32;
                preds.push(vec![a, b]);
            }
        }
        // the body enclosed in a message/rfc822 leaf is not a part the walker indexes
        preds.push((0..*n).map(|l| INNER + l).collect());
        for p in preds {
            let ls = p.iter().map(|x| x.to_string()).collect::<Vec<_>>().join(",");
            println!("{}|{}\t{}", s, ls, run_case(t, &p));
        }
    }
}
