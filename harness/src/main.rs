//! Implementation-side harness for the correspondence check (Tie B): runs the real
//! imap-proto / tokio-imap code on generated inputs and prints canonical result lines.
mod bodystruct;
mod builder;
mod chains;
mod client;
#[path = "../../coq/gen/gen_chains.rs"]
mod gen_chains;
#[path = "../../coq/gen/gen_fns.rs"]
mod gen_fns;
mod fnrun;
mod crash;
mod dump;
mod frames;
mod genresp;
mod owned;
mod parse;
mod mockio;
mod tags;
mod util;

fn main() {
    let args: Vec<String> = std::env::args().collect();
    if args.len() < 2 {
        eprintln!("usage: harness <sub-command> [args]");
        std::process::exit(2);
    }
    if args[1] != "crash" {
        util::start_watchdog();
    }
    match args[1].as_str() {
        "tags" => tags::main(&args[2..]),
        "client" => client::main(&args[2..]),
        "framed" => client::framed_main(&args[2..]),
        "crash" => crash::parent(),
        "crash-child" => crash::child(),
        "crash-gen" => crash::gen(&args[2..]),
        "parse" => parse::main(&args[2..]),
        "fns" => fnrun::main(&args[2..]),
        "owned" => owned::main(&args[2..]),
        "chains" => chains::main(&args[2..]),
        "frames" => frames::main(&args[2..]),
        "builder" => builder::main(&args[2..]),
        "bodystruct" => bodystruct::main(&args[2..]),
        c => {
            eprintln!("unknown sub-command {c}");
            std::process::exit(2);
        }
    }
}
