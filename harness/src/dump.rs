//! Canonical dump of the crate's public response types: the same universal value syntax the model
//! driver prints (records with fields sorted by name, HashMap entries sorted by key, no addresses).
use imap_proto::types::*;
use std::borrow::Cow;

#[derive(Clone, Debug, PartialEq)]
pub enum V {
    Bytes(Vec<u8>),
    Num(u64),
    Bool(bool),
    None,
    Some(Box<V>),
    List(Vec<V>),
    Tuple(Vec<V>),
    Con(&'static str, Vec<V>),
    Rec(&'static str, Vec<(&'static str, V)>),
}

pub fn show(v: &V, out: &mut String) {
    match v {
        V::Bytes(b) => {
            out.push('x');
            for c in b {
                out.push_str(&format!("{:02x}", c));
            }
        }
        V::Num(n) => out.push_str(&n.to_string()),
        V::Bool(b) => out.push_str(if *b { "true" } else { "false" }),
        V::None => out.push_str("None"),
        V::Some(x) => {
            out.push_str("(Some ");
            show(x, out);
            out.push(')');
        }
        V::List(l) => {
            out.push('[');
            for (i, x) in l.iter().enumerate() {
                if i > 0 {
                    out.push(' ');
                }
                show(x, out);
            }
            out.push(']');
        }
        V::Tuple(l) => {
            out.push_str("(T");
            for x in l {
                out.push(' ');
                show(x, out);
            }
            out.push(')');
        }
        V::Con(n, l) => {
            out.push('(');
            out.push_str(n);
            for x in l {
                out.push(' ');
                show(x, out);
            }
            out.push(')');
        }
        V::Rec(n, fs) => {
            let mut fs: Vec<&(&'static str, V)> = fs.iter().collect();
            fs.sort_by(|a, b| a.0.cmp(b.0));
            out.push('{');
            out.push_str(n);
            for (f, x) in fs {
                out.push(' ');
                out.push_str(f);
                out.push('=');
                show(x, out);
            }
            out.push('}');
        }
    }
}

pub fn to_string(v: &V) -> String {
    let mut s = String::new();
    show(v, &mut s);
    s
}

thread_local! {
    /// when recording: address ranges (pointer, length) of every *borrowed* string met while dumping
    static BORROWS: std::cell::RefCell<Option<Vec<(usize, usize)>>> = const { std::cell::RefCell::new(None) };
}
thread_local! {
    /// with recording on: do not read the contents of borrowed strings at all (addresses only)
    static ADDRESSES_ONLY: std::cell::Cell<bool> = const { std::cell::Cell::new(false) };
}
pub fn start_recording() {
    BORROWS.with(|b| *b.borrow_mut() = Some(vec![]));
}
pub fn addresses_only(on: bool) {
    ADDRESSES_ONLY.with(|c| c.set(on));
}
pub fn stop_recording() -> Vec<(usize, usize)> {
    BORROWS.with(|b| b.borrow_mut().take().unwrap_or_default())
}
fn record(p: *const u8, n: usize) {
    BORROWS.with(|b| {
        if let Some(v) = b.borrow_mut().as_mut() {
            v.push((p as usize, n));
        }
    });
}
fn s(c: &Cow<str>) -> V {
    if let Cow::Borrowed(x) = c {
        record(x.as_ptr(), x.len());
        if ADDRESSES_ONLY.with(|c| c.get()) {
            return V::Bytes(vec![]);
        }
    }
    V::Bytes(c.as_bytes().to_vec())
}
fn b(c: &Cow<[u8]>) -> V {
    if let Cow::Borrowed(x) = c {
        record(x.as_ptr(), x.len());
        if ADDRESSES_ONLY.with(|c| c.get()) {
            return V::Bytes(vec![]);
        }
    }
    V::Bytes(c.to_vec())
}
fn opt<T>(o: &Option<T>, f: impl Fn(&T) -> V) -> V {
    match o {
        None => V::None,
        Some(x) => V::Some(Box::new(f(x))),
    }
}
fn list<T>(l: &[T], f: impl Fn(&T) -> V) -> V {
    V::List(l.iter().map(f).collect())
}
fn n32(n: &u32) -> V {
    V::Num(*n as u64)
}
fn range(r: &std::ops::RangeInclusive<u32>) -> V {
    V::Con("RangeInclusive", vec![n32(r.start()), n32(r.end())])
}

pub fn status(s: &Status) -> V {
    V::Con(
        match s {
            Status::Ok => "Status::Ok",
            Status::No => "Status::No",
            Status::Bad => "Status::Bad",
            Status::PreAuth => "Status::PreAuth",
            Status::Bye => "Status::Bye",
        },
        vec![],
    )
}

pub fn capability(c: &Capability) -> V {
    match c {
        Capability::Imap4rev1 => V::Con("Capability::Imap4rev1", vec![]),
        Capability::Auth(a) => V::Con("Capability::Auth", vec![s(a)]),
        Capability::Atom(a) => V::Con("Capability::Atom", vec![s(a)]),
    }
}

pub fn uid_set_member(m: &UidSetMember) -> V {
    match m {
        UidSetMember::UidRange(r) => V::Con("UidSetMember::UidRange", vec![range(r)]),
        UidSetMember::Uid(n) => V::Con("UidSetMember::Uid", vec![n32(n)]),
    }
}

pub fn response_code(c: &ResponseCode) -> V {
    match c {
        ResponseCode::Alert => V::Con("ResponseCode::Alert", vec![]),
        ResponseCode::BadCharset(v) => V::Con("ResponseCode::BadCharset", vec![opt(v, |l| list(l, s))]),
        ResponseCode::Capabilities(v) => V::Con("ResponseCode::Capabilities", vec![list(v, capability)]),
        ResponseCode::HighestModSeq(n) => V::Con("ResponseCode::HighestModSeq", vec![V::Num(*n)]),
        ResponseCode::Parse => V::Con("ResponseCode::Parse", vec![]),
        ResponseCode::PermanentFlags(v) => V::Con("ResponseCode::PermanentFlags", vec![list(v, s)]),
        ResponseCode::ReadOnly => V::Con("ResponseCode::ReadOnly", vec![]),
        ResponseCode::ReadWrite => V::Con("ResponseCode::ReadWrite", vec![]),
        ResponseCode::TryCreate => V::Con("ResponseCode::TryCreate", vec![]),
        ResponseCode::UidNext(n) => V::Con("ResponseCode::UidNext", vec![n32(n)]),
        ResponseCode::UidValidity(n) => V::Con("ResponseCode::UidValidity", vec![n32(n)]),
        ResponseCode::Unseen(n) => V::Con("ResponseCode::Unseen", vec![n32(n)]),
        ResponseCode::AppendUid(n, v) => V::Con("ResponseCode::AppendUid", vec![n32(n), list(v, uid_set_member)]),
        ResponseCode::CopyUid(n, a, c) => {
            V::Con("ResponseCode::CopyUid", vec![n32(n), list(a, uid_set_member), list(c, uid_set_member)])
        }
        ResponseCode::UidNotSticky => V::Con("ResponseCode::UidNotSticky", vec![]),
        ResponseCode::MetadataLongEntries(n) => V::Con("ResponseCode::MetadataLongEntries", vec![V::Num(*n)]),
        ResponseCode::MetadataMaxSize(n) => V::Con("ResponseCode::MetadataMaxSize", vec![V::Num(*n)]),
        ResponseCode::MetadataTooMany => V::Con("ResponseCode::MetadataTooMany", vec![]),
        ResponseCode::MetadataNoPrivate => V::Con("ResponseCode::MetadataNoPrivate", vec![]),
        other => V::Con("ResponseCode::<unknown>", vec![V::Bytes(format!("{:?}", other).into_bytes())]),
    }
}

pub fn status_attribute(a: &StatusAttribute) -> V {
    match a {
        StatusAttribute::HighestModSeq(n) => V::Con("StatusAttribute::HighestModSeq", vec![V::Num(*n)]),
        StatusAttribute::Messages(n) => V::Con("StatusAttribute::Messages", vec![n32(n)]),
        StatusAttribute::Recent(n) => V::Con("StatusAttribute::Recent", vec![n32(n)]),
        StatusAttribute::UidNext(n) => V::Con("StatusAttribute::UidNext", vec![n32(n)]),
        StatusAttribute::UidValidity(n) => V::Con("StatusAttribute::UidValidity", vec![n32(n)]),
        StatusAttribute::Unseen(n) => V::Con("StatusAttribute::Unseen", vec![n32(n)]),
        other => V::Con("StatusAttribute::<unknown>", vec![V::Bytes(format!("{:?}", other).into_bytes())]),
    }
}

pub fn name_attribute(a: &NameAttribute) -> V {
    let c = |n| V::Con(n, vec![]);
    match a {
        NameAttribute::NoInferiors => c("NameAttribute::NoInferiors"),
        NameAttribute::NoSelect => c("NameAttribute::NoSelect"),
        NameAttribute::Marked => c("NameAttribute::Marked"),
        NameAttribute::Unmarked => c("NameAttribute::Unmarked"),
        NameAttribute::All => c("NameAttribute::All"),
        NameAttribute::Archive => c("NameAttribute::Archive"),
        NameAttribute::Drafts => c("NameAttribute::Drafts"),
        NameAttribute::Flagged => c("NameAttribute::Flagged"),
        NameAttribute::Junk => c("NameAttribute::Junk"),
        NameAttribute::Sent => c("NameAttribute::Sent"),
        NameAttribute::Trash => c("NameAttribute::Trash"),
        NameAttribute::Extension(x) => V::Con("NameAttribute::Extension", vec![s(x)]),
        other => V::Con("NameAttribute::<unknown>", vec![V::Bytes(format!("{:?}", other).into_bytes())]),
    }
}

pub fn metadata(m: &Metadata) -> V {
    V::Rec(
        "Metadata",
        vec![
            ("entry", V::Bytes(m.entry.as_bytes().to_vec())),
            ("value", opt(&m.value, |x| V::Bytes(x.as_bytes().to_vec()))),
        ],
    )
}

pub fn mailbox_datum(d: &MailboxDatum) -> V {
    match d {
        MailboxDatum::Exists(n) => V::Con("MailboxDatum::Exists", vec![n32(n)]),
        MailboxDatum::Flags(v) => V::Con("MailboxDatum::Flags", vec![list(v, s)]),
        MailboxDatum::List { name_attributes, delimiter, name } => V::Rec(
            "MailboxDatum::List",
            vec![
                ("name_attributes", list(name_attributes, name_attribute)),
                ("delimiter", opt(delimiter, s)),
                ("name", s(name)),
            ],
        ),
        MailboxDatum::Search(v) => V::Con("MailboxDatum::Search", vec![list(v, n32)]),
        MailboxDatum::Sort(v) => V::Con("MailboxDatum::Sort", vec![list(v, n32)]),
        MailboxDatum::Status { mailbox, status } => V::Rec(
            "MailboxDatum::Status",
            vec![("mailbox", s(mailbox)), ("status", list(status, status_attribute))],
        ),
        MailboxDatum::Recent(n) => V::Con("MailboxDatum::Recent", vec![n32(n)]),
        MailboxDatum::MetadataSolicited { mailbox, values } => V::Rec(
            "MailboxDatum::MetadataSolicited",
            vec![("mailbox", s(mailbox)), ("values", list(values, metadata))],
        ),
        MailboxDatum::MetadataUnsolicited { mailbox, values } => V::Rec(
            "MailboxDatum::MetadataUnsolicited",
            vec![("mailbox", s(mailbox)), ("values", list(values, s))],
        ),
        MailboxDatum::GmailLabels(v) => V::Con("MailboxDatum::GmailLabels", vec![list(v, s)]),
        MailboxDatum::GmailMsgId(n) => V::Con("MailboxDatum::GmailMsgId", vec![V::Num(*n)]),
        other => V::Con("MailboxDatum::<unknown>", vec![V::Bytes(format!("{:?}", other).into_bytes())]),
    }
}

pub fn message_section(m: &MessageSection) -> V {
    V::Con(
        match m {
            MessageSection::Header => "MessageSection::Header",
            MessageSection::Mime => "MessageSection::Mime",
            MessageSection::Text => "MessageSection::Text",
        },
        vec![],
    )
}

pub fn section_path(p: &SectionPath) -> V {
    match p {
        SectionPath::Full(m) => V::Con("SectionPath::Full", vec![message_section(m)]),
        SectionPath::Part(v, m) => V::Con("SectionPath::Part", vec![list(v, n32), opt(m, message_section)]),
    }
}

pub fn address(a: &Address) -> V {
    V::Rec(
        "Address",
        vec![("name", opt(&a.name, b)), ("adl", opt(&a.adl, b)), ("mailbox", opt(&a.mailbox, b)), ("host", opt(&a.host, b))],
    )
}

pub fn envelope(e: &Envelope) -> V {
    let al = |o: &Option<Vec<Address>>| opt(o, |l| list(l, address));
    V::Rec(
        "Envelope",
        vec![
            ("date", opt(&e.date, b)),
            ("subject", opt(&e.subject, b)),
            ("from", al(&e.from)),
            ("sender", al(&e.sender)),
            ("reply_to", al(&e.reply_to)),
            ("to", al(&e.to)),
            ("cc", al(&e.cc)),
            ("bcc", al(&e.bcc)),
            ("in_reply_to", opt(&e.in_reply_to, b)),
            ("message_id", opt(&e.message_id, b)),
        ],
    )
}

pub fn body_params(p: &BodyParams) -> V {
    opt(p, |l| list(l, |(k, v)| V::Tuple(vec![s(k), s(v)])))
}

pub fn content_disposition(d: &ContentDisposition) -> V {
    V::Rec("ContentDisposition", vec![("ty", s(&d.ty)), ("params", body_params(&d.params))])
}

pub fn content_encoding(e: &ContentEncoding) -> V {
    match e {
        ContentEncoding::SevenBit => V::Con("ContentEncoding::SevenBit", vec![]),
        ContentEncoding::EightBit => V::Con("ContentEncoding::EightBit", vec![]),
        ContentEncoding::Binary => V::Con("ContentEncoding::Binary", vec![]),
        ContentEncoding::Base64 => V::Con("ContentEncoding::Base64", vec![]),
        ContentEncoding::QuotedPrintable => V::Con("ContentEncoding::QuotedPrintable", vec![]),
        ContentEncoding::Other(x) => V::Con("ContentEncoding::Other", vec![s(x)]),
    }
}

pub fn body_extension(e: &BodyExtension) -> V {
    match e {
        BodyExtension::Num(n) => V::Con("BodyExtension::Num", vec![n32(n)]),
        BodyExtension::Str(x) => V::Con("BodyExtension::Str", vec![opt(x, s)]),
        BodyExtension::List(l) => V::Con("BodyExtension::List", vec![list(l, body_extension)]),
    }
}

pub fn common(c: &BodyContentCommon) -> V {
    V::Rec(
        "BodyContentCommon",
        vec![
            (
                "ty",
                V::Rec(
                    "ContentType",
                    vec![("ty", s(&c.ty.ty)), ("subtype", s(&c.ty.subtype)), ("params", body_params(&c.ty.params))],
                ),
            ),
            ("disposition", opt(&c.disposition, content_disposition)),
            ("language", opt(&c.language, |l| list(l, s))),
            ("location", opt(&c.location, s)),
        ],
    )
}

pub fn single(o: &BodyContentSinglePart) -> V {
    V::Rec(
        "BodyContentSinglePart",
        vec![
            ("id", opt(&o.id, s)),
            ("md5", opt(&o.md5, s)),
            ("description", opt(&o.description, s)),
            ("transfer_encoding", content_encoding(&o.transfer_encoding)),
            ("octets", n32(&o.octets)),
        ],
    )
}

pub fn body_structure(bs: &BodyStructure) -> V {
    match bs {
        BodyStructure::Basic { common: c, other, extension } => V::Rec(
            "BodyStructure::Basic",
            vec![("common", common(c)), ("other", single(other)), ("extension", opt(extension, body_extension))],
        ),
        BodyStructure::Text { common: c, other, lines, extension } => V::Rec(
            "BodyStructure::Text",
            vec![
                ("common", common(c)),
                ("other", single(other)),
                ("lines", n32(lines)),
                ("extension", opt(extension, body_extension)),
            ],
        ),
        BodyStructure::Message { common: c, other, envelope: e, body, lines, extension } => V::Rec(
            "BodyStructure::Message",
            vec![
                ("common", common(c)),
                ("other", single(other)),
                ("envelope", envelope(e)),
                ("body", body_structure(body)),
                ("lines", n32(lines)),
                ("extension", opt(extension, body_extension)),
            ],
        ),
        BodyStructure::Multipart { common: c, bodies, extension } => V::Rec(
            "BodyStructure::Multipart",
            vec![
                ("common", common(c)),
                ("bodies", list(bodies, body_structure)),
                ("extension", opt(extension, body_extension)),
            ],
        ),
    }
}

pub fn attribute_value(a: &AttributeValue) -> V {
    match a {
        AttributeValue::BodySection { section, index, data } => V::Rec(
            "AttributeValue::BodySection",
            vec![("section", opt(section, section_path)), ("index", opt(index, n32)), ("data", opt(data, b))],
        ),
        AttributeValue::BodyStructure(x) => V::Con("AttributeValue::BodyStructure", vec![body_structure(x)]),
        AttributeValue::Envelope(e) => V::Con("AttributeValue::Envelope", vec![envelope(e)]),
        AttributeValue::Flags(v) => V::Con("AttributeValue::Flags", vec![list(v, s)]),
        AttributeValue::InternalDate(d) => V::Con("AttributeValue::InternalDate", vec![s(d)]),
        AttributeValue::ModSeq(n) => V::Con("AttributeValue::ModSeq", vec![V::Num(*n)]),
        AttributeValue::Rfc822(x) => V::Con("AttributeValue::Rfc822", vec![opt(x, b)]),
        AttributeValue::Rfc822Header(x) => V::Con("AttributeValue::Rfc822Header", vec![opt(x, b)]),
        AttributeValue::Rfc822Size(n) => V::Con("AttributeValue::Rfc822Size", vec![n32(n)]),
        AttributeValue::Rfc822Text(x) => V::Con("AttributeValue::Rfc822Text", vec![opt(x, b)]),
        AttributeValue::Uid(n) => V::Con("AttributeValue::Uid", vec![n32(n)]),
        AttributeValue::GmailLabels(v) => V::Con("AttributeValue::GmailLabels", vec![list(v, s)]),
        AttributeValue::GmailMsgId(n) => V::Con("AttributeValue::GmailMsgId", vec![V::Num(*n)]),
        other => V::Con("AttributeValue::<unknown>", vec![V::Bytes(format!("{:?}", other).into_bytes())]),
    }
}

pub fn acl_right(r: &AclRight) -> V {
    let c = |n| V::Con(n, vec![]);
    match r {
        AclRight::Lookup => c("AclRight::Lookup"),
        AclRight::Read => c("AclRight::Read"),
        AclRight::Seen => c("AclRight::Seen"),
        AclRight::Write => c("AclRight::Write"),
        AclRight::Insert => c("AclRight::Insert"),
        AclRight::Post => c("AclRight::Post"),
        AclRight::CreateMailbox => c("AclRight::CreateMailbox"),
        AclRight::DeleteMailbox => c("AclRight::DeleteMailbox"),
        AclRight::DeleteMessage => c("AclRight::DeleteMessage"),
        AclRight::Expunge => c("AclRight::Expunge"),
        AclRight::Administer => c("AclRight::Administer"),
        AclRight::Annotation => c("AclRight::Annotation"),
        AclRight::OldCreate => c("AclRight::OldCreate"),
        AclRight::OldDelete => c("AclRight::OldDelete"),
        AclRight::Custom(ch) => V::Con("AclRight::Custom", vec![V::Num(*ch as u64)]),
    }
}

pub fn quota_resource_name(n: &QuotaResourceName) -> V {
    match n {
        QuotaResourceName::Storage => V::Con("QuotaResourceName::Storage", vec![]),
        QuotaResourceName::Message => V::Con("QuotaResourceName::Message", vec![]),
        QuotaResourceName::Atom(a) => V::Con("QuotaResourceName::Atom", vec![s(a)]),
    }
}

pub fn response(r: &Response) -> V {
    match r {
        Response::Capabilities(v) => V::Con("Response::Capabilities", vec![list(v, capability)]),
        Response::Continue { code, information } => V::Rec(
            "Response::Continue",
            vec![("code", opt(code, response_code)), ("information", opt(information, s))],
        ),
        Response::Done { tag, status: st, code, information } => V::Rec(
            "Response::Done",
            vec![
                ("tag", V::Con("RequestId", vec![V::Bytes(tag.0.as_bytes().to_vec())])),
                ("status", status(st)),
                ("code", opt(code, response_code)),
                ("information", opt(information, s)),
            ],
        ),
        Response::Data { status: st, code, information } => V::Rec(
            "Response::Data",
            vec![("status", status(st)), ("code", opt(code, response_code)), ("information", opt(information, s))],
        ),
        Response::Expunge(n) => V::Con("Response::Expunge", vec![n32(n)]),
        Response::Vanished { earlier, uids } => {
            V::Rec("Response::Vanished", vec![("earlier", V::Bool(*earlier)), ("uids", list(uids, range))])
        }
        Response::Fetch(n, attrs) => V::Con("Response::Fetch", vec![n32(n), list(attrs, attribute_value)]),
        Response::MailboxData(d) => V::Con("Response::MailboxData", vec![mailbox_datum(d)]),
        Response::Quota(q) => V::Con(
            "Response::Quota",
            vec![V::Rec(
                "Quota",
                vec![
                    ("root_name", s(&q.root_name)),
                    (
                        "resources",
                        list(&q.resources, |r| {
                            V::Rec(
                                "QuotaResource",
                                vec![("name", quota_resource_name(&r.name)), ("usage", V::Num(r.usage)), ("limit", V::Num(r.limit))],
                            )
                        }),
                    ),
                ],
            )],
        ),
        Response::QuotaRoot(q) => V::Con(
            "Response::QuotaRoot",
            vec![V::Rec(
                "QuotaRoot",
                vec![("mailbox_name", s(&q.mailbox_name)), ("quota_root_names", list(&q.quota_root_names, s))],
            )],
        ),
        Response::Id(m) => V::Con(
            "Response::Id",
            vec![opt(m, |m| {
                let mut kv: Vec<(&Cow<str>, &Cow<str>)> = m.iter().collect();
                kv.sort_by(|a, b| a.0.as_bytes().cmp(b.0.as_bytes()));
                V::List(kv.into_iter().map(|(k, v)| V::Tuple(vec![s(k), s(v)])).collect())
            })],
        ),
        Response::Acl(a) => V::Con(
            "Response::Acl",
            vec![V::Rec(
                "Acl",
                vec![
                    ("mailbox", s(&a.mailbox)),
                    (
                        "acls",
                        list(&a.acls, |e| {
                            V::Rec("AclEntry", vec![("identifier", s(&e.identifier)), ("rights", list(&e.rights, acl_right))])
                        }),
                    ),
                ],
            )],
        ),
        Response::ListRights(l) => V::Con(
            "Response::ListRights",
            vec![V::Rec(
                "ListRights",
                vec![
                    ("mailbox", s(&l.mailbox)),
                    ("identifier", s(&l.identifier)),
                    ("required", list(&l.required, acl_right)),
                    ("optional", list(&l.optional, acl_right)),
                ],
            )],
        ),
        Response::MyRights(m) => V::Con(
            "Response::MyRights",
            vec![V::Rec("MyRights", vec![("mailbox", s(&m.mailbox)), ("rights", list(&m.rights, acl_right))])],
        ),
        other => V::Con("Response::<unknown>", vec![V::Bytes(format!("{:?}", other).into_bytes())]),
    }
}
