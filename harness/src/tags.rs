//! C11 (generator half): issue N commands on one connection through the real client and read the
//! tags off the wire.  Each stream is polled once (the command is written and flushed, then the
//! read side is pending) and dropped.
use crate::mockio::MockIo;
use futures_core::Stream;
use imap_proto::builders::command::CommandBuilder;
use std::pin::Pin;
use std::task::{Context, Poll, Waker};
use tokio_imap::Client;

pub fn main(args: &[String]) {
    let n: usize = args.first().map(|s| s.parse().unwrap()).unwrap_or(30000);
    let waker = Waker::noop();
    let mut cx = Context::from_waker(&waker);
    let io = MockIo::new(vec![], vec![], vec![]);
    let mut client = Client::from_transport(io.clone());
    let mut wire_pos = 0usize;
    for _ in 0..n {
        {
            let mut s = client.call_generic(CommandBuilder::check());
            match Pin::new(&mut s).poll_next(&mut cx) {
                Poll::Pending => {}
                other => {
                    println!("UNEXPECTED {:?}", other.map(|o| o.map(|r| r.is_ok())));
                    return;
                }
            }
        }
        // the line just written
        let st = io.0.borrow();
        let wire = &st.wire[wire_pos..];
        let line_end = wire.iter().position(|b| *b == b'\n').map(|p| p + 1).unwrap_or(wire.len());
        let line = &wire[..line_end];
        wire_pos += line_end;
        // canonical: the tag = bytes up to the first space; the rest must be " CHECK\r\n"
        let sp = line.iter().position(|b| *b == b' ').unwrap_or(line.len());
        if &line[sp..] != b" CHECK\r\n" {
            println!("BADLINE {}", crate::util::hex(line));
            return;
        }
        println!("{}", String::from_utf8_lossy(&line[..sp]));
    }
}

