//! PRNG (one xorshift state; every random choice derives from it), hex helpers.
pub struct Rng(pub u64);
impl Rng {
    pub fn new(seed: u64) -> Self {
        Rng(seed.wrapping_mul(0x9E37_79B9_7F4A_7C15) ^ 0xD1B5_4A32_D192_ED03 | 1)
    }
    pub fn next(&mut self) -> u64 {
        let mut x = self.0;
        x ^= x << 13;
        x ^= x >> 7;
        x ^= x << 17;
        self.0 = x;
        x.wrapping_mul(0x2545_F491_4F6C_DD1D)
    }
    pub fn below(&mut self, n: usize) -> usize {
        if n == 0 {
            0
        } else {
            (self.next() % n as u64) as usize
        }
    }
    pub fn chance(&mut self, num: usize, den: usize) -> bool {
        self.below(den) < num
    }
    pub fn pick<'a, T>(&mut self, xs: &'a [T]) -> &'a T {
        &xs[self.below(xs.len())]
    }
}

pub fn hex(b: &[u8]) -> String {
    let mut s = String::with_capacity(b.len() * 2);
    for x in b {
        s.push_str(&format!("{:02x}", x));
    }
    s
}
pub fn unhex(s: &str) -> Vec<u8> {
    let b = s.as_bytes();
    (0..b.len() / 2)
        .map(|i| {
            let h = |c: u8| match c {
                b'0'..=b'9' => c - 48,
                b'a'..=b'f' => c - 87,
                b'A'..=b'F' => c - 55,
                _ => panic!("bad hex"),
            };
            h(b[2 * i]) * 16 + h(b[2 * i + 1])
        })
        .collect()
}
