//! PRNG (one xorshift state; every random choice derives from it), hex helpers.
pub struct Rng(pub u64);
impl Rng {
    pub fn new(seed: u64) -> Self {
        Rng(seed.wrapping_mul(0x9E37_79B9_7F4A_7C15) ^ 0xD1B5_4A32_D192_ED03 | 1)
    }
    pub fn next(&mut self) -> u64 {
        let mut x = self.0;
        x ^= x << 13;
        x ^= x >> 7;
        x ^= x << 17;
        self.0 = x;
        x.wrapping_mul(0x2545_F491_4F6C_DD1D)
    }
    pub fn below(&mut self, n: usize) -> usize {
        if n == 0 {
            0
        } else {
            (self.next() % n as u64) as usize
        }
    }
    pub fn chance(&mut self, num: usize, den: usize) -> bool {
        self.below(den) < num
    }
    pub fn pick<'a, T>(&mut self, xs: &'a [T]) -> &'a T {
        &xs[self.below(xs.len())]
    }
}

pub fn hex(b: &[u8]) -> String {
    let mut s = String::with_capacity(b.len() * 2);
    for x in b {
        s.push_str(&format!("{:02x}", x));
    }
    s
}
pub fn unhex(s: &str) -> Vec<u8> {
    let b = s.as_bytes();
    (0..b.len() / 2)
        .map(|i| {
            let h = |c: u8| match c {
                b'0'..=b'9' => c - 48,
                b'a'..=b'f' => c - 87,
                b'A'..=b'F' => c - 55,
                _ => panic!("bad hex"),
            };
            h(b[2 * i]) * 16 + h(b[2 * i + 1])
        })
        .collect()
}

// ---------------------------------------------------------------- watchdog
// The implementation is run in-process.  If it does not come back from one input within LIMIT seconds (a loop, or time
// exponential in the input), the watchdog prints `HANG <hex of what was being processed>` and ends the process
// with status 99; the checks report that input.
use std::sync::Mutex;
use std::time::Instant;

pub const HANG_LIMIT_SECS: u64 = 30;
static CURRENT: Mutex<Option<(Instant, Vec<u8>)>> = Mutex::new(None);

pub struct Watch;
/// marks the start of work on `what` (the input, or a description of the session); the mark ends when the guard is dropped
pub fn watch(what: &[u8]) -> Watch {
    if let Ok(mut c) = CURRENT.lock() {
        *c = Some((Instant::now(), what.to_vec()));
    }
    Watch
}
impl Drop for Watch {
    fn drop(&mut self) {
        if let Ok(mut c) = CURRENT.lock() {
            *c = None;
        }
    }
}
pub fn start_watchdog() {
    std::thread::spawn(|| loop {
        std::thread::sleep(std::time::Duration::from_millis(500));
        let hung = match CURRENT.lock() {
            Ok(c) => match &*c {
                Some((t, what)) if t.elapsed().as_secs() >= HANG_LIMIT_SECS => Some(what.clone()),
                _ => None,
            },
            Err(_) => None,
        };
        if let Some(what) = hung {
            use std::io::Write;
            let out = std::io::stdout();
            let mut o = out.lock();
            let _ = writeln!(o, "\nHANG {}", hex(&what));
            let _ = o.flush();
            std::process::exit(99);
        }
    });
}
