#!/bin/sh
# Build the whole framework from files on disk only (offline).
set -e
cd "$(dirname "$0")"
exec python3 ./check --setup
